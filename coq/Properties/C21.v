(* Properties/C21.v — Attribute and directory caches behave as bounded TTL LRU maps.
   Only statements closed by [exact lemma], non-vacuity Examples and Print Assumptions live here.

   What is proved (about Model/Cache.v, for every value type, every configuration and every history of
   operations and clock values - the clock need not even be monotone):
     invariants      access list duplicate-free, list = domain of the map, size <= capacity
     C21_refines_*   the map+list representation returns, step by step, exactly what the abstract TTL-LRU map
                     of Model/Cache.v (one recency-ordered association list) returns: Get results, Size,
                     capacity, NegativeStats
     C21_get_latest  whatever a Get returns is the last value the history stored for that key, not invalidated
                     since, before its expiry
     C21_lru_*       a store into a full cache evicts the last key of the access list and nothing else, and
                     the access list is ordered by last use (so that key is the least recently used one)
     C21_neg_*       InvalidateNegativeInDir removes exactly the negative entries selected by isChildOf, which
                     is the parent rule on every key that starts with a slash; negative entries are observable
                     only while negative caching is enabled
   PARTIAL with respect to the property text, checked at run time only (harness/cmd/drive_cache):
     - "returns a copy": aliasing is not expressible in the model; the driver mutates every value it passes in
       or gets back and re-reads.
     - the concurrent half: every method is one atomic step of the model.  Get's RLock -> Lock upgrade window
       and interleavings in general are exercised by the C21race stream (under -race in the thorough tier). *)
From Coq Require Import List NArith ZArith Bool Sorting.Sorted.
From Verif Require Import Model.Cache Proofs.CacheProofs.
Import ListNotations.
Open Scope N_scope.

Section C21.
Context {A E : Type}.

(* ---------------------------------------------------------------- invariants *)
Theorem C21_attr_invariants : forall ttl mx (c : attr_cache A), attr_reachable ttl mx c ->
  NoDup (l_list (ac_lru c)) /\ NoDup (map fst (l_map (ac_lru c))) /\
  (forall k, In k (l_list (ac_lru c)) <-> In k (map fst (l_map (ac_lru c)))) /\
  attr_size c <= attr_max_size c /\ 1 <= attr_max_size c.
Proof. exact C21_attr_invariants_lemma. Qed.

Theorem C21_dir_invariants : forall t me md (c : dir_cache E), dir_reachable t me md c ->
  NoDup (l_list (dc_lru c)) /\ NoDup (map fst (l_map (dc_lru c))) /\
  (forall k, In k (l_list (dc_lru c)) <-> In k (map fst (l_map (dc_lru c)))) /\
  dir_size c <= dir_max_entries c /\ 1 <= dir_max_entries c.
Proof. exact C21_dir_invariants_lemma. Qed.

(* ---------------------------------------------------------------- refinement of the abstract TTL-LRU *)
(* every history, every clock: same observations as the specification (whose InvalidateNegativeInDir uses
   the code's isChildOf, pinned down by C21_neg_children_rule below) *)
Theorem C21_refines_attr : forall ttl mx (h : list (N * attr_op A)),
  attr_run_obs (new_attr_cache ttl mx) h = sa_run_obs is_child_of (sa_new ttl mx) h.
Proof. exact C21_refines_attr_lemma. Qed.

(* with the declarative rule "the parent of the path is the directory", for histories whose stored keys
   start with a slash (the server only ever uses such keys) *)
Theorem C21_refines_attr_parent_rule : forall ttl mx (h : list (N * attr_op A)), abs_keys h ->
  attr_run_obs (new_attr_cache ttl mx) h = sa_run_obs direct_child_b (sa_new ttl mx) h.
Proof. exact C21_refines_attr_parent_lemma. Qed.

Theorem C21_refines_dir : forall t me md (h : list (N * dir_op E)),
  dir_run_obs (new_dir_cache t me md) h = sd_run_obs (sd_new t me md) h.
Proof. exact C21_refines_dir_lemma. Qed.

(* ---------------------------------------------------------------- a hit is the most recent value stored *)
(* last_store k = the last (value, expiry) the history stored for k, None once k was invalidated (by
   Invalidate, InvalidateTree, InvalidateNegativeInDir, Clear or switching negative caching off); it depends
   on the operations and the TTL settings only.  Whatever a Get returns is that value, strictly before its
   expiry (AttrCache) / up to and including it (DirCache) - and otherwise nothing.  (That the value IS
   returned unless evicted is the refinement above: the specification keeps every stored entry until a
   capacity eviction or a Get that meets it expired.) *)
Theorem C21_get_latest : forall ttl mx (h : list (N * attr_op A)) now k,
  let r := ls_run (new_attr_cache ttl mx) (fun _ => None) h in
  let c := fst r in let last_store := snd r in
  c = fold_left attr_step h (new_attr_cache ttl mx) /\
  match snd (attr_get now k c) with
  | Hit a => exists exp, last_store k = Some (Some a, exp) /\ (Z.of_N now < exp)%Z
  | NegHit => exists exp, last_store k = Some (None, exp) /\ (Z.of_N now < exp)%Z
  | Miss => True
  end.
Proof. exact C21_get_latest_lemma. Qed.

Theorem C21_dir_get_latest : forall t me md (h : list (N * dir_op E)) now k,
  let r := dls_run (new_dir_cache t me md) (fun _ => None) h in
  let c := fst r in let last_store := snd r in
  c = fold_left dir_step h (new_dir_cache t me md) /\
  match snd (dir_get now k c) with
  | Some es => exists exp, last_store k = Some (es, exp) /\ (Z.of_N now <= exp)%Z
  | None => True
  end.
Proof. exact C21_dir_get_latest_lemma. Qed.

(* ---------------------------------------------------------------- eviction = least recently used *)
Theorem C21_lru_put : forall ttl mx (c : attr_cache A) now k a, attr_reachable ttl mx c ->
  entry_of c k = None -> attr_max_size c <= attr_size c ->
  let victim := last (l_list (ac_lru c)) [] in
  let c' := attr_put now k a c in
  entry_of c victim <> None /\ entry_of c' victim = None /\
  entry_of c' k = Some {| ce_val := Some a; ce_exp := (Z.of_N now + ac_ttl c)%Z; ce_el := true |} /\
  (forall x, x <> k -> x <> victim -> entry_of c' x = entry_of c x) /\
  l_list (ac_lru c') = k :: removelast (l_list (ac_lru c)) /\ attr_size c' = attr_size c.
Proof. exact C21_lru_put_lemma. Qed.

Theorem C21_lru_put_negative : forall ttl mx (c : attr_cache A) now k, attr_reachable ttl mx c ->
  ac_negon c = true -> entry_of c k = None -> attr_max_size c <= attr_size c ->
  let victim := last (l_list (ac_lru c)) [] in
  let c' := attr_put_negative now k c in
  entry_of c victim <> None /\ entry_of c' victim = None /\
  entry_of c' k = Some {| ce_val := None; ce_exp := (Z.of_N now + ac_negttl c)%Z; ce_el := true |} /\
  (forall x, x <> k -> x <> victim -> entry_of c' x = entry_of c x) /\
  l_list (ac_lru c') = k :: removelast (l_list (ac_lru c)).
Proof. exact C21_lru_put_negative_lemma. Qed.

Theorem C21_lru_dir_put : forall t me md (c : dir_cache E) now k es, dir_reachable t me md c ->
  N.of_nat (length es) <= dc_max_dir c -> dentry_of c k = None -> dir_max_entries c <= dir_size c ->
  let victim := last (l_list (dc_lru c)) [] in
  let c' := dir_put now k es c in
  dentry_of c victim <> None /\ dentry_of c' victim = None /\
  dentry_of c' k = Some {| ce_val := es; ce_exp := (Z.of_N now + dc_timeout c)%Z; ce_el := true |} /\
  (forall x, x <> k -> x <> victim -> dentry_of c' x = dentry_of c x) /\
  l_list (dc_lru c') = k :: removelast (l_list (dc_lru c)).
Proof. exact C21_lru_dir_put_lemma. Qed.

(* a Put that needs no room (key present, or cache not full) evicts nothing *)
Theorem C21_put_keeps : forall ttl mx (c : attr_cache A) now k a, attr_reachable ttl mx c ->
  (entry_of c k <> None \/ attr_size c < attr_max_size c) ->
  forall x, x <> k -> entry_of (attr_put now k a c) x = entry_of c x.
Proof. exact C21_put_keeps_lemma. Qed.

(* what "last of the access list" means: with last_use k = the number of the last step of the history
   that used k (stored it by Put / enabled PutNegative, or returned it from Get), the access list is in
   strictly decreasing order of last_use; hence its last element is the least recently used cached key *)
Theorem C21_lru_recency_attr : forall ttl mx (h : list (N * attr_op A)),
  let r := attr_stamps (new_attr_cache ttl mx) 0 (fun _ => 0%nat) h in
  let c := fst r in let last_use := snd r in
  c = fold_left attr_step h (new_attr_cache ttl mx) /\
  StronglySorted (by_stamp last_use) (l_list (ac_lru c)) /\
  forall x, In x (l_list (ac_lru c)) -> x <> last (l_list (ac_lru c)) [] ->
            (last_use (last (l_list (ac_lru c)) []) < last_use x)%nat.
Proof. exact C21_lru_recency_lemma. Qed.

Theorem C21_lru_recency_dir : forall t me md (h : list (N * dir_op E)),
  let r := dir_stamps (new_dir_cache t me md) 0 (fun _ => 0%nat) h in
  let c := fst r in let last_use := snd r in
  c = fold_left dir_step h (new_dir_cache t me md) /\
  StronglySorted (by_stamp last_use) (l_list (dc_lru c)) /\
  forall x, In x (l_list (dc_lru c)) -> x <> last (l_list (dc_lru c)) [] ->
            (last_use (last (l_list (dc_lru c)) []) < last_use x)%nat.
Proof. exact C21_lru_recency_dir_lemma. Qed.

(* a listing longer than maxDirSize is refused; whatever was cached (also for that path) stays *)
Theorem C21_dir_put_refused : forall (c : dir_cache E) now k es,
  dc_max_dir c < N.of_nat (length es) -> dir_put now k es c = c.
Proof. exact C21_dir_put_refused_lemma. Qed.

(* ---------------------------------------------------------------- negative entries *)
(* InvalidateNegativeInDir d removes exactly the negative entries whose key isChildOf selects; all other
   entries, the order of the access list and the configuration are untouched *)
Theorem C21_neg_children : forall ttl mx (c : attr_cache A) d, attr_reachable ttl mx c ->
  let c' := attr_invalidate_negative_in_dir d c in
  (forall x, entry_of c' x =
             match entry_of c x with
             | Some e => if is_neg e && is_child_of x d then None else Some e
             | None => None
             end) /\
  l_list (ac_lru c') =
    filter (fun x => negb match entry_of c x with Some e => is_neg e && is_child_of x d | None => false end)
           (l_list (ac_lru c)) /\
  attr_max_size c' = attr_max_size c /\ ac_ttl c' = ac_ttl c /\ ac_negttl c' = ac_negttl c /\ ac_negon c' = ac_negon c.
Proof. exact C21_neg_children_lemma. Qed.

Theorem C21_neg_enabled : forall ttl mx (c : attr_cache A), attr_reachable ttl mx c -> ac_negon c = false ->
  (forall k e, entry_of c k = Some e -> ce_val e <> None) /\
  (forall now k, snd (attr_get now k c) <> NegHit) /\ attr_negative_stats c = 0 /\
  (forall now k, attr_put_negative now k c = c).
Proof. exact C21_neg_enabled_lemma. Qed.

Theorem C21_tree : forall ttl mx (c : attr_cache A) d, attr_reachable ttl mx c ->
  forall x, entry_of (attr_invalidate_tree d c) x = if in_tree x d then None else entry_of c x.
Proof. exact C21_tree_lemma. Qed.
End C21.

(* ---------------------------------------------------------------- isChildOf on all byte strings *)
(* the code's rule, literally: under "/" any path c::name with a non-empty slash-free name (the first byte c
   is never inspected); under another d exactly d ++ "/" ++ name.  A directory given with a trailing slash
   ("/a/") therefore has no children among clean paths ("/a/b" is not "/a/" ++ "/" ++ "b"). *)
Theorem C21_neg_children_rule : forall p d, is_child_of p d = true <->
  (d = [slash] /\ exists c name, p = c :: name /\ name <> [] /\ ~ In slash name) \/
  (d <> [slash] /\ exists name, p = d ++ slash :: name /\ name <> [] /\ ~ In slash name).
Proof. exact is_child_of_spec. Qed.

(* the declarative rule: p = (d ++ "/", or "/" for the root) ++ one non-empty slash-free name *)
Theorem C21_direct_child_rule : forall p d, direct_child_b p d = true <-> direct_child p d.
Proof. exact direct_child_b_spec. Qed.

(* isChildOf is the declarative rule on every path that starts with a slash, and in general deviates from it
   exactly by [root_quirk]: a path NOT starting with a slash counts as a child of "/" *)
Theorem C21_child_is_parent_rule_abs : forall p d, is_abs p = true -> is_child_of p d = direct_child_b p d.
Proof. exact is_child_of_abs. Qed.
Theorem C21_child_is_parent_rule_or_quirk : forall p d, is_child_of p d = direct_child_b p d || root_quirk p d.
Proof. exact is_child_of_full. Qed.

Theorem C21_tree_rule : forall p d, in_tree p d = true <->
  p = d \/ exists rest, p = trim_suffix_slash d ++ slash :: rest.
Proof. exact in_tree_spec. Qed.

(* ---------------------------------------------------------------- why PutNegative must check under the write lock *)
(* The code before the repair read the switch first and stored in a second atomic step.  With a
   ConfigureNegativeCaching(false) between the two halves a negative entry exists, and is served, while
   negative caching is disabled.  (Observed on the real code before the repair: 89 of 200000 barrier-released
   rounds.)  The current, atomic [attr_put_negative] satisfies C21_neg_enabled. *)
Theorem C21_put_negative_split_refuted :
  exists (c : attr_cache N) now k, attr_reachable (5 * sec)%Z 10 c /\
    let rd := attr_put_negative_read_old c in                       (* goroutine 1: read under RLock *)
    let c1 := attr_configure_negative false 0 c in                  (* goroutine 2: switch off + purge *)
    let c2 := attr_put_negative_commit_old now k rd c1 in           (* goroutine 1: store under Lock *)
    ac_negon c2 = false /\ snd (attr_get now k c2) = NegHit /\ attr_negative_stats c2 = 1.
Proof.
  exists (fold_left attr_step [(0, AConfigureNegative true 0%Z)] (new_attr_cache (5 * sec)%Z 10)), 7, [47; 97].
  split; [eexists; reflexivity | vm_compute; repeat split].
Qed.

(* ---------------------------------------------------------------- non-vacuity *)
Definition ex_a : path := [47; 97].            (* "/a"   *)
Definition ex_ab : path := [47; 97; 98].       (* "/ab"  *)
Definition ex_a_b : path := [47; 97; 47; 98].  (* "/a/b" *)
Definition ex_b : path := [47; 98].            (* "/b"   *)

(* a reachable full cache with a negative entry, an expired entry and a reordered access list:
   the hypotheses of C21_lru_put / C21_neg_children / C21_lru_recency are met non-trivially *)
Definition ex_hist : list (N * attr_op N) :=
  [(0, AConfigureNegative true 0%Z); (1, APut ex_a 10); (2, APutNegative ex_a_b); (3, APut ex_ab 30);
   (4, AGet ex_a); (5, APutNegative ex_b)].
Example C21_nontrivial_state :
  let c := fold_left attr_step ex_hist (new_attr_cache 50 3) in
  attr_reachable 50 3 c /\ attr_size c = 3 /\ attr_max_size c = 3 /\ attr_negative_stats c = 1 /\
  l_list (ac_lru c) = [ex_b; ex_a; ex_ab] /\ entry_of c ex_a_b = None /\
  snd (attr_get 60 ex_a c) = Miss /\ snd (attr_get 6 ex_a c) = Hit 10 /\ snd (attr_get 6 ex_b c) = NegHit.
Proof. split; [eexists; reflexivity|]. vm_compute. repeat split. Qed.

(* C21_lru_put's hypotheses hold in that state for a fresh key, and the victim is "/ab" (least recently used) *)
Example C21_lru_put_applies :
  let c := fold_left attr_step ex_hist (new_attr_cache 50 3) in
  entry_of c [47; 122] = None /\ attr_max_size c <= attr_size c /\ last (l_list (ac_lru c)) [] = ex_ab.
Proof. vm_compute. repeat split; discriminate. Qed.

(* C21_neg_children removes something: "/b" is a negative direct child of "/", "/a" is positive, and "/a/b"
   under "/a" *)
Example C21_neg_children_applies :
  let c := fold_left attr_step ex_hist (new_attr_cache 50 3) in
  entry_of (attr_invalidate_negative_in_dir [47] c) ex_b = None /\
  entry_of (attr_invalidate_negative_in_dir [47] c) ex_a <> None /\
  entry_of (attr_invalidate_negative_in_dir ex_a c) ex_b <> None.
Proof. vm_compute. repeat split; discriminate. Qed.

(* C21_neg_enabled's hypothesis: a reachable state with the switch off after negatives had been stored *)
Example C21_neg_enabled_applies :
  let c := fold_left attr_step (ex_hist ++ [(6, AConfigureNegative false 0%Z)]) (new_attr_cache 50 3) in
  attr_reachable 50 3 c /\ ac_negon c = false /\ attr_size c = 2 /\ snd (attr_get 6 ex_b c) = Miss.
Proof. split; [eexists; reflexivity|]. vm_compute. repeat split. Qed.

(* abs_keys is met by that history; the two child rules differ outside it *)
Example C21_abs_keys_applies : abs_keys ex_hist.
Proof. repeat constructor; intros k; cbn; intros [= <-]; reflexivity. Qed.
Example C21_root_quirk_witness :
  is_child_of [120; 97; 98] [47] = true /\ direct_child_b [120; 97; 98] [47] = false /\   (* "xab" under "/" *)
  is_child_of ex_a_b (ex_a ++ [47]) = false /\ is_child_of ex_a_b ex_a = true /\          (* "/a/" vs "/a" *)
  is_child_of ex_ab ex_a = false /\ is_child_of ex_a [47] = true /\ is_child_of [47] [47] = false.
Proof. vm_compute. repeat split. Qed.

(* a DirCache state past its capacity history: eviction, expiry boundary (valid AT validUntil), refusal *)
Example C21_dir_nontrivial :
  let h : list (N * dir_op N) :=
    [(0, DPut ex_a [1; 2]); (1, DPut ex_b [3]); (2, DGet ex_a); (3, DPut ex_ab [4]); (4, DPut ex_ab [5; 6; 7])] in
  let c := fold_left dir_step h (new_dir_cache 10 2 2) in
  dir_reachable 10 2 2 c /\ dir_size c = 2 /\ l_list (dc_lru c) = [ex_ab; ex_a] /\
  snd (dir_get 10 ex_a c) = Some [1; 2] /\ snd (dir_get 11 ex_a c) = None /\ snd (dir_get 5 ex_ab c) = Some [4].
Proof. split; [eexists; reflexivity|]. vm_compute. repeat split. Qed.

Print Assumptions C21_attr_invariants.
Print Assumptions C21_dir_invariants.
Print Assumptions C21_refines_attr.
Print Assumptions C21_refines_attr_parent_rule.
Print Assumptions C21_refines_dir.
Print Assumptions C21_get_latest.
Print Assumptions C21_dir_get_latest.
Print Assumptions C21_lru_put.
Print Assumptions C21_lru_put_negative.
Print Assumptions C21_lru_dir_put.
Print Assumptions C21_put_keeps.
Print Assumptions C21_lru_recency_attr.
Print Assumptions C21_lru_recency_dir.
Print Assumptions C21_dir_put_refused.
Print Assumptions C21_neg_children.
Print Assumptions C21_neg_enabled.
Print Assumptions C21_tree.
Print Assumptions C21_neg_children_rule.
Print Assumptions C21_direct_child_rule.
Print Assumptions C21_child_is_parent_rule_abs.
Print Assumptions C21_child_is_parent_rule_or_quirk.
Print Assumptions C21_tree_rule.
Print Assumptions C21_put_negative_split_refuted.
