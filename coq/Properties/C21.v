(* placeholder, being written *)
