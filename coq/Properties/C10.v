(* Properties/C10.v — Identity squashing maps every credential as configured.
   Only statements closed by [exact lemma], non-vacuity examples and Print Assumptions live here.

   Model (Model/Auth.v): [parse_authsys] = ParseAuthSysCredential over bytes, [apply_squashing] =
   applySquashing, [validate] = ValidateAuthentication.  Mode strings, machine names and bodies are
   byte lists; uid/gid values are unbounded naturals; auxiliary lists have any length.
   [lower_is s w]: s is an ASCII string whose lower-casing ('A'-'Z' + 32) is the word w.
   ASSUMPTION (Go's strings.ToLower beyond ASCII, see Model/Auth.v squash_kind): a mode string
   containing a byte >= 128 never lower-cases to "root", "all", "none" or "" - it is [unrecognised].
   The driver checks the fact this rests on for every Unicode code point on every run. *)
From Coq Require Import String Ascii List NArith ZArith Bool.
From Verif Require Import Gen.Facts Model.Auth Proofs.AuthProofs.
Import ListNotations.
Open Scope N_scope.

(* the four-row table, for every uid, gid, auxiliary list and every spelling of the mode *)
Theorem C10_table : forall c squash,
  let r := apply_squashing (c_uid c) (c_gid c) c squash in
  let u := fst (fst r) in let g := snd (fst r) in let aux' := snd r in
  (lower_is squash "all" -> u = nobody /\ g = nobody /\ aux' = repeat nobody (length (c_aux c))) /\
  (lower_is squash "root" ->
      u = (if c_uid c =? 0 then nobody else c_uid c) /\
      g = (if c_uid c =? 0 then nobody else squash_id (c_gid c)) /\
      aux' = map squash_id (c_aux c)) /\
  (lower_is squash "none" \/ squash = [] -> u = c_uid c /\ g = c_gid c /\ aux' = c_aux c) /\
  (unrecognised squash -> u = nobody /\ g = nobody /\ aux' = c_aux c).
Proof. exact C10_table_lemma. Qed.

(* every mode string falls in exactly one row (so the table is total and unambiguous) *)
Theorem C10_rows_cover : forall squash,
  lower_is squash "root" \/ lower_is squash "all" \/ (lower_is squash "none" \/ squash = []) \/ unrecognised squash.
Proof. exact rows_cover_lemma. Qed.

(* AUTH_SYS end to end through ValidateAuthentication: a well-formed body that passes the host/port
   gate is accepted with the table's identity; the aux list later handlers see is the table's *)
Theorem C10_authsys : forall filter_on ip_ok secure port body c squash,
  passes_gate filter_on ip_ok secure port = true ->
  wf_authsys body c ->
  let r := validate filter_on ip_ok secure port AUTH_SYS body None squash in
  let t := squash_table (squash_kind squash) (c_uid c) (c_gid c) (c_aux c) in
  v_allowed r = true /\ v_uid r = fst (fst t) /\ v_gid r = snd (fst t) /\
  option_map c_aux (v_authsys r) = Some (snd t) /\
  option_map c_uid (v_authsys r) = Some (c_uid c) /\ option_map c_gid (v_authsys r) = Some (c_gid c).
Proof. exact validate_authsys. Qed.

(* AUTH_NONE always maps to nobody/nobody, whatever the body and the squash mode *)
Theorem C10_auth_none : forall filter_on ip_ok secure port body pre squash,
  passes_gate filter_on ip_ok secure port = true ->
  let r := validate filter_on ip_ok secure port AUTH_NONE body pre squash in
  v_allowed r = true /\ v_uid r = nobody /\ v_gid r = nobody /\ v_authsys r = pre.
Proof. exact validate_auth_none. Qed.

(* every other flavour is denied (and carries nobody/nobody) *)
Theorem C10_other_denied : forall filter_on ip_ok secure port flavor body pre squash,
  flavor <> AUTH_NONE -> flavor <> AUTH_SYS ->
  let r := validate filter_on ip_ok secure port flavor body pre squash in
  v_allowed r = false /\ v_uid r = nobody /\ v_gid r = nobody.
Proof. exact validate_other_flavor. Qed.

(* the parser accepts exactly the AUTH_SYS layout: stamp, length-prefixed machine name of at most
   f_auth_string_limit bytes padded to a multiple of 4, uid, gid, count <= 16, count gids
   (anything may follow: trailing bytes are not inspected) *)
Theorem C10_parser_exact : forall body c, parse_authsys body = Some c <-> wf_authsys body c.
Proof. exact parse_authsys_spec. Qed.

(* hence every byte string that is not a well-formed AUTH_SYS body is denied *)
Theorem C10_bad_body_denied : forall filter_on ip_ok secure port body squash,
  (forall c, ~ wf_authsys body c) ->
  let r := validate filter_on ip_ok secure port AUTH_SYS body None squash in
  v_allowed r = false /\ v_uid r = nobody /\ v_gid r = nobody /\ v_authsys r = None.
Proof. exact validate_bad_body. Qed.

Theorem C10_aux_limit : forall body c, parse_authsys body = Some c -> N.of_nat (length (c_aux c)) <= max_aux.
Proof. exact parse_authsys_aux_bound. Qed.

(* "Squashing never alters auxiliary-gid data shared with the caller": in the heap model of the
   slice (Model/Auth.v, squash_heap) every backing array that existed before is unchanged, and what
   the credential's slice shows afterwards is the table's list.
   PARTIAL: that applySquashing really allocates (make+copy) before writing is a fact about Go
   slices that this two-line heap transcribes, it is not derived from the Go source; the driver
   checks it on the real code in every AUTH_SYS case (the caller keeps the slice and its backing
   array and compares them afterwards). *)
Definition C10_statement_no_alias : Prop := forall k st i,
  (i < length (cells st))%nat -> nth i (cells (squash_heap k st)) [] = nth i (cells st) [].
Theorem C10_no_alias_partial : C10_statement_no_alias.
Proof. exact squash_heap_old_cells. Qed.
Theorem C10_heap_view : forall c squash st,
  aux_of st = c_aux c ->
  aux_of (squash_heap (squash_kind squash) st) = snd (apply_squashing (c_uid c) (c_gid c) c squash).
Proof. exact squash_heap_view. Qed.

(* the documented numbers and labels, as the source has them now *)
Definition decb {P Q : Prop} (d : {P} + {Q}) : bool := if d then true else false.
Theorem C10_facts :
  ((f_auth_nobody =? 65534) && (f_auth_max_aux_gids =? 16) && (f_auth_string_limit =? c_MAX_XDR_STRING_LENGTH) &&
   (c_AUTH_NONE =? 0) && (c_AUTH_SYS =? 1))%Z &&
  f_auth_squash_has_default && f_auth_flavor_default_denies &&
  decb (list_eq_dec (list_eq_dec string_dec) f_auth_squash_labels [["root"]; ["all"]; ["none"; ""]])%string &&
  decb (list_eq_dec Z.eq_dec f_auth_flavor_cases [c_AUTH_NONE; c_AUTH_SYS]) = true.
Proof. vm_compute. reflexivity. Qed.

(* ---- non-vacuity ---- *)
Definition B (s : string) : list N := bytes_of_string s.
Definition mk (uid gid : N) (aux : list N) : cred :=
  {| c_stamp := 1; c_machine := B "host"; c_uid := uid; c_gid := gid; c_aux := aux |}.

(* every row's hypothesis is met by a mixed-case spelling, and the rows differ *)
Example C10_rows_nontrivial :
  lower_is (B "AlL") "all" /\ lower_is (B "ROOT") "root" /\ lower_is (B "nOne") "none" /\
  unrecognised (B "root ") /\ unrecognised (B "squash") /\ unrecognised [114; 246; 111; 116] /\
  apply_squashing 0 0 (mk 0 0 [0; 5; 0]) (B "Root") = (65534, 65534, [65534; 5; 65534]) /\
  apply_squashing 7 0 (mk 7 0 [0; 7]) (B "rooT") = (7, 65534, [65534; 7]) /\
  apply_squashing 7 0 (mk 7 0 [0; 7]) (B "ALL") = (65534, 65534, [65534; 65534]) /\
  apply_squashing 0 0 (mk 0 0 [0; 7]) (B "NONE") = (0, 0, [0; 7]) /\
  apply_squashing 0 0 (mk 0 0 [0; 7]) [] = (0, 0, [0; 7]) /\
  apply_squashing 0 0 (mk 0 0 [0; 7]) (B "r00t") = (65534, 65534, [0; 7]).
Proof.
  repeat split; try (vm_compute; reflexivity); try (intros [H1 H2]; vm_compute in H1, H2; discriminate);
    try discriminate.
Qed.

(* a well-formed body (machine "ab" + 2 bytes of padding, two gids, trailing garbage) and three
   ill-formed ones: truncated, 17 gids announced, name longer than the limit *)
Definition good_body : list N :=
  [0;0;0;9] ++ [0;0;0;2] ++ [97;98] ++ [0;0] ++ [0;0;3;232] ++ [0;0;0;0] ++ [0;0;0;2] ++ [0;0;0;0; 0;0;0;5] ++ [255].
Example C10_wf_nontrivial :
  wf_authsys good_body {| c_stamp := 9; c_machine := [97; 98]; c_uid := 1000; c_gid := 0; c_aux := [0; 5] |} /\
  passes_gate true true true 1023 = true /\
  (let r := validate true true true 1023 AUTH_SYS good_body None (B "root") in
   v_allowed r = true /\ v_uid r = 1000 /\ v_gid r = 65534 /\ option_map c_aux (v_authsys r) = Some [65534; 5]).
Proof.
  assert (W : forall a b c d, word [a; b; c; d] (be32 a b c d)).
  { intros a b c d. exists a, b, c, d. split; reflexivity. }
  split; [|split; vm_compute; repeat split; reflexivity].
  exists [0;0;0;9], [0;0;0;2], [0;0], [0;0;3;232], [0;0;0;0], [0;0;0;2], [[0;0;0;0]; [0;0;0;5]], [255].
  cbn [c_stamp c_machine c_uid c_gid c_aux].
  split; [reflexivity|]. split; [apply (W 0 0 0 9)|]. split; [apply (W 0 0 0 2)|].
  split; [vm_compute; discriminate|]. split; [cbn; repeat constructor|]. split; [reflexivity|].
  split; [apply (W 0 0 3 232)|]. split; [apply (W 0 0 0 0)|]. split; [apply (W 0 0 0 2)|].
  split; [vm_compute; discriminate|].
  constructor; [apply (W 0 0 0 0)|]. constructor; [apply (W 0 0 0 5)|]. constructor.
Qed.

Example C10_bad_bodies :
  parse_authsys (firstn 20 good_body) = None /\
  parse_authsys ([0;0;0;9] ++ [0;0;0;0] ++ [0;0;0;1] ++ [0;0;0;1] ++ [0;0;0;17] ++ repeat 0 68) = None /\
  parse_authsys ([0;0;0;9] ++ [0;0;32;1] ++ repeat 0 (N.to_nat 8300)) = None /\
  parse_authsys [] = None /\
  (forall c, ~ wf_authsys (firstn 20 good_body) c).
Proof.
  repeat split; try (vm_compute; reflexivity).
  intros c W. apply parse_authsys_complete in W. vm_compute in W. discriminate.
Qed.

(* the heap statement's hypothesis: a caller-shared array that squashing would have to rewrite *)
Example C10_no_alias_nontrivial :
  let st := {| cells := [[0; 7; 0]]; aux_ptr := 0 |} in
  cells (squash_heap SRoot st) = [[0; 7; 0]; [65534; 7; 65534]] /\ aux_of (squash_heap SRoot st) = [65534; 7; 65534] /\
  cells (squash_heap SAll st) = [[0; 7; 0]; [65534; 65534; 65534]].
Proof. vm_compute. repeat split; reflexivity. Qed.

Print Assumptions C10_table.
Print Assumptions C10_rows_cover.
Print Assumptions C10_authsys.
Print Assumptions C10_auth_none.
Print Assumptions C10_other_denied.
Print Assumptions C10_parser_exact.
Print Assumptions C10_bad_body_denied.
Print Assumptions C10_aux_limit.
Print Assumptions C10_no_alias_partial.
Print Assumptions C10_heap_view.
Print Assumptions C10_facts.
