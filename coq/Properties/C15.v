(* Properties/C15.v — arbitrary client bytes cannot crash, desynchronise or exhaust the server.
   Only statements closed by [exact lemma], non-vacuity Examples and Print Assumptions live here.

   Reading guide.  Model/Conn.v is the record-marking connection loop of server.go: [serve_conn d st s] lists, for
   the byte stream [s] a client sends on one connection, the events of that connection in order -- [Replied xid payload]
   per answered call, then exactly one [Closed reason] -- each with the allocation trace of decoding that message
   (RecordMarkingReader.ReadRecord followed by DecodeRPCCall; C13's trace convention).  Everything between ReadCall
   and WriteReply (auth context, rate limiter, HandleCall for every program / version / procedure, the server
   state the replies depend on) is the parameter [d : St -> call -> bytes -> St * option bytes]; [None] is
   HandleCall's only error (the per-request timeout).  All theorems quantify over every state type, dispatcher,
   initial state and byte stream; none has a size bound.

   [decodes s cs r] (Proofs/ConnServeProofs.v) is the specification of "the decodable prefix of the stream": the
   calls (header, argument bytes) the codecs of C13 extract record by record, and the reason r why that stops.

   PARTIAL (runtime facts the model cannot exhibit; exercised by the harness over real loopback TCP, thorough tier
   under -race): no Go-level panic / the process survives; other connections (an old one and a new one) keep
   being served; heap growth per message (runtime.MemStats) stays within c * (record limit + bytes received);
   no goroutine is left behind; write errors and the 30 s read/write deadlines (C17) end the loop.  In the model
   a dereference of nil cannot happen because the dispatcher is total by type; C15_no_model_panic of DESIGN.md is
   subsumed: no event other than Replied / Closed exists, and the fuel artefact is proved unreachable (C15_close). *)
From Coq Require Import List NArith ZArith Bool.
From Verif Require Import Gen.Facts Model.Bytes Model.Xdr Model.Rpc Model.RecordMark Model.Conn.
From Verif Require Import Proofs.BytesProofs Proofs.XdrProofs Proofs.RpcProofs Proofs.RecordMarkProofs
                          Proofs.ConnServeProofs.
Import ListNotations.
Open Scope N_scope.

(* ---- the documented limits are the ones the connection loop runs with; shape of the loop ---- *)
Theorem C15_facts :
  ((c_DefaultMaxRecordSize =? 1048576) && (f_reader_default_max =? c_DefaultMaxRecordSize) &&
   (f_reader_fallback_max =? c_DefaultMaxRecordSize) &&
   (c_MAX_RPC_AUTH_LENGTH =? 400) && (f_cred_limit =? c_MAX_RPC_AUTH_LENGTH) && (f_verf_limit =? c_MAX_RPC_AUTH_LENGTH) &&
   (c_MAX_XDR_STRING_LENGTH =? 8192) && (f_string_limit =? c_MAX_XDR_STRING_LENGTH) &&
   (f_fh_max_len =? 64) &&
   (c_LastFragmentFlag =? 2147483648) && (c_MaxFragmentSize =? 2147483647) &&
   (c_DefaultMaxFragmentSize =? 1048576) && (f_writer_default_frag =? c_DefaultMaxFragmentSize) &&
   (c_RPC_CALL =? 0) && (c_RPC_REPLY =? 1))%Z &&
  (* structure of server.go read off the syntax tree (astfacts x_conn.go) *)
  f_c15_loop_defers_close && f_c15_conn_goroutine_recovers && f_c15_conn_goroutine_unregisters &&
  f_c15_read_err_returns && f_c15_handle_err_returns && f_c15_write_err_returns && f_c15_ratelimit_continues &&
  (f_c15_read_call_sites =? 1)%Z && (f_c15_write_reply_sites =? 2)%Z &&
  f_c15_readcall_record_then_decode && f_c15_decode_from_record && f_c15_conn_default_limits = true.
Proof. vm_compute. reflexivity. Qed.

(* the limits as the model uses them *)
Theorem C15_limits :
  record_limit = 1048576 /\ eff_max conn_max = record_limit /\ cred_limit = 400 /\ verf_limit = 400 /\
  string_limit = 8192 /\ fh_max_len = 64.
Proof. repeat split. Qed.

(* ======================= the decodable prefix is well defined ======================= *)
(* every stream has exactly one decodable prefix / stop reason, and [split_calls] computes it *)
Theorem C15_decodable_prefix : forall s,
  (exists cs r, decodes s cs r) /\
  (forall cs r cs' r', decodes s cs r -> decodes s cs' r' -> cs = cs' /\ r = r') /\
  (forall cs r, decodes s cs r <-> split_calls s = (cs, r)).
Proof. exact C15_prefix_spec_lemma. Qed.

(* ======================= order, one reply per call, XID ======================= *)
(* The events of a connection are: one reply per call of the decodable prefix, in arrival order, carrying that
   call's XID, for as long as the dispatcher answers (reps = the replies, threading the server state through the
   calls); then Closed.  No more replies than calls; exactly as many when the dispatcher never fails; the k-th
   reply's XID is the k-th call's XID; and when the dispatcher echoes the XID in the payload (the real one
   does, C15_xid_echo) every reply payload on the wire starts with its call's XID. *)
Theorem C15_order : forall St (d : dispatcher St) st s cs r, decodes s cs r ->
  let reps := fst (answer d st cs) in
  let ok := snd (answer d st cs) in
  events (serve_conn d st s) = reply_events reps ++ [Closed (if ok then r else CHandler)] /\
  (length reps <= length cs)%nat /\
  (ok = true -> length reps = length cs) /\
  map fst reps = map (fun cb => c_xid (fst cb)) (firstn (length reps) cs) /\
  (echoes_xid d -> Forall (fun xb => take 4 (snd xb) = enc_u32 (fst xb)) reps) /\
  ((forall st c body, snd (d st c body) <> None) -> ok = true).
Proof. exact C15_order_lemma. Qed.

(* EncodeRPCReply starts with the XID of the reply structure, so every dispatcher that builds its reply from the
   call's header (HandleCall, drainReply and the rate-limit branch all start from `Header: call.Header`) and
   encodes it with EncodeRPCReply echoes the XID *)
Theorem C15_xid_echo :
  (forall r, take 4 (enc_reply r) = enc_u32 (r_xid r)) /\
  (forall St (h : St -> call -> bytes -> St * option reply),
     (forall st c body st' r, h st c body = (st', Some r) -> r_xid r = c_xid c) ->
     echoes_xid (encoding_dispatcher h)).
Proof. split; [exact enc_reply_xid|exact @encoding_dispatcher_echoes]. Qed.

(* ======================= closure ======================= *)
(* (1) every connection ends with exactly one Closed, after the replies; the reason is one of: end of stream at a
   record boundary, stream cut inside a header / fragment, record above 1 MiB, complete record that is not a
   decodable call (too short -- incl. the empty record --, msg_type <> CALL, credential / verifier > 400),
   handler error; the model's fuel artefact never shows.
   (2) once the connection was closed for a reason that does not depend on further input ([close_waits] = false:
   everything except "the reader was waiting for more bytes"), NOTHING the client sends afterwards is answered
   or changes what was answered: the events for s ++ s2 are the events for s, for every s2. *)
Theorem C15_close : forall St (d : dispatcher St) st s,
  (exists reps r,
     events (serve_conn d st s) = reply_events reps ++ [Closed r] /\
     (r = CEof \/ r = CRead EShort \/ r = CRead ELimit \/ (exists e, r = CDecode e) \/ r = CHandler)) /\
  (forall r, close_reason_of (events (serve_conn d st s)) = Some r -> close_waits r = false ->
     forall s2, events (serve_conn d st (s ++ s2)) = events (serve_conn d st s)).
Proof. exact C15_close_lemma. Qed.

(* ======================= at most once: later bytes cannot change or duplicate earlier replies ======================= *)
(* the events for s1 ++ s2 extend the events for s1: the same replies first (same XIDs, same payloads, same
   order), then possibly more; so a call is never answered twice and an answer is never retracted, however
   the stream continues and however it is cut into TCP segments (the model is a function of the byte stream) *)
Theorem C15_prefix_determinism : forall St (d : dispatcher St) st s1 s2,
  exists reps more r1 r2,
    events (serve_conn d st s1) = reply_events reps ++ [Closed r1] /\
    events (serve_conn d st (s1 ++ s2)) = reply_events (reps ++ more) ++ [Closed r2].
Proof. exact @prefix_lemma. Qed.

(* ======================= allocation while decoding one message ======================= *)
(* (1) for every stream, the trace of every message is (ReadRecord's trace) ++ (DecodeRPCCall's trace) with every
   buffer of the first within the record limit (1 MiB) and every buffer of the second within the auth limit (400);
   in particular no allocation of a message exceeds 1 MiB whatever lengths the client declares.
   (2) the argument decoders the handlers then run on the call's body are bounded by 64 (handle) and 8192
   (strings) on every input (C13's lemmas, restated for the GETATTR / LOOKUP-shaped / MNT argument lists).
   (3) total volume of ReadRecord's buffers for one message: <= 2 * limit + bytes available + 4 -- the count of
   allocations is unbounded (empty fragments) but each 4-byte header scratch is paid for by 4 input bytes. *)
Theorem C15_alloc :
  (forall St (d : dispatcher St) st s,
     Forall (fun t => msg_trace_ok t /\ tr_le record_limit t) (traces (serve_conn d st s))) /\
  (bounded fh_max_len dec_getattr_args /\ bounded string_limit dec_dirop_args /\ bounded string_limit dec_mnt_args) /\
  (forall mx s, tsum (o_trace (read_record mx s)) <= 2 * eff_max mx + len s + 4).
Proof.
  split; [exact C15_alloc_lemma|]. split; [|exact read_record_alloc_total].
  split; [exact bounded_getattr_args|]. split; [exact bounded_dirop_args|exact bounded_mnt_args].
Qed.

(* ======================= well-formed clients are served (the statement is not vacuous) ======================= *)
(* any number of well-formed calls, pipelined, each record fragmented in ANY way (empty fragments included),
   followed by the client's EOF: every call is answered, in order, with its XID, and the connection then ends
   with a clean EOF.  [item_ok]: header fields are 32-bit words, credential / verifier within 400 bytes, the
   fragments concatenate to header ++ arguments, the record is within 1 MiB. *)
Theorem C15_valid_stream : forall St (d : dispatcher St) st items,
  Forall item_ok items ->
  (forall st c body, snd (d st c body) <> None) ->
  exists reps,
    events (serve_conn d st (wire_in items)) = reply_events reps ++ [Closed CEof] /\
    map fst reps = map (fun it => c_xid (fst (fst it))) items.
Proof. exact @valid_stream_lemma. Qed.

(* and whatever follows well-formed calls is decoded from a record boundary: the reply stream stays in step *)
Theorem C15_valid_then_any : forall items tail cs r,
  Forall item_ok items -> decodes tail cs r -> decodes (wire_in items ++ tail) (map fst items ++ cs) r.
Proof. exact decodes_valid. Qed.

(* the reply byte stream is self-delimiting: a record reader (any limit admitting the payloads) recovers exactly
   the reply payloads, in order, with nothing left over *)
Theorem C15_wire : forall St (d : dispatcher St) st s mx,
  let evs := events (serve_conn d st s) in
  Forall (fun xb => len (snd xb) <= eff_max mx) (replies evs) ->
  dec_ok (read_records mx (length (replies evs)) (wire_out evs)) = Some (map snd (replies evs), []).
Proof. exact @wire_out_readback. Qed.

(* ======================= non-vacuity ======================= *)
Definition ex_null (xid : N) : call := mkCall xid 2 100003 3 0 0 [] 0 [].
Definition ex_getattr (xid : N) : call := mkCall xid 2 100003 3 1 1 (enc_u32 0 ++ enc_u32 0 ++ enc_u32 0 ++ enc_u32 0 ++ enc_u32 0) 0 [].
(* a dispatcher with state: answers with the XID followed by a counter of the calls served so far *)
Definition ex_disp : dispatcher N := fun n c body => (n + 1, Some (enc_u32 (c_xid c) ++ enc_u32 n)).
(* a dispatcher that times out on procedure 1 *)
Definition ex_disp_timeout : dispatcher N :=
  fun n c body => if c_proc c =? 1 then (n, None) else (n + 1, Some (enc_u32 (c_xid c) ++ enc_u32 n)).
Definition ex_rec (b : bytes) : bytes := enc_frags [b].
Definition ex_rec2 (b : bytes) : bytes := enc_frags [take 5 b; []; drop 5 b; []].      (* 4 fragments, 2 empty *)

Definition event_eqb (a b : event) : bool :=
  match a, b with
  | Replied x p, Replied y q => (x =? y) && bytes_eqb p q
  | Closed CEof, Closed CEof | Closed CHandler, Closed CHandler => true
  | Closed (CRead e), Closed (CRead f) | Closed (CDecode e), Closed (CDecode f) => err_eqb e f
  | _, _ => false
  end.
Fixpoint events_eqb (a b : list event) : bool :=
  match a, b with
  | [], [] => true
  | x :: a', y :: b' => event_eqb x y && events_eqb a' b'
  | _, _ => false
  end.

Fixpoint traces_eqb (a b : list (list ev)) : bool :=
  match a, b with
  | [], [] => true
  | x :: a', y :: b' => trace_eqb x y && traces_eqb a' b'
  | _, _ => false
  end.

Definition ex_stream : bytes :=
  ex_rec (enc_call (ex_null 7)) ++ ex_rec2 (enc_call (ex_getattr 8) ++ enc_fh 1) ++ ex_rec (enc_call (ex_null 9)).

(* three pipelined calls, the second in four fragments: three replies in order with XIDs 7 8 9, state threaded *)
Example C15_order_nontrivial :
  events_eqb (events (serve_conn ex_disp 0 ex_stream))
    [Replied 7 (enc_u32 7 ++ enc_u32 0); Replied 8 (enc_u32 8 ++ enc_u32 1); Replied 9 (enc_u32 9 ++ enc_u32 2);
     Closed CEof] &&
  (* the decodable prefix seen by the oracle: the same three calls; the body of the second is the handle *)
  (match split_calls ex_stream with
   | ([(c1, b1); (c2, b2); (c3, b3)], CEof) =>
       call_eqb c1 (ex_null 7) && call_eqb c2 (ex_getattr 8) && bytes_eqb b2 (enc_fh 1) && call_eqb c3 (ex_null 9)
   | _ => false end) &&
  (* a handler timeout on the second call: first reply only, then closed, the third call is never answered *)
  events_eqb (events (serve_conn ex_disp_timeout 0 ex_stream)) [Replied 7 (enc_u32 7 ++ enc_u32 0); Closed CHandler] = true.
Proof. vm_compute. reflexivity. Qed.

(* every way a stream can end *)
Example C15_close_nontrivial :
  (* garbage after one good call: a REPLY (msg_type 1) record; the good call behind it is not answered *)
  events_eqb (events (serve_conn ex_disp 0
      (ex_rec (enc_call (ex_null 7)) ++ ex_rec (enc_u32 5 ++ enc_u32 1 ++ enc_u32 0) ++ ex_rec (enc_call (ex_null 9)))))
    [Replied 7 (enc_u32 7 ++ enc_u32 0); Closed (CDecode EMsgType)] &&
  (* the empty record (last-fragment header with length 0) *)
  events_eqb (events (serve_conn ex_disp 0 (enc_u32 2147483648 ++ ex_rec (enc_call (ex_null 9)))))
    [Closed (CDecode EShort)] &&
  (* a record cut inside the call header *)
  events_eqb (events (serve_conn ex_disp 0 (ex_rec (take 13 (enc_call (ex_null 9))))))
    [Closed (CDecode EShort)] &&
  (* declared fragment of 1 MiB + 1: rejected at the header; of 2^31-1: the same *)
  events_eqb (events (serve_conn ex_disp 0 (enc_u32 (2147483648 + 1048577) ++ [1; 2; 3])))
    [Closed (CRead ELimit)] &&
  events_eqb (events (serve_conn ex_disp 0 (enc_u32 4294967295))) [Closed (CRead ELimit)] &&
  (* running total: 1 MiB declared in a first non-final fragment would be read; a 2-byte first fragment and
     a second one of 1 MiB - 1 crosses the limit *)
  events_eqb (events (serve_conn ex_disp 0 (enc_u32 2 ++ [0; 0] ++ enc_u32 (2147483648 + 1048575))))
    [Closed (CRead ELimit)] &&
  (* stream cut inside a fragment header / inside a fragment / between two fragments: the reader was waiting *)
  events_eqb (events (serve_conn ex_disp 0 (ex_rec (enc_call (ex_null 7)) ++ [128; 0])))
    [Replied 7 (enc_u32 7 ++ enc_u32 0); Closed (CRead EShort)] &&
  events_eqb (events (serve_conn ex_disp 0 (enc_u32 (2147483648 + 40) ++ [1; 2; 3]))) [Closed (CRead EShort)] &&
  events_eqb (events (serve_conn ex_disp 0 (enc_u32 3 ++ [1; 2; 3]))) [Closed (CRead EShort)] &&
  (* a credential declared as 401 bytes *)
  events_eqb (events (serve_conn ex_disp 0
      (ex_rec (enc_u32 1 ++ enc_u32 0 ++ enc_u32 2 ++ enc_u32 100003 ++ enc_u32 3 ++ enc_u32 0 ++ enc_u32 1 ++ enc_u32 401))))
    [Closed (CDecode ELimit)] &&
  (* nothing at all *)
  events_eqb (events (serve_conn ex_disp 0 [])) [Closed CEof] &&
  negb (close_waits (CDecode EMsgType)) && negb (close_waits (CRead ELimit)) && negb (close_waits CHandler) &&
  close_waits CEof && close_waits (CRead EShort) = true.
Proof. vm_compute. reflexivity. Qed.

(* hypotheses of C15_close (2) and of C15_prefix_determinism met by concrete streams *)
Definition ex_closed_stream : bytes := ex_rec (enc_call (ex_null 7)) ++ ex_rec (enc_u32 5 ++ enc_u32 1 ++ enc_u32 0).
Example C15_close_hyps :
  close_reason_of (events (serve_conn ex_disp 0 ex_closed_stream)) = Some (CDecode EMsgType) /\
  close_waits (CDecode EMsgType) = false /\
  events_eqb (events (serve_conn ex_disp 0 (ex_closed_stream ++ ex_rec (enc_call (ex_null 9)))))
             (events (serve_conn ex_disp 0 ex_closed_stream)) = true.
Proof. split; [vm_compute; reflexivity|]. split; [reflexivity|vm_compute; reflexivity]. Qed.
Example C15_prefix_nontrivial :
  (* a stream cut in the middle of its second record, and the whole of it *)
  let s1 := take 60 ex_stream in let s2 := drop 60 ex_stream in
  events_eqb (events (serve_conn ex_disp 0 s1)) [Replied 7 (enc_u32 7 ++ enc_u32 0); Closed (CRead EShort)] &&
  events_eqb (events (serve_conn ex_disp 0 (s1 ++ s2)))
    [Replied 7 (enc_u32 7 ++ enc_u32 0); Replied 8 (enc_u32 8 ++ enc_u32 1); Replied 9 (enc_u32 9 ++ enc_u32 2);
     Closed CEof] = true.
Proof. vm_compute. reflexivity. Qed.

(* allocation traces of a concrete connection: header scratch words, fragment buffers, the record copy, then the
   call header's words and bodies; a declared 2 GiB fragment costs one 4-byte scratch word *)
Example C15_alloc_nontrivial :
  traces_eqb (traces (serve_conn ex_disp 0 (ex_rec2 (enc_call (ex_getattr 8) ++ enc_fh 1))))
    [ [Rd 4; Rd 5; Rd 4; Rd 4; Rd 67; Rd 4; Al 72] ++
      [Rd 4; Rd 4; Rd 4; Rd 4; Rd 4; Rd 4; Rd 4; Rd 4; Rd 20; Rd 4; Rd 4];
      [Rd 4] ] &&
  traces_eqb (traces (serve_conn ex_disp 0 (enc_u32 4294967295 ++ [1; 2; 3]))) [ [Rd 4] ] = true.
Proof. vm_compute. reflexivity. Qed.

Example C15_valid_stream_hyps :
  Forall item_ok [ (ex_null 7, [], [enc_call (ex_null 7)]);
                   (ex_getattr 8, enc_fh 1, [take 5 (enc_call (ex_getattr 8) ++ enc_fh 1); [];
                                             drop 5 (enc_call (ex_getattr 8) ++ enc_fh 1); []]) ] /\
  (forall st c body, snd (ex_disp st c body) <> None).
Proof.
  split; [|intros; discriminate].
  repeat constructor; unfold u32; cbn [fst snd]; try (vm_compute; (reflexivity || discriminate)).
Qed.

(* the reply stream of the example, read back by the client's record reader *)
Example C15_wire_nontrivial :
  match dec_ok (read_records reader_default_max 3 (wire_out (events (serve_conn ex_disp 0 ex_stream)))) with
  | Some ([a; b; c], []) => bytes_eqb a (enc_u32 7 ++ enc_u32 0) && bytes_eqb b (enc_u32 8 ++ enc_u32 1) &&
                            bytes_eqb c (enc_u32 9 ++ enc_u32 2)
  | _ => false
  end = true.
Proof. vm_compute. reflexivity. Qed.

Definition C15_all :=
  (C15_facts, C15_limits, C15_decodable_prefix, C15_order, C15_xid_echo, C15_close, C15_prefix_determinism,
   C15_alloc, C15_valid_stream, C15_valid_then_any, C15_wire).
Print Assumptions C15_all.
