(* Properties/C27.v *)
From Verif Require Import Model.Portmap Proofs.PortmapProofs.
