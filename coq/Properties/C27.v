(* Properties/C27.v — Portmapper: registry semantics and loopback-only modification.
   Only statements closed by [exact lemma] and Print Assumptions live here.

   Vocabulary (Model/Portmap.v): [handle_call la reg c data] is Portmapper.handleCall on the call
   record [data] (bytes) received from caller [c] with registry [reg] and listen address [la]; it
   returns the new registry and the reply bytes (None = error return, nothing is written).
   [lookup k reg] is the abstract map (program, version, protocol) -> port.
   [pm_call data vers proc xid args]: the header of [data] decodes (exactly as handleCall decodes
   it, credentials and verifier of any flavour and length skipped) to program 100000, the given
   version, procedure and xid, leaving the argument bytes [args].
   [reachable la reg]: reg is the registry after ANY finite history, from the empty registry, of
   call records (arbitrary byte strings, any caller) and Go-API RegisterService /
   UnregisterService calls with uint32 arguments. *)
From Coq Require Import List NArith ZArith Bool.
From Verif Require Import Gen.Facts Model.Portmap Proofs.PortmapProofs.
Import ListNotations.
Open Scope N_scope.

(* the constants the property text and RFC 1831/1833 document *)
Theorem C27_facts :
  ((c_PortmapperProgram =? 100000) && (c_PMAPPROC_NULL =? 0) && (c_PMAPPROC_SET =? 1) && (c_PMAPPROC_UNSET =? 2)
   && (c_PMAPPROC_GETPORT =? 3) && (c_PMAPPROC_DUMP =? 4) && (c_IPPROTO_TCP =? 6) && (c_IPPROTO_UDP =? 17)
   && (c_RPC_CALL =? 0) && (c_RPC_REPLY =? 1) && (c_MSG_ACCEPTED =? 0) && (c_SUCCESS =? 0) && (c_PROG_UNAVAIL =? 1)
   && (c_PROG_MISMATCH =? 2) && (c_PROC_UNAVAIL =? 3) && (c_GARBAGE_ARGS =? 4) && (c_MAX_RPC_AUTH_LENGTH =? 400))%Z
  = true.
Proof. vm_compute. reflexivity. Qed.

(* structure read off portmapper.go by astfacts: SET and UNSET of every version sit behind the
   isLoopbackAddr guard (the model consults these facts; C27_loopback is proved for the current ones) *)
Theorem C27_guards_present :
  f_pm_v2_set_guarded && f_pm_v2_unset_guarded && f_pm_rpcb_set_guarded && f_pm_rpcb_unset_guarded = true.
Proof. vm_compute. reflexivity. Qed.

(* the version range announced in PROG_MISMATCH replies is exactly the set of versions served *)
Theorem C27_version_range : forall v, supported v = (VERS_LOW <=? v) && (v <=? VERS_HIGH).
Proof. exact supported_range. Qed.

(* ------------------------------------------------------------------------------------------ *)
(* C27_loopback: no call record whatsoever (any bytes: any version, procedure, program, garbage),
   in any state, from a caller that is not local (an IP address that is not a loopback address,
   with or without zone, or an address with no recognisable IP) changes the registry. *)
Theorem C27_loopback : forall la reg c data,
  local_caller c = false -> fst (handle_call la reg c data) = reg.
Proof. exact handle_call_nonlocal. Qed.

(* the guard the code evaluates decides exactly "in-process caller or loopback IP address" *)
Theorem C27_guard_exact : forall c, is_loopback_addr c = local_caller c.
Proof. exact guard_spec. Qed.

(* what must not change, full strength: whoever calls, a registry change implies a SET / UNSET
   (procedure 1 or 2) of program 100000 in a served version from a local caller *)
Theorem C27_only_set_unset_modify : forall la reg c h args,
  fst (dispatch la reg c h args) <> reg ->
  h_prog h = PMAP_PROG /\ supported (h_vers h) = true /\ (h_proc h = 1 \/ h_proc h = 2) /\ local_caller c = true.
Proof. exact dispatch_changes_only_by_set_unset. Qed.

(* ------------------------------------------------------------------------------------------ *)
(* C27_map: in every reachable state the registry is a map (one port per key, uint32 fields),
   and every procedure reads or updates exactly that map. *)
Theorem C27_map_invariant : forall la reg, reachable la reg ->
  NoDup (keys reg) /\ reg_ok reg = true /\
  (forall k port, In (k, port) reg <-> lookup k reg = Some port).
Proof. exact C27_map_invariant_lemma. Qed.

(* GETPORT (v2) answers lookup, 0 when absent; the registry is unchanged; any caller *)
Theorem C27_map_getport : forall la reg c data xid args p v t x,
  pm_call data 2 3 xid args -> args4 args = Some (p, v, t, x) ->
  handle_call la reg c data = (reg, Some (accepted xid (enc32 (port_of (lookup (p, v, t) reg))))).
Proof. exact map_getport. Qed.

(* GETADDR (v3, v4) answers the universal address of lookup, "" when absent or port 0 *)
Theorem C27_map_getaddr : forall la reg c data vers xid args p v netid rest, vers = 3 \/ vers = 4 ->
  pm_call data vers 3 xid args -> rpcb_head args = Some (p, v, netid, rest) ->
  handle_call la reg c data =
  (reg, Some (accepted xid (put_string (getaddr_answer la netid (lookup (p, v, prot_getaddr netid) reg))))).
Proof. exact map_getaddr. Qed.

(* DUMP (v2): the reply body parses, by the RFC 1833 pmaplist grammar and completely, to exactly
   the entries of the map *)
Theorem C27_map_dump : forall la reg c data xid args, reachable la reg -> pm_call data 2 4 xid args ->
  exists body, handle_call la reg c data = (reg, Some (accepted xid body)) /\
               p_pmaplist (S (length body)) body = Some (reg, []) /\
               forall k port, In (k, port) reg <-> lookup k reg = Some port.
Proof. exact C27_map_dump_lemma. Qed.

(* DUMP (v3, v4): the reply body parses by the rpcblist grammar to exactly the entries of the map,
   each shown as (prog, vers, netid, universal address, "superuser") *)
Theorem C27_map_rpcb_dump : forall la reg c data vers xid args, la_ok la = true -> reachable la reg ->
  vers = 3 \/ vers = 4 -> pm_call data vers 4 xid args ->
  exists body, handle_call la reg c data = (reg, Some (accepted xid body)) /\
               p_rpcblist (S (length body)) body = Some (map (rpcb_view la) reg, []).
Proof. exact C27_map_rpcb_dump_lemma. Qed.

(* SET (v2) from a local caller binds the key to the port (overwriting: as coded, not
   first-registration-wins) and answers TRUE; from any other caller it answers FALSE and changes
   nothing *)
Theorem C27_map_set : forall la reg c data xid args p v t port reg' r,
  pm_call data 2 1 xid args -> args4 args = Some (p, v, t, port) -> handle_call la reg c data = (reg', r) ->
  if local_caller c
  then r = Some (accepted xid (enc_bool true)) /\
       forall k, lookup k reg' = if key_eqb (p, v, t) k then Some port else lookup k reg
  else r = Some (accepted xid (enc_bool false)) /\ reg' = reg.
Proof. exact C27_map_set_lemma. Qed.

(* UNSET (v2) from a local caller removes the key (and only it) *)
Theorem C27_map_unset : forall la reg c data xid args p v t port reg' r, reachable la reg ->
  pm_call data 2 2 xid args -> args4 args = Some (p, v, t, port) -> handle_call la reg c data = (reg', r) ->
  if local_caller c
  then r = Some (accepted xid (enc_bool true)) /\
       forall k, lookup k reg' = if key_eqb (p, v, t) k then None else lookup k reg
  else r = Some (accepted xid (enc_bool false)) /\ reg' = reg.
Proof. exact C27_map_unset_lemma. Qed.

(* SET (v3, v4) from a local caller: the port is parsed from the universal address exactly as
   fmt.Sscanf("%d.%d.%d.%d.%d.%d") does; port 0 (unparsable, IPv6 or empty address) registers nothing
   yet answers TRUE; protocol is UDP for netid "udp"/"udp6", TCP for every other netid *)
Theorem C27_map_rpcb_set : forall la reg c data vers xid args p v netid rest uaddr rest' reg' r,
  vers = 3 \/ vers = 4 -> pm_call data vers 1 xid args ->
  rpcb_head args = Some (p, v, netid, rest) -> get_string rest = Some (uaddr, rest') ->
  handle_call la reg c data = (reg', r) ->
  if local_caller c
  then r = Some (accepted xid (enc_bool true)) /\
       forall k, lookup k reg' = if (0 <? uaddr_port uaddr) && key_eqb (p, v, prot_set netid) k
                                 then Some (uaddr_port uaddr) else lookup k reg
  else r = Some (accepted xid (enc_bool false)) /\ reg' = reg.
Proof. exact C27_map_rpcb_set_lemma. Qed.

Theorem C27_map_rpcb_unset : forall la reg c data vers xid args p v netid rest reg' r, reachable la reg ->
  vers = 3 \/ vers = 4 -> pm_call data vers 2 xid args -> rpcb_head args = Some (p, v, netid, rest) ->
  handle_call la reg c data = (reg', r) ->
  if local_caller c
  then r = Some (accepted xid (enc_bool true)) /\
       forall k, lookup k reg' = if key_eqb (p, v, prot_set netid) k then None else lookup k reg
  else r = Some (accepted xid (enc_bool false)) /\ reg' = reg.
Proof. exact C27_map_rpcb_unset_lemma. Qed.

(* the Go API is the same map *)
Theorem C27_map_api : forall la reg p v t port k,
  lookup k (fst (step la reg (ApiRegister p v t port))) = (if key_eqb (p, v, t) k then Some port else lookup k reg) /\
  (NoDup (keys reg) ->
   lookup k (fst (step la reg (ApiUnregister p v t))) = if key_eqb (p, v, t) k then None else lookup k reg).
Proof. exact C27_map_api_lemma. Qed.

(* the universal address GETADDR / DUMP print for an IPv4 listen address parses back, through the
   v3/v4 SET parser, to the port it was printed from *)
Theorem C27_uaddr_roundtrip : forall a b c d port,
  a < 256 -> b < 256 -> c < 256 -> d < 256 -> port < 4294967296 ->
  uaddr_port (fmt_uaddr (dotted a b c d) port) = port.
Proof. exact C27_uaddr_roundtrip_lemma. Qed.

(* ------------------------------------------------------------------------------------------ *)
(* C27_wellformed: every reply the service produces, for every call record (any bytes), caller and
   state with uint32 fields, is accepted by the RFC 1831/1833 reply grammar for the call's
   (program, version, procedure), which consumes all bytes; the XID of the call is echoed. *)
Theorem C27_wellformed : forall la reg c data reg' r, la_ok la = true -> reg_ok reg = true ->
  handle_call la reg c data = (reg', Some r) ->
  exists h args, decode_header data = Some (h, args) /\ wellformed_reply h r = true /\
                 (bytes_ok data = true -> xid_echoed data r = true).
Proof. exact handle_call_wellformed. Qed.

(* ... in particular along every history *)
Theorem C27_wellformed_reachable : forall la reg c data reg' r, la_ok la = true -> reachable la reg ->
  handle_call la reg c data = (reg', Some r) ->
  exists h args, decode_header data = Some (h, args) /\ wellformed_reply h r = true.
Proof. exact C27_wellformed_reachable_lemma. Qed.

(* ------------------------------------------------------------------------------------------ *)
(* Non-vacuity. *)
Definition ex_lo : caller := TcpAddr (IP4 127 0 0 1) [] 700.
Definition ex_zoned : caller := TcpAddr (IP6 18338657682652659712 1) [101; 116; 104; 48] 40000.   (* [fe80::1%eth0]:40000 *)
Definition ex_hist : list event :=
  [ ApiRegister 100000 2 6 111;
    Call ex_lo (enc_call 1 2 100000 2 1 (enc32 100003 ++ enc32 3 ++ enc32 6 ++ enc32 2049));
    Call ex_lo (enc_call 2 2 100000 4 1 (enc32 100005 ++ enc32 3 ++ put_string s_udp ++
                                        put_string [49;46;50;46;51;46;52;46;51;46;50;53;53] ++ put_string []));
    Call ex_zoned (enc_call 3 2 100000 2 2 (enc32 100003 ++ enc32 3 ++ enc32 6 ++ enc32 0)) ].

(* a reachable registry with three entries: the hypotheses of the map theorems are met *)
Example C27_reachable_nontrivial :
  reachable [] (run [] [] ex_hist) /\
  run [] [] ex_hist = [((100000, 2, 6), 111); ((100003, 3, 6), 2049); ((100005, 3, 17), 1023)].
Proof. split; [exists ex_hist; split; vm_compute; reflexivity|vm_compute; reflexivity]. Qed.

(* a non-local caller exists that sends a well-formed UNSET for a registered key, gets a reply,
   and the theorem's conclusion is not trivially true: the same record from a local caller removes it *)
Example C27_loopback_nontrivial :
  let reg := run [] [] ex_hist in
  let data := enc_call 9 2 100000 2 2 (enc32 100003 ++ enc32 3 ++ enc32 6 ++ enc32 0) in
  local_caller ex_zoned = false /\ pm_call data 2 2 9 (enc32 100003 ++ enc32 3 ++ enc32 6 ++ enc32 0) /\
  lookup (100003, 3, 6) (fst (handle_call [] reg ex_zoned data)) = Some 2049 /\
  lookup (100003, 3, 6) (fst (handle_call [] reg ex_lo data)) = None /\
  snd (handle_call [] reg ex_zoned data) = Some (accepted 9 (enc_bool false)).
Proof.
  cbv zeta. split; [reflexivity|]. split; [apply pm_call_enc; reflexivity|].
  split; [vm_compute; reflexivity|]. split; vm_compute; reflexivity.
Qed.

(* replies of every shape occur and are accepted by the grammar; a truncated or padded variant is not *)
Example C27_wellformed_nontrivial :
  let reg := run [] [] ex_hist in
  let hd vers proc := {| h_xid := 5; h_rpcvers := 2; h_prog := 100000; h_vers := vers; h_proc := proc |} in
  let reply vers proc args := snd (handle_call [] reg ex_lo (enc_call 5 2 100000 vers proc args)) in
  (exists r, reply 4 4 [] = Some r /\ wellformed_reply (hd 4 4) r = true /\ (length r > 100)%nat /\
             wellformed_reply (hd 4 4) (removelast r) = false /\ wellformed_reply (hd 4 4) (r ++ [0]) = false /\
             wellformed_reply (hd 2 4) r = false) /\
  (exists r, reply 7 0 [] = Some r /\ wellformed_reply (hd 7 0) r = true /\ wellformed_reply (hd 3 0) r = false) /\
  (exists r, reply 2 9 [] = Some r /\ wellformed_reply (hd 2 9) r = true) /\
  handle_call [] reg ex_lo [0; 0; 0; 5; 0; 0; 0; 1] = (reg, None).
Proof.
  cbv zeta. split; [|split; [|split]].
  - eexists. split; [vm_compute; reflexivity|]. vm_compute. repeat split; try reflexivity. repeat constructor.
  - eexists. split; [vm_compute; reflexivity|]. vm_compute. split; reflexivity.
  - eexists. split; [vm_compute; reflexivity|]. vm_compute. reflexivity.
  - vm_compute. reflexivity.
Qed.

(* a call record with an AUTH_SYS credential (5-byte body, padded) satisfies [pm_call] *)
Example C27_pm_call_with_credential :
  pm_call ([0;0;0;7; 0;0;0;0; 0;0;0;2; 0;1;134;160; 0;0;0;2; 0;0;0;3; 0;0;0;1; 0;0;0;5; 1;2;3;4;5;0;0;0;
            0;0;0;0; 0;0;0;0] ++ enc32 100003 ++ enc32 3 ++ enc32 6 ++ enc32 0)
          2 3 7 (enc32 100003 ++ enc32 3 ++ enc32 6 ++ enc32 0).
Proof. eexists. split; [vm_compute; reflexivity|]. cbn. auto. Qed.

Print Assumptions C27_facts.
Print Assumptions C27_guards_present.
Print Assumptions C27_version_range.
Print Assumptions C27_loopback.
Print Assumptions C27_guard_exact.
Print Assumptions C27_only_set_unset_modify.
Print Assumptions C27_map_invariant.
Print Assumptions C27_map_getport.
Print Assumptions C27_map_getaddr.
Print Assumptions C27_map_dump.
Print Assumptions C27_map_rpcb_dump.
Print Assumptions C27_map_set.
Print Assumptions C27_map_unset.
Print Assumptions C27_map_rpcb_set.
Print Assumptions C27_map_rpcb_unset.
Print Assumptions C27_map_api.
Print Assumptions C27_uaddr_roundtrip.
Print Assumptions C27_wellformed.
Print Assumptions C27_wellformed_reachable.
