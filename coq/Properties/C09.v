(* Properties/C09.v — Host filtering and the secure-port rule gate every request.
   Only statements closed by [exact lemma], non-vacuity examples and Print Assumptions live here.

   Model/IpFilter.v transcribes both filters (auth.go isIPAllowed, server.go Server.isIPAllowed),
   Go's net.IPNet.Contains / IP.Equal / IP.To4 / ParseCIDR masking, ValidateAuthentication steps 1-2
   and HandleCall's ordering, over PARSED addresses (16-byte forms as numbers below 2^128; string
   syntax is Go's standard library, compared with net/netip by the driver).
   [lies_in c16 e] is the property's membership stated arithmetically on the 128-bit space, where
   an IPv4 address and its IPv4-mapped spelling are the same number: equality with a listed address,
   or equality of the top prefix-length bits with a listed network (a.b.c.d/n = ::ffff:a.b.c.d/(96+n)).
   [handle_call] is parameterised by an ARBITRARY dispatcher, state and backend-call type: the
   theorems hold for every procedure of every program. *)
From Coq Require Import String List NArith ZArith Bool.
From Verif Require Import Gen.Facts Model.Auth Model.IpFilter Proofs.AuthProofs Proofs.IpFilterProofs.
Import ListNotations.
Open Scope N_scope.

(* a processed request comes from a listed host (when a list is configured) and, when Secure is
   set, from a port below 1024 *)
Theorem C09_sound : forall (S B R : Type) (dispatch : S -> request -> N -> N -> option cred -> S * R * list B)
    st pol rq st' r log,
  request_wf rq -> entries_wf (pol_allowed pol) ->
  handle_call S B R dispatch st pol false rq = (st', MsgAccepted, r, log) ->
  (pol_allowed pol = [] \/
   exists c16 e, rq_client rq = Some c16 /\ In e (pol_allowed pol) /\ lies_in c16 e = true) /\
  (pol_secure pol = true -> (rq_port rq < privileged_port_limit)%Z).
Proof. exact sound_lemma. Qed.

(* the accept-time filter and the request-time filter are the same function of (client, list):
   the request-time one is only consulted for a non-empty list, the accept-time one admits
   everybody on an empty list *)
Theorem C09_agree : forall client entries,
  server_is_ip_allowed true client entries =
  match entries with [] => true | _ => auth_is_ip_allowed client entries end.
Proof. exact agree_lemma. Qed.

(* membership in a listed entry of the same family (as Go holds it) is sufficient *)
Theorem C09_complete_same_family : forall c16 entries e,
  c16 < 2 ^ 128 -> entries_wf entries ->
  In e entries -> lies_in c16 e = true -> family_gap c16 e = false ->
  auth_is_ip_allowed (Some c16) entries = true.
Proof. exact complete_lemma. Qed.

(* exactly: allowed iff member of some entry, except that an IPv4(-mapped) client is never matched
   by a network held on 16 bytes (IPv6 literal that is not v4-mapped with length >= 96, e.g. ::/0):
   fail-closed *)
Theorem C09_exact : forall c16 entries, c16 < 2 ^ 128 -> entries_wf entries ->
  auth_is_ip_allowed (Some c16) entries = existsb (fun e => lies_in c16 e && negb (family_gap c16 e)) entries.
Proof. exact exact_lemma. Qed.

(* an address that does not parse is never admitted by a configured list *)
Theorem C09_malformed_client : forall entries, auth_is_ip_allowed None entries = false.
Proof. exact malformed_client_lemma. Qed.

(* a rejected request gets MSG_DENIED; the dispatcher is not consulted: state unchanged, no
   handler result, empty backend log *)
Theorem C09_denied_no_effect : forall (S B R : Type) (dispatch : S -> request -> N -> N -> option cred -> S * R * list B)
    st pol rq,
  gate pol rq = false ->
  handle_call S B R dispatch st pol false rq = (st, MsgDenied, None, []).
Proof. exact denied_no_effect_lemma. Qed.

(* and in general nothing but an accepted call reaches a handler or the backend - including the
   calls answered by drainReply while a policy update is in flight, which are answered BEFORE
   authentication (they are not MSG_DENIED: NULL/UMNT get an empty success, the rest a retry-later
   status; see the note in the report) *)
Theorem C09_not_accepted_no_effect : forall (S B R : Type) (dispatch : S -> request -> N -> N -> option cred -> S * R * list B)
    st pol draining rq st' k r log,
  handle_call S B R dispatch st pol draining rq = (st', k, r, log) -> k <> MsgAccepted ->
  st' = st /\ r = None /\ log = [].
Proof. exact not_accepted_no_effect_lemma. Qed.

(* what the gate means *)
Theorem C09_gate_meaning : forall pol rq, gate pol rq = true ->
  (pol_allowed pol = [] \/ auth_is_ip_allowed (rq_client rq) (pol_allowed pol) = true) /\
  (pol_secure pol = true -> (rq_port rq < privileged_port_limit)%Z).
Proof. exact gate_meaning. Qed.

(* the source, as read by astfacts now: port bound 1024, host filter before port rule before the
   flavour switch, MSG_DENIED = 1, and in HandleCall the authentication gate precedes every dispatcher
   call and its failure branch returns at once with reply.Status = MSG_DENIED *)
Definition decb {P Q : Prop} (d : {P} + {Q}) : bool := if d then true else false.
Theorem C09_facts :
  ((f_auth_privileged_port_limit =? 1024) && (c_MSG_DENIED =? 1) && (c_MSG_ACCEPTED =? 0))%Z &&
  decb (list_eq_dec string_dec f_auth_validate_order ["AllowedIPs"; "Secure"; "Flavor"]%string) &&
  f_handlecall_auth_gate_first = true.
Proof. vm_compute. reflexivity. Qed.

(* ---- non-vacuity ---- *)
Definition v4 (a b c d : N) : N := v4_prefix * 2 ^ 32 + ((a * 256 + b) * 256 + c) * 256 + d.
Definition pol1 : policy :=
  {| pol_allowed := [ECidr (Some (v4 192 168 1 0, true, 24)); ESingle (Some 1); ECidr None; ECidr (Some (0, false, 0))];
     pol_secure := true; pol_squash := [] |}.
Definition rq1 (client : option N) (port : Z) : request :=
  {| rq_client := client; rq_port := port; rq_flavor := 0; rq_body := []; rq_prog := 100003; rq_vers := 3; rq_proc := 1; rq_args := [] |}.
(* a dispatcher that would leave a trace: state counter, one backend call *)
Definition disp1 (st : N) (rq : request) (u g : N) (a : option cred) : N * N * list N := (st + 1, u, [rq_proc rq]).

Example C09_nontrivial :
  entries_wf (pol_allowed pol1) /\ request_wf (rq1 (Some (v4 192 168 1 77)) 1023) /\
  (* listed IPv4 host (the literal and the v4-mapped spelling are the same 16-byte form), port 1023: processed *)
  handle_call N N N disp1 5 pol1 false (rq1 (Some (v4 192 168 1 77)) 1023) = (6, MsgAccepted, Some 65534, [1]) /\
  (* same host, port 1024: denied, no trace *)
  gate pol1 (rq1 (Some (v4 192 168 1 77)) 1024) = false /\
  handle_call N N N disp1 5 pol1 false (rq1 (Some (v4 192 168 1 77)) 1024) = (5, MsgDenied, None, []) /\
  (* unlisted IPv4 host: member of ::/0 arithmetically, but ::/0 is a 16-byte network: fail-closed *)
  lies_in (v4 10 0 0 1) (ECidr (Some (0, false, 0))) = true /\ family_gap (v4 10 0 0 1) (ECidr (Some (0, false, 0))) = true /\
  gate pol1 (rq1 (Some (v4 10 0 0 1)) 1) = false /\
  (* IPv6 hosts: ::1 listed singly; 2001:db8::1 only through ::/0 *)
  gate pol1 (rq1 (Some 1) 1) = true /\ gate pol1 (rq1 (Some (42540766411282592856903984951653826561)) 1) = true /\
  (* malformed address *)
  gate pol1 (rq1 None 1) = false /\
  (* both filters on this list *)
  server_is_ip_allowed true (Some (v4 192 168 1 77)) (pol_allowed pol1) = true /\
  server_is_ip_allowed true (Some (v4 10 0 0 1)) (pol_allowed pol1) = false /\
  (* drained call: answered, not dispatched *)
  handle_call N N N disp1 5 pol1 true (rq1 (Some (v4 10 0 0 1)) 5000) = (5, DrainReply, None, []).
Proof.
  split.
  { constructor; [cbn; split; [vm_compute; reflexivity|intros _; vm_compute; reflexivity]|].
    constructor; [cbn; vm_compute; reflexivity|]. constructor; [exact I|].
    constructor; [cbn; split; [vm_compute; reflexivity|discriminate]|]. constructor. }
  split; [vm_compute; reflexivity|].
  vm_compute. repeat split; reflexivity.
Qed.

Print Assumptions C09_sound.
Print Assumptions C09_agree.
Print Assumptions C09_complete_same_family.
Print Assumptions C09_exact.
Print Assumptions C09_malformed_client.
Print Assumptions C09_denied_no_effect.
Print Assumptions C09_not_accepted_no_effect.
Print Assumptions C09_gate_meaning.
Print Assumptions C09_facts.
