(* Properties/C29.v — Concurrent requests are race-free and linearizable.

   "Over a thread-safe backend, concurrent request streams complete without data races, panics or deadlocks, and
    afterwards the handle table and caches agree with the backend.  When the requests touch distinct names (sharing
    directories and handles) and caches are at minimal TTL, every reply and the final tree equal those of some
    serial execution that respects real-time order.  With caches enabled, a reply may be stale but never reflects a
    state the object was never in."

   PARTIAL BY DESIGN.  The property quantifies over goroutine interleavings of the Go code.  Model/Srv.v is a
   SEQUENTIAL model: it contains no goroutines, locks or scheduler, so no theorem in this file says that the Go
   implementation is race-free, deadlock-free or linearizable.  That part is SAMPLED on every run by
   harness/cmd/drive_c29 (2-4 client goroutines against one real server, seeded yields/sleeps around every backend
   call, thorough tier under the race detector, deadlock watchdog) and decided per history by Corr/C29.v.

   What IS proved here (all for Model/Srv.step, no bound on histories or states):
     the specification side that makes "equal to some serial execution respecting real-time order" a well-defined,
     checkable statement, and the soundness of the checker that decides it:
       C29_determinism, C29_replay_deterministic      the serial specification is a function of the order
       C29_checker_sound (+ _validate_sound)           lin_check = Linearizable ids  ==>  ids is a permutation of ALL
                                                       completed requests, respects real time, and the model replays it
                                                       reproducing every observed reply and the final tree
       C29_realtime_order                              in such an order a request that finished before another began
                                                       comes first (so each client's program order is kept)
       C29_reader_core / C29_reader_no_disturb         read-only requests touch caches only; placed before ANY request
                                                       they change neither its reply nor the state it leaves
       C29_attr_reader_frame                           GETATTR-family replies depend only on the handle's path and on
                                                       kind/perm/size along that path (the footprint)
       C29_commute_attr_reader                         such a reader commutes with every request that leaves its handle
                                                       and footprint alone (both replies, final state up to caches)
       C29_commute_reader_remove                       syntactic instance: REMOVE/RMDIR of d/n vs a reader not at or below d/n
       C29_backend_commute (+ C29_point_updates_commute)  MKDIR/REMOVE of independent names commute at the backend: same
                                                       outcomes, same tree up to the shared parent's mtime
     and for the third sentence:
       C29_cache_faithful                              a cache hit returns what was stored under that very path;
                                                       lookups, expiry, eviction, invalidation only remove entries
       C29_lookup_provenance / C29_getattr_provenance  the only writers of the cache store exactly the result of an Lstat
                                                       of the same path on the tree as it is at that moment, and return
                                                       either a stored value or that fresh Lstat
       C29_cached_values                               (link-free trees, Proofs/SrvCoh.v) along every history every cache
                                                       entry, expired or not, is the view of the CURRENT tree
       C29_lookup_reply_was_state                      the one block that may come straight from the cache (LOOKUP's
                                                       object block) is the Lstat view of the tree the request leaves

   Kept as Definitions, NOT proved:
       C29_statement                    the property itself over the set of histories the implementation can exhibit
                                        (that set is not a Coq object: it is what the harness samples)
       C29_commute_distinct_statement   handler-level commutation of two ALLOCATING requests (CREATE/MKDIR/LOOKUP of
                                        independent names): needs an equivalence up to handle renaming and list order
       C29_cached_values_statement      the provenance invariant over whole histories without the link-free side
                                        condition (entries are Lstat views of trees at request boundaries)

   Found by the sampled part and since repaired in /repo (commit 61ca220, "a concurrent invalidation is not undone by
   a reader caching what it saw before"): the check-then-cache window of Lookup/GetAttr/ReadDir let a value read
   BEFORE a concurrent request's change be cached AFTER that request's invalidation - a lost invalidation that
   survived quiescence for a full TTL.  The sequential model has no such window (this file's theorems never
   depended on it); the five directed schedules in the corpus of stream C29b enact it on the real code on every
   run and stay as the regression guard. *)
From Coq Require Import List NArith ZArith Bool Permutation.
From Verif Require Import Gen.Facts Model.Handles Model.Backend Model.Srv Proofs.BackendWF Proofs.SrvPaths Proofs.SrvCoh
  Corr.Common Corr.SrvCase Corr.C29 Proofs.C29Lin Proofs.SrvCommute Proofs.C29Cache.
Import ListNotations.
Open Scope N_scope.

(* constants the checker relies on: the status a vanished object answers with, the file types of fattr3 *)
Theorem C29_facts : ((c_NFSERR_NOENT =? 2) && (c_NFSERR_STALE =? 70) && (c_NF3REG =? 1) && (c_NF3DIR =? 2) && (c_NF3LNK =? 5))%Z = true.
Proof. vm_compute. reflexivity. Qed.

(* ---------- the property, as far as it can be written down (a Definition, NOT a theorem) ---------- *)
(* [exhibits K]: K is a completed concurrent history of the Go implementation with its observations - a predicate on
   the real code's behaviour that no Gallina term defines; the harness samples it *)
Definition C29_statement (exhibits : case -> Prop) : Prop :=
  forall K, exhibits K ->
    k_deadlock K = false /\ k_panic K = false /\ k_race K = false /\
    quiescent_check K = [] /\                                     (* handle table, caches and probe round agree with the backend *)
    (k_mode K = 0 -> linearizable K) /\                           (* distinct names, minimal TTL *)
    (k_mode K = 1 -> forall a, In a (k_ops K) -> b_op_ok K a = true).   (* caches on: stale but real *)

(* ---------- (a) the serial specification is a function ---------- *)
Theorem C29_determinism : forall s c r x y, step s c r = x -> step s c r = y -> x = y.
Proof. exact step_deterministic. Qed.
Theorem C29_replay_deterministic : forall K l s s1 s2, replays K s l s1 -> replays K s l s2 -> s1 = s2.
Proof. exact replays_deterministic. Qed.
Theorem C29_replay_is_fold : forall K l s s', replays K s l s' -> s' = fold_left (fun s a => fst (apply_op K s a)) l s.
Proof. exact replays_fold. Qed.

(* ---------- (d) soundness of the linearizability checker ---------- *)
Theorem C29_validate_sound : forall K ids, validate K ids = true -> exists order, map p_id order = ids /\ linearization K order.
Proof. exact validate_sound. Qed.
Theorem C29_checker_sound : forall K ids, lin_check K = Linearizable ids -> exists order, map p_id order = ids /\ linearization K order.
Proof. exact lin_check_sound. Qed.
Theorem C29_checker_linearizable : forall K ids, lin_check K = Linearizable ids -> linearizable K.
Proof. exact lin_check_linearizable. Qed.
Theorem C29_realtime_order : forall order a b i j,
  respects_realtime order -> nth_error order i = Some a -> nth_error order j = Some b -> precedes a b -> i <> j -> (i < j)%nat.
Proof. exact realtime_before. Qed.
(* the checker accepts a real two-client history with overlapping CREATEs in both orders, refuses orders that break
   real time or a reply, and refuses a history that has no linearization *)
Example C29_ex_linearizable : exists ids, lin_check ex_case = Linearizable ids.
Proof. exact ex_case_linearizable. Qed.
Example C29_ex_both_orders : validate ex_case [0; 1; 2; 3] = true /\ validate ex_case [0; 2; 1; 3] = true.
Proof. exact ex_case_both_orders. Qed.
Example C29_ex_bad_orders : validate ex_case [0; 2; 3; 1] = false /\ validate ex_case [1; 0; 2; 3] = false.
Proof. exact ex_case_bad_orders. Qed.
Example C29_ex_not_linearizable : lin_check ex_bad_case = NoLinearization.
Proof. exact ex_bad_case_rejected. Qed.

(* ---------- (b) requests that do not interfere commute on the projection ---------- *)
Theorem C29_reader_core : forall s c r, Good s -> reader r = true -> core s (fst (step s c r)).
Proof. exact reader_core. Qed.
Theorem C29_reader_no_disturb : forall s c1 r1 c2 r2, Good s -> reader r1 = true -> c02_req r2 = true ->
  HREL (step (fst (step s c1 r1)) c2 r2) (step s c2 r2).
Proof. exact reader_no_disturb. Qed.
Theorem C29_attr_reader_frame : forall s s2 c r h p a a2, Good s -> Good s2 -> attr_reader r = Some h ->
  lookup_node s h = Some (p, a) -> lookup_node s2 h = Some (p, a2) -> same_above (fs s) (fs s2) p ->
  proj (snd (step s c r)) = proj (snd (step s2 c r)).
Proof. exact attr_reader_frame. Qed.
Theorem C29_commute_attr_reader : forall s c1 r1 c2 r2 h p a a2,
  Good s -> attr_reader r1 = Some h -> c02_req r2 = true ->
  lookup_node s h = Some (p, a) ->
  lookup_node (fst (step s c2 r2)) h = Some (p, a2) ->
  same_above (fs s) (fs (fst (step s c2 r2))) p ->
  let s1 := fst (step s c1 r1) in let s2 := fst (step s c2 r2) in
  proj (snd (step s c1 r1)) = proj (snd (step s2 c1 r1)) /\
  proj (snd (step s1 c2 r2)) = proj (snd (step s c2 r2)) /\
  sim (fst (step s1 c2 r2)) (fst (step s2 c1 r1)) /\
  fs (fst (step s1 c2 r2)) = fs (fst (step s2 c1 r1)).
Proof. exact commute_attr_reader. Qed.
Theorem C29_commute_reader_remove : forall s c1 r1 c2 r2 h p a hd n d da,
  Good s -> attr_reader r1 = Some h -> is_rm r2 = Some (hd, n) ->
  lookup_node s h = Some (p, a) ->
  vname n -> sanitize_ok d n = true -> lookup_node s hd = Some (d, da) -> na_kind da = KDir ->
  ro (conf s) = false -> kd (fs s) d = true ->
  is_prefix (d ++ [n]) p = false ->
  let s1 := fst (step s c1 r1) in let s2 := fst (step s c2 r2) in
  proj (snd (step s c1 r1)) = proj (snd (step s2 c1 r1)) /\
  proj (snd (step s1 c2 r2)) = proj (snd (step s c2 r2)) /\
  sim (fst (step s1 c2 r2)) (fst (step s2 c1 r1)) /\
  fs (fst (step s1 c2 r2)) = fs (fst (step s2 c1 r1)).
Proof. exact commute_reader_remove. Qed.
Example C29_ex_commute_hyps : exists a da,
  Good cm_state /\ attr_reader (RGetattr 2) = Some 2 /\ is_rm (RRemove 1 [98]) = Some (1, [98]) /\
  lookup_node cm_state 2 = Some ([[97]], a) /\ vname [98] /\ sanitize_ok [] [98] = true /\
  lookup_node cm_state 1 = Some ([], da) /\ na_kind da = KDir /\ ro (conf cm_state) = false /\
  kd (fs cm_state) [] = true /\ is_prefix ([] ++ [[98]]) [[97]] = false.
Proof. exact commute_hyps_met. Qed.
Theorem C29_point_updates_commute : forall f p1 x1 t1 p2 x2 t2 q, indep p1 p2 ->
  let f12 := pt (pt f p1 x1 t1) p2 x2 t2 in let f21 := pt (pt f p2 x2 t2) p1 x1 t1 in
  option_map (touch_o 0) (fs_get f12 q) = option_map (touch_o 0) (fs_get f21 q) /\
  (parent p1 <> parent p2 \/ q <> parent p1 \/ t1 = t2 -> fs_get f12 q = fs_get f21 q).
Proof. exact pt_commute. Qed.
Theorem C29_backend_commute : forall f o1 t1 o2 t2, WF f -> nolinks f -> nodd (ns_path o1) -> nodd (ns_path o2) ->
  indep (ns_path o1) (ns_path o2) ->
  let r1 := ns_run f o1 t1 in let r12 := ns_run (fst r1) o2 t2 in
  let r2 := ns_run f o2 t2 in let r21 := ns_run (fst r2) o1 t1 in
  snd r1 = snd r21 /\ snd r2 = snd r12 /\
  forall q, option_map (touch_o 0) (fs_get (fst r12) q) = option_map (touch_o 0) (fs_get (fst r21) q) /\
            (parent (ns_path o1) <> parent (ns_path o2) \/ q <> parent (ns_path o1) \/ t1 = t2 ->
             fs_get (fst r12) q = fs_get (fst r21) q).
Proof. exact be_ns_commute. Qed.
Example C29_ex_backend_commute_hyps :
  WF (fs cm_state) /\ nolinks (fs cm_state) /\ nodd (ns_path (NsMkdir [[99]] 493)) /\ nodd (ns_path (NsRemove [[98]])) /\
  indep (ns_path (NsMkdir [[99]] 493)) (ns_path (NsRemove [[98]])) /\
  snd (ns_run (fs cm_state) (NsMkdir [[99]] 493) 7) = true /\ snd (ns_run (fs cm_state) (NsRemove [[98]]) 9) = true.
Proof. exact be_commute_hyps_met. Qed.
(* NOT proved: two allocating requests on independent names (see Proofs/SrvCommute.v section 6) *)
Definition C29_commute_distinct_statement : Prop := commute_distinct_statement.

(* ---------- (c) a cached value is an Lstat view of its own path ---------- *)
Theorem C29_cache_faithful : forall (P : acentry -> Prop) s p,
  (AllP P s -> AllP P (fst (ac_get s p))) /\
  (forall x, snd (ac_get s p) = Some x -> exists e, In e (ac s) /\ ac_path e = p /\ ac_attrs e = x) /\
  (forall q, AllP P s -> AllP P (ac_invalidate s q)) /\ (forall q, AllP P s -> AllP P (ac_invalidate_tree s q)) /\
  (forall q, AllP P s -> AllP P (ac_invalidate_neg_in_dir s q)).
Proof. exact cache_only_returns_stored. Qed.
Theorem C29_lookup_provenance : forall (V : fsmap -> Prop) s p, V (fs s) -> AllP (from_stat V) s ->
  let so := srv_lookup s p in
  fs (fst so) = fs s /\ AllP (from_stat V) (fst so) /\
  match snd so with
  | Ok a => exists f, V f /\ lstat_view f p (Some a)
  | Err e => (e = ENOENT /\ exists f, V f /\ lstat_view f p None) \/ be_stat (fs s) p false = Err e
  end.
Proof. exact srv_lookup_provenance. Qed.
Theorem C29_getattr_provenance : forall (V : fsmap -> Prop) s p u g, V (fs s) -> AllP (from_stat V) s ->
  let so := srv_getattr s p u g in
  fs (fst so) = fs s /\ AllP (from_stat V) (fst so) /\
  match snd so with
  | Ok a => lstat_view (fs s) p (Some a)
  | Err e => be_stat (fs s) p false = Err e
  end.
Proof. exact srv_getattr_provenance. Qed.
Theorem C29_cached_values : forall l s, Good s -> c02_hist l ->
  Forall (fun so => forall e, In e (ac (fst so)) ->
            match ac_attrs e with
            | Some a => exists o, fs_get (fs (fst so)) (ac_path e) = Some o /\
                                  na_kind a = o_kind o /\ na_perm a = o_perm o /\ na_size a = stat_size o /\
                                  na_fileid a = fileid_of (ac_path e)
            | None => noent (fs (fst so)) (ac_path e)
            end) (hrun s l).
Proof. exact cached_values_current. Qed.
Theorem C29_lookup_reply_was_state : forall s c h n d da, Good s -> vname n -> lookup_node s h = Some (d, da) -> na_kind da = KDir ->
  let so := step s c (RLookup h n) in ob_status (snd so) = 0 ->
  exists b rest fi, ob_attrs (snd so) = Some b :: rest /\ be_stat (fs (fst so)) (d ++ [n]) false = Ok fi /\
    fa_type b = ftype_of (fi_kind fi) /\ fa_perm b = fi_perm fi /\ fa_size b = fi_size fi /\ fa_fileid b = fileid_of (d ++ [n]).
Proof. exact lookup_reply_was_state. Qed.
Example C29_ex_warm_cache : (3 <=? length (ac pv_state))%nat = true /\
  existsb (fun e => match ac_attrs e with None => true | _ => false end) (ac pv_state) = true.
Proof. exact pv_state_warm. Qed.
(* NOT proved: the history invariant for all requests without the link-free side condition *)
Definition C29_cached_values_statement : Prop := cached_values_statement.

Print Assumptions C29_facts.
Print Assumptions C29_determinism.
Print Assumptions C29_replay_deterministic.
Print Assumptions C29_replay_is_fold.
Print Assumptions C29_validate_sound.
Print Assumptions C29_checker_sound.
Print Assumptions C29_checker_linearizable.
Print Assumptions C29_realtime_order.
Print Assumptions C29_ex_linearizable.
Print Assumptions C29_ex_not_linearizable.
Print Assumptions C29_reader_core.
Print Assumptions C29_reader_no_disturb.
Print Assumptions C29_attr_reader_frame.
Print Assumptions C29_commute_attr_reader.
Print Assumptions C29_commute_reader_remove.
Print Assumptions C29_ex_commute_hyps.
Print Assumptions C29_point_updates_commute.
Print Assumptions C29_backend_commute.
Print Assumptions C29_ex_backend_commute_hyps.
Print Assumptions C29_cache_faithful.
Print Assumptions C29_lookup_provenance.
Print Assumptions C29_getattr_provenance.
Print Assumptions C29_cached_values.
Print Assumptions C29_lookup_reply_was_state.
Print Assumptions C29_ex_warm_cache.
