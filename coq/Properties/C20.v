(* Properties/C20.v — Worker pool: bounded concurrency and every accepted task resolved exactly once.

   The model is the labelled transition system Model/PoolLTS.v (one transition per atomic step of
   worker_pool.go; unbounded lists of tasks, workers, submitters, queue generations).  A state is
   reachable when some trace of ANY length, over ANY number of tasks and Resize/Stop calls, leads to it
   from a started pool of n workers (any n, 0 included).  The theorems quantify over all of that.

   [cfg] = three structural facts of the source; [current_cfg] (Model/PoolCfg.v) takes them from
   Gen/Facts.v, i.e. from the Go AST of the current /repo on every run:
     stop_drains      (fix 9607c86)  Stop tells the submitters of still-queued tasks "not executed"
     overflow_closes  (fix 9607c86)  Resize does the same for tasks that do not fit the new queue
     stop_locks       (fix for Stop/Resize overlap) Stop holds resizeMu
   [C20_code_good] is the named obligation that breaks if the source loses one of them; the
   [C20_needs_...] theorems show each one is necessary (kernel-checked violating traces of the model of
   the code without it, among them the two defects fixed by 9607c86 and the Stop/Resize overlap).

   Modelled, not verified: Go scheduler/channel/RWMutex/WaitGroup/context semantics as given by the
   definitions in Model/PoolLTS.v; task bodies terminate (Finish is always enabled for an executing
   worker); sequentially consistent interleaving; one external Stop call at a time.

   Only statements closed by [exact lemma], Examples and Print Assumptions live here. *)
From Coq Require Import List Arith Bool ZArith.
From Verif Require Import Gen.Facts Model.PoolLTS Model.PoolCfg
  Proofs.PoolProofs Proofs.PoolStr Proofs.PoolFinal.
Import ListNotations.
Local Open Scope nat_scope.

(* constants and shapes the model takes for granted, against what the code says now *)
Theorem C20_facts :
  (f_pool_queue_factor =? Z.of_nat queue_factor)%Z      (* make(chan Task, maxWorkers*2) in NewWorkerPool and Resize *)
  && (f_pool_result_buffer =? 1)%Z                      (* result channels have buffer 1: the worker's send cannot block *)
  && (f_pool_submit_timeout_ns =? 50000000)%Z           (* Submit's 50 ms timer *)
  && (f_pool_resize_min =? 1)%Z                         (* Resize(n <= 0) means 1 *)
  && f_pool_submit_rlock                                (* Submit holds closeMu.RLock across check + send *)
  && f_pool_close_under_lock                            (* Stop closes the queue under closeMu.Lock *)
  && f_pool_send_nonblocking = true.                    (* worker: select { case ResultChan <- result: default: } *)
Proof. vm_compute. reflexivity. Qed.

(* the current source has the three repairs *)
Theorem C20_code_good : good current_cfg.
Proof. repeat split. Qed.

(* C20, part 1.  Tasks never run concurrently beyond the pool size.  [maxw s] is the size in force (the old
   size until Resize installs the new queue and workers, the new one afterwards), [rz_target s] the size a
   Resize in progress is changing to: the first inequality is the stronger one, the second the literal
   statement "the larger of old and new size while a resize is in progress". *)
Theorem C20_bounded : forall c, good c -> forall n s, reachable c n s ->
  executing s <= maxw s /\ executing s <= Nat.max (maxw s) (rz_target s).
Proof. exact C20_bounded_reach. Qed.

(* C20, part 2.  No task executes twice, and none executes on two workers at once - for EVERY configuration
   (also the unrepaired ones) and every interleaving, overlapping Stop and Resize included. *)
Theorem C20_at_most_once : forall c n s, reachable c n s ->
  NoDup (exec_tasks (workers s) ++ executed s).
Proof. exact C20_at_most_once_reach. Qed.

(* C20, part 3.  In every quiescent reachable state (no goroutine inside the pool code can take a step; the
   only things that can still happen are new calls) the pool has not panicked and no submitter is waiting:
   each has either its own task's result, with the task executed exactly once, or was told "not executed"
   (closed result channel) / refused (nil channel), with the task never executed by the pool - so
   ExecuteWithWorker runs it itself exactly once. *)
Theorem C20_resolved : forall c, good c -> forall n s, reachable c n s -> quiescent c s -> resolved s.
Proof. exact C20_resolved_reach. Qed.

(* the same three statements about the configuration of the current source *)
Theorem C20_bounded_current : forall n s, reachable current_cfg n s ->
  executing s <= maxw s /\ executing s <= Nat.max (maxw s) (rz_target s).
Proof. exact (C20_bounded_reach current_cfg C20_code_good). Qed.
Theorem C20_resolved_current : forall n s, reachable current_cfg n s -> quiescent current_cfg s -> resolved s.
Proof. exact (C20_resolved_reach current_cfg C20_code_good). Qed.

(* the executable quiescence test evaluated by the correspondence monitor implies the quantified one *)
Theorem C20_quiescentb_sound : forall c s, quiescentb c s = true -> quiescent c s.
Proof. exact quiescentb_sound. Qed.

(* ---------------- non-vacuity ---------------- *)
Definition sub3 (t : task) : list label := [SubmitCall t; SubmitBegin t; SubmitEnq t].

(* the bound is attained: two workers, both executing, two more tasks queued, a shrink to 1 in progress *)
Example C20_bounded_tight :
  exists s, reachable current_cfg 2 s /\ executing s = 2 /\ maxw s = 2 /\ rz_target s = 1 /\ queued s = [2; 3].
Proof.
  eexists. split.
  - exists (sub3 0 ++ [Take 0] ++ sub3 1 ++ [Take 1] ++ sub3 2 ++ sub3 3 ++ [RzCall 1; RzBegin; RzStop; RzClose]).
    vm_compute. reflexivity.
  - vm_compute. repeat split.
Qed.

(* a quiescent reachable state with every kind of answer: shrink 2 -> 1 with both workers busy and four
   tasks queued (two do not fit the new queue), a Submit refused while the pool is stopped for the resize,
   then Stop with one task still queued *)
Definition resolved_trace : list label :=
  sub3 0 ++ [Take 0] ++ sub3 1 ++ [Take 1] ++ sub3 2 ++ sub3 3 ++ sub3 4 ++ sub3 5 ++
  [RzCall 1; RzBegin; RzStop; SubmitCall 6; SubmitBegin 6; RzClose; Finish 0; Finish 1; ExitCtx 0; ExitCtx 1; RzWait;
   RzDrain; RzDrain; RzDrain; RzDrain; RzDrain; RzSwap; RzReenq; RzReenq; RzReenq; RzReenq; RzReenq;
   Take 2; StopCall; StopCAS; StopClose; Finish 2; ExitCtx 2; StopWait; StopDrain; StopDrain].
Example C20_resolved_nontrivial :
  exists s, reachable current_cfg 2 s /\ quiescent current_cfg s /\
    subs s = [(6, SRejected); (5, SNotExec); (4, SNotExec); (3, SNotExec); (2, SGot (Some 2)); (1, SGot (Some 1)); (0, SGot (Some 0))] /\
    executed s = [2; 1; 0] /\ running s = false.
Proof.
  eexists. split; [exists resolved_trace; vm_compute; reflexivity|].
  split; [apply quiescentb_sound; vm_compute; reflexivity|]. vm_compute. repeat split.
Qed.

(* a state with tasks executing and executed (the NoDup of part 2 is about a non-empty list) *)
Example C20_at_most_once_nontrivial :
  exists s, reachable current_cfg 2 s /\ exec_tasks (workers s) = [2; 1] /\ executed s = [0].
Proof.
  eexists. split.
  - exists (sub3 0 ++ [Take 0] ++ sub3 1 ++ [Take 1] ++ sub3 2 ++ [Finish 0; Take 0]). vm_compute. reflexivity.
  - vm_compute. split; reflexivity.
Qed.

(* ---------------- each repair is necessary (kernel-checked traces of the models without it) ---------------- *)
Definition cfg_no_drain : cfg := {| stop_drains := false; overflow_closes := true; stop_locks := true |}.
Definition cfg_nil_overflow : cfg := {| stop_drains := true; overflow_closes := false; stop_locks := true |}.
Definition cfg_no_lock : cfg := {| stop_drains := true; overflow_closes := true; stop_locks := false |}.

(* before 9607c86: one worker busy, one task queued behind it, Stop - the worker leaves through ctx.Done, the
   queue is closed with the task in it, its submitter waits for ever *)
Theorem C20_needs_stop_drains :
  exists s, reachable cfg_no_drain 1 s /\ quiescent cfg_no_drain s /\ In (1, SWait) (subs s) /\ ~ resolved s.
Proof.
  eexists. split; [exists (sub3 0 ++ [Take 0] ++ sub3 1 ++ [StopCall; StopCAS; StopClose; Finish 0; ExitCtx 0; StopWait]); vm_compute; reflexivity|].
  split; [apply quiescentb_sound; vm_compute; reflexivity|].
  assert (I : In (1, SWait) [(1, SWait); (0, SGot (Some 0))]) by (left; reflexivity).
  split; [exact I|]. intros (_ & R). exact (R _ _ I).
Qed.

(* before 9607c86: a task that does not fit the smaller queue gets nil on its result channel, which the
   submitter takes for its result although the task never ran *)
Theorem C20_needs_overflow_closes :
  exists s, reachable cfg_nil_overflow 2 s /\ In (5, SGot None) (subs s) /\ cnt 5 (places s) = 0 /\ ~ resolved s.
Proof.
  eexists. split.
  - exists (sub3 0 ++ [Take 0] ++ sub3 1 ++ [Take 1] ++ sub3 2 ++ sub3 3 ++ sub3 4 ++ sub3 5 ++
      [RzCall 1; RzBegin; RzStop; RzClose; Finish 0; Finish 1; ExitCtx 0; ExitCtx 1; RzWait;
       RzDrain; RzDrain; RzDrain; RzDrain; RzDrain; RzSwap; RzReenq; RzReenq; RzReenq; RzReenq; RzReenq]).
    vm_compute. reflexivity.
  - assert (I : In (5, SGot None) [(5, SGot None); (4, SGot None); (3, SWait); (2, SWait); (1, SGot (Some 1)); (0, SGot (Some 0))])
      by (left; reflexivity).
    split; [exact I|]. split; [vm_compute; reflexivity|].
    intros (_ & R). destruct (R _ _ I) as (V & _). discriminate.
Qed.

(* without resizeMu in Stop: Resize reads running = 1, an external Stop wins the CAS, Resize's own Stop()
   returns at once, Resize restarts the pool next to the old worker that is still executing: 3 tasks execute
   with old size 1 and new size 2 *)
Theorem C20_needs_stop_locks_bounded :
  exists s, reachable cfg_no_lock 1 s /\ executing s = 3 /\ Nat.max (maxw s) (rz_target s) = 2.
Proof.
  eexists. split.
  - exists (sub3 0 ++ [Take 0; RzCall 2; RzBegin; StopCall; StopCAS; RzStop; StopClose; RzDrain; RzSwap] ++
            sub3 1 ++ [Take 1] ++ sub3 2 ++ [Take 2]).
    vm_compute. reflexivity.
  - vm_compute. split; reflexivity.
Qed.

(* without resizeMu in Stop: a Submit is pending on the full queue (holding closeMu.RLock), Stop has done its
   CAS and waits for the lock, Resize sees running = 0 and closes the old queue WITHOUT the lock: the pending
   send panics (observed on the real code before the fix: "send on closed channel") *)
Theorem C20_needs_stop_locks_panic :
  exists s, reachable cfg_no_lock 1 s /\ panicked s = true /\ In (3, SPanic) (subs s) /\ ~ resolved s.
Proof.
  eexists. split.
  - exists (sub3 0 ++ [Take 0] ++ sub3 1 ++ sub3 2 ++ [SubmitCall 3; SubmitBegin 3; StopCall; StopCAS; RzCall 2; RzBegin; RzStop; SubmitEnq 3]).
    vm_compute. reflexivity.
  - split; [reflexivity|]. split; [left; reflexivity|]. intros (P & _). discriminate.
Qed.

Print Assumptions C20_facts.
Print Assumptions C20_code_good.
Print Assumptions C20_bounded.
Print Assumptions C20_at_most_once.
Print Assumptions C20_resolved.
Print Assumptions C20_bounded_current.
Print Assumptions C20_resolved_current.
Print Assumptions C20_quiescentb_sound.
Print Assumptions C20_bounded_tight.
Print Assumptions C20_resolved_nontrivial.
Print Assumptions C20_at_most_once_nontrivial.
Print Assumptions C20_needs_stop_drains.
Print Assumptions C20_needs_overflow_closes.
Print Assumptions C20_needs_stop_locks_bounded.
Print Assumptions C20_needs_stop_locks_panic.
