(* Properties/C20.v — worker pool (being written). *)
From Verif Require Import Model.PoolLTS Proofs.PoolProofs.
