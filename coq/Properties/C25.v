(* Properties/C25.v — MaxFileSize is enforced.
   Model: Model/Srv.v (WRITE, SETATTR, CREATE handlers; cfg field maxfile, 0 = unlimited) over Model/Backend.v.
   All theorems are for ALL server states (any tree, caches, handle table), every positive limit, whether set
   at construction or at runtime (RSetMaxFile only changes the maxfile field of the state). *)
From Coq Require Import List NArith ZArith Bool.
From Verif Require Import Gen.Facts Model.Handles Model.Backend Model.Srv Proofs.SrvRO Proofs.BackendData Proofs.SrvData.
Import ListNotations.
Open Scope N_scope.

(* ---------- requests beyond the limit: NFS3ERR_FBIG, nothing changes, no mutating backend call ---------- *)
Theorem C25_write_fbig : forall s c h off cnt stable data,
  0 < maxfile (conf s) -> ro (conf s) = false -> 0 < cnt -> cnt = N.of_nat (length data) -> cnt <= tsize (conf s) ->
  off + cnt < two64 -> maxfile (conf s) < off + cnt ->
  let r := step s c (RWrite h off cnt stable data) in
  ob_rpc (snd r) = 0 /\ ob_status (snd r) = NFSERR_FBIG /\ fs (fst r) = fs s /\ blog (fst r) = [].
Proof. exact step_write_fbig. Qed.

(* "the handle resolves, GetAttr succeeds": lookup_node (of a non-symlink node: a symlink handle is refused with
   INVAL before anything else, C01_setattr_link_guard) and the Lstat of GetAttr *)
Theorem C25_setattr_fbig : forall s c h p na fi sa sz,
  lookup_node s h = Some (p, na) -> na_kind na <> KLink -> be_stat (fs s) p false = Ok fi -> ro (conf s) = false ->
  match s_mode sa with Some m => N.testbit m 15 | None => false end = false ->
  s_size sa = Some sz -> sz < two63N -> 0 < maxfile (conf s) -> maxfile (conf s) < sz ->
  let r := step s c (RSetattr h sa None) in
  ob_rpc (snd r) = 0 /\ ob_status (snd r) = NFSERR_FBIG /\ fs (fst r) = fs s /\
  (forall b, In b (blog (fst r)) -> mutating b = false).
Proof. exact step_setattr_fbig. Qed.

(* UNCHECKED CREATE over an existing regular file with a size attribute beyond the limit *)
Theorem C25_create_fbig : forall s c h d dattr n sa sz dfi fi,
  ro (conf s) = false -> validate_name n = st_ok -> str_ok n = true ->
  validate_mode (match s_mode sa with Some m => m | None => 420 end) = st_ok ->
  lookup_node s h = Some (d, dattr) -> na_kind dattr = KDir ->
  be_stat (fs s) d false = Ok dfi -> be_stat (fs s) (d ++ [n]) false = Ok fi -> fi_kind fi = KFile ->
  s_size sa = Some sz -> sz < two63N -> 0 < maxfile (conf s) -> maxfile (conf s) < sz ->
  let r := step s c (RCreate h n 0 sa) in
  ob_rpc (snd r) = 0 /\ ob_status (snd r) = NFSERR_FBIG /\ fs (fst r) = fs s /\
  (forall b, In b (blog (fst r)) -> mutating b = false).
Proof. exact step_create_fbig. Qed.

(* ---------- the bound: ANY WRITE / SETATTR request, in any state ---------- *)
(* every regular file afterwards is within the limit or no larger than the file at the same path before; these
   two procedures never add, remove or move an object (C25_*_keys), so "the same path" is "the same file" *)
Theorem C25_write_bound : forall s h off cnt stable data, 0 < maxfile (conf s) ->
  forall p o', fs_get (fs (fst (handle_write s h off cnt stable data))) p = Some o' -> o_kind o' = KFile ->
  o_size o' <= maxfile (conf s) \/ exists o, fs_get (fs s) p = Some o /\ o_kind o = KFile /\ o_size o' <= o_size o.
Proof. exact handle_write_bound_spec. Qed.
Theorem C25_setattr_bound : forall s c h sa guard, 0 < maxfile (conf s) ->
  forall p o', fs_get (fs (fst (handle_setattr s c h sa guard))) p = Some o' -> o_kind o' = KFile ->
  o_size o' <= maxfile (conf s) \/ exists o, fs_get (fs s) p = Some o /\ o_kind o = KFile /\ o_size o' <= o_size o.
Proof. exact handle_setattr_bound_spec. Qed.
Theorem C25_write_keys : forall s h off cnt stable data, 0 < maxfile (conf s) ->
  forall p, fs_get (fs (fst (handle_write s h off cnt stable data))) p = None <-> fs_get (fs s) p = None.
Proof. exact handle_write_keys. Qed.
Theorem C25_setattr_keys : forall s c h sa guard, 0 < maxfile (conf s) ->
  forall p, fs_get (fs (fst (handle_setattr s c h sa guard))) p = None <-> fs_get (fs s) p = None.
Proof. exact handle_setattr_keys. Qed.

(* ---------- within the limit the limit is invisible ---------- *)
(* mf0 s = s with maxfile := 0.  If the FBIG guard does not trigger, the request gives the same reply, and the
   same resulting state up to the maxfile field, as on the server without a limit *)
Theorem C25_sim_write : forall s h off cnt stable data,
  (maxfile (conf s) = 0 \/ cnt = 0 \/ off + cnt <= maxfile (conf s)) ->
  handle_write (with_conf s (set_maxfile (conf s) 0)) h off cnt stable data =
  (let r := handle_write s h off cnt stable data in (with_conf (fst r) (set_maxfile (conf (fst r)) 0), snd r)).
Proof. exact handle_write_sim. Qed.
Theorem C25_sim_setattr : forall s c h sa guard,
  (forall sz, s_size sa = Some sz -> maxfile (conf s) = 0 \/ sz <= maxfile (conf s) \/ two63N <= sz) ->
  handle_setattr (with_conf s (set_maxfile (conf s) 0)) c h sa guard =
  (let r := handle_setattr s c h sa guard in (with_conf (fst r) (set_maxfile (conf (fst r)) 0), snd r)).
Proof. exact handle_setattr_sim. Qed.

Theorem C25_facts : (c_NFSERR_FBIG =? 27)%Z = true.
Proof. vm_compute. reflexivity. Qed.

(* ---------- non-vacuity ---------- *)
Definition ex_cfg : cfg :=
  {| tsize := 16; ro := false; maxfile := 6; attr_ttl := 5; attr_cap := 10; neg_on := true; neg_ttl := 5;
     dir_on := true; dir_ttl := 5; dir_cap := 10; dir_maxsize := 10 |}.
Definition ex_cred : cred := {| c_uid := 0; c_gid := 0; c_aux := [] |}.
Definition ex_s2 : srv :=
  let s0 := srv_init_fs (fs_set fs_init [[97]] (mk_file 420 7)) ex_cfg 0 100 in
  let s1 := fst (step s0 ex_cred (RMnt [47])) in
  fst (step s1 ex_cred (RLookup 1 [97])).
Definition ex_sa (z : N) : sattr :=
  {| s_mode := None; s_uid := None; s_gid := None; s_size := Some z; s_atime := 0; s_atime_v := 0; s_mtime := 0; s_mtime_v := 0 |}.

Example C25_nontrivial :
  (* limit 6: a WRITE ending at 6 is accepted, one ending at 7 is refused and changes nothing *)
  (let w := step ex_s2 ex_cred (RWrite 2 4 2 0 [65; 66]) in
   ob_status (snd w) = 0 /\ option_map o_size (fs_get (fs (fst w)) [[97]]) = Some 6) /\
  (let w := step ex_s2 ex_cred (RWrite 2 5 2 0 [65; 66]) in
   ob_status (snd w) = 27 /\ fs (fst w) = fs ex_s2 /\ blog (fst w) = []) /\
  (* a WRITE into a hole, then a READ across it shows zeros *)
  (let s3 := fst (step ex_s2 ex_cred (RWrite 2 3 1 0 [65])) in
   ob_bytes (snd (step s3 ex_cred (RRead 2 0 10))) = [0; 0; 0; 65]) /\
  (* SETATTR(size) and CREATE with a size: 6 accepted, 7 refused *)
  ob_status (snd (step ex_s2 ex_cred (RSetattr 2 (ex_sa 6) None))) = 0 /\
  (let r := step ex_s2 ex_cred (RSetattr 2 (ex_sa 7) None) in ob_status (snd r) = 27 /\ fs (fst r) = fs ex_s2) /\
  (let r := step ex_s2 ex_cred (RCreate 1 [97] 0 (ex_sa 7)) in ob_status (snd r) = 27 /\ fs (fst r) = fs ex_s2) /\
  (* the limit switched on at runtime *)
  (let s3 := fst (step ex_s2 ex_cred (RSetMaxFile 3)) in ob_status (snd (step s3 ex_cred (RWrite 2 3 1 0 [65]))) = 27) /\
  (* hypotheses of the FBIG theorems *)
  lookup_node ex_s2 2 <> None /\ (exists fi, be_stat (fs ex_s2) [[97]] false = Ok fi /\ fi_kind fi = KFile) /\
  (exists fi, be_stat (fs ex_s2) [] false = Ok fi) /\ validate_name [97] = st_ok /\ str_ok [97] = true.
Proof.
  vm_compute. repeat split; try reflexivity; try discriminate; eexists; split; reflexivity.
Qed.

Print Assumptions C25_write_fbig.
Print Assumptions C25_setattr_fbig.
Print Assumptions C25_create_fbig.
Print Assumptions C25_write_bound.
Print Assumptions C25_setattr_bound.
Print Assumptions C25_write_keys.
Print Assumptions C25_setattr_keys.
Print Assumptions C25_sim_write.
Print Assumptions C25_sim_setattr.
Print Assumptions C25_facts.
