(* Properties/C30.v — The TLS listener enforces the configured security floor; client certificates; rotation.
   PARTIAL by nature: handshakes, chain verification and cipher negotiation are crypto/tls.  Proved here, on
   Model/Tls.v (fed by the facts astfacts reads from tls_config.go / server.go):
     - what Validate / BuildConfig let through to crypto/tls (the floor, the pass-through of Min/Max/ClientAuth);
     - under the MODELLED rule of crypto/tls for (MinVersion, MaxVersion, ClientAuth, ClientCAs) - [negotiate],
       [auth_ok], with Go's default minimum version as the Section variable [go_min_default] - no handshake completes
       below TLS 1.2 and RequireAndVerifyClientCert lets only CA-signed clients through;
     - the heap-cell model of Clone / BuildConfig / ReloadCertificates / GetExportOptions / UpdateExportOptions: the
       documented rotation step reaches the cell the listener reads, after any history of such calls.
   The modelled library rule is compared with real handshakes on every run (Corr/C30.v, Corr/C30rot.v). *)
From Coq Require Import List ZArith NArith Bool String.
From Verif Require Import Gen.Facts Model.Tls Proofs.TlsProofs.
Import ListNotations.
Open Scope Z_scope.

(* what the source says NOW *)
Theorem C30_facts :
  ((cfg_tls_floor =? 771) &&                      (* tls.VersionTLS12 = 0x0303 *)
   (cfg_tls_ca_auth_threshold =? 3) &&            (* tls.VerifyClientCertIfGiven *)
   existsb (String.eqb "floor") cfg_tls_validate_steps && existsb (String.eqb "min_le_max") cfg_tls_validate_steps &&
   cfg_tls_build_validates_first &&
   passes "MinVersion" && passes "MaxVersion" && passes "ClientAuth" &&
   cfg_listen_tls_from_policy && cfg_tls_listener_reads_cell && cfg_tls_clone_shares_cell && cfg_tls_reload_stores_cell)%bool = true.
Proof. vm_compute. reflexivity. Qed.

(* the configuration side of the floor, with no assumption about the library: whatever Validate accepts either leaves
   MinVersion unset (the library's default applies) or sets it to TLS 1.2 or above, and never above MaxVersion *)
Theorem C30_validate_floor : forall t, t_enabled t = true -> validate t = None ->
  (t_min t = 0 \/ TLS12 <= t_min t) /\ t_min t <= t_max t.
Proof. exact validate_ok_floor. Qed.

Section C30.
(* crypto/tls: the minimum version a server Config with MinVersion = 0 accepts.  Go >= 1.22: TLS 1.2 (unless
   GODEBUG=tls10server=1).  Trusted-base item, NOT an axiom: the theorems quantify over it. *)
Variable go_min_default : Z.
Hypothesis go_default_at_least_12 : TLS12 <= go_min_default.

(* every configuration Validate accepts has effective minimum >= TLS 1.2: for every settings value (any Min/Max,
   ClientAuth, CA, files, cipher suites) and every client (any version range, any certificate), a completed handshake
   has version >= TLS 1.2; servers whose settings Validate rejects never listen (handshake = None) *)
Theorem C30_floor : forall t c v, handshake go_min_default t c = Some v -> TLS12 <= v.
Proof. exact (floor_lemma go_min_default go_default_at_least_12). Qed.

Theorem C30_range : forall t c v, handshake go_min_default t c = Some v ->
  cl_min c <= v <= cl_max c /\ (t_max t = 0 \/ v <= t_max t).
Proof. exact (range_lemma go_min_default). Qed.

(* client certificates required and verified: only clients presenting a certificate that chains to the configured CA *)
Theorem C30_client_auth : forall t c v, handshake go_min_default t c = Some v -> t_client_auth t = 4 ->
  cl_cert c = CASigned /\ t_ca_given t = true /\ t_ca_exists t = true /\ t_ca_parses t = true.
Proof. exact (client_auth_lemma go_min_default). Qed.
Theorem C30_verify_if_given : forall t c v, handshake go_min_default t c = Some v -> t_client_auth t = 3 ->
  cl_cert c = NoCert \/ (cl_cert c = CASigned /\ t_ca_given t = true).
Proof. exact (verify_if_given_lemma go_min_default). Qed.
End C30.

(* rotation: a server built from one enabled settings object (files at p holding c0), after ANY history of
   GetExportOptions / Clone / ReloadCertificates / file writes / UpdateExportOptions handing back settings obtained
   from the server: writing new files and calling ReloadCertificates on GetExportOptions().TLS succeeds and the
   certificate cell the listener's GetCertificate callback reads holds the new certificate *)
Theorem C30_rotation : forall p c0 hs c', derived_only hs = true ->
  exists w', rotate (hrun (boot p c0) hs) p c' = (w', true) /\ presented w' = Some c'.
Proof.
  intros p c0 hs c' D. apply (rotate_rinv p 0). apply hrun_rinv; [apply boot_rinv | exact D].
Qed.

(* scope of C30_rotation, stated rather than hidden: settings REPLACED at runtime are reported but the running
   listener keeps the cell it was built with - after UpdateExportOptions with a caller-made TLSConfig the documented
   step no longer reaches the listener, and after UpdateExportOptions with TLS = nil there is no object to call it on *)
Example C30_rotation_scope :
  (let w := hrun (boot 1%N 10%N) [HFresh true 1%N; HUpdate 2] in
   exists w', rotate w 1%N 20%N = (w', true) /\ presented w' = Some 10%N) /\
  (let w := hrun (boot 1%N 10%N) [HUpdateNil] in snd (rotate w 1%N 20%N) = false /\ presented w = Some 10%N).
Proof. split; [eexists; split|split]; vm_compute; reflexivity. Qed.

(* non-vacuity *)
Example C30_nontrivial :
  let t := mkTls true true true true true true true true true 4 0 0 true in           (* Min/Max unset, RequireAndVerify + CA *)
  let t13 := mkTls true true true true true true false false false 0 TLS12 TLS13 true in
  validate t = None /\ validate t13 = None /\
  handshake TLS12 t (mkClient TLS10 TLS13 CASigned) = Some TLS13 /\
  handshake TLS12 t (mkClient TLS10 TLS11 CASigned) = None /\
  handshake TLS12 t (mkClient TLS12 TLS12 SelfSigned) = None /\
  handshake TLS12 t13 (mkClient TLS10 TLS12 NoCert) = Some TLS12 /\
  validate (mkTls true true true true true true false false false 0 TLS10 TLS13 true) = Some EBelowFloor /\
  validate (mkTls true true true true true true false false false 0 TLS12 0 true) = Some EMinGtMax /\
  (let w := hrun (boot 7%N 1%N) [HGet; HClone 2; HUpdate 3; HWrite 7%N 2%N; HReload 5; HGet] in
   derived_only [HGet; HClone 2; HUpdate 3; HWrite 7%N 2%N; HReload 5; HGet] = true /\ presented w = Some 2%N /\
   List.length (objs w) = 7%nat).
Proof. vm_compute. repeat split; reflexivity. Qed.

Print Assumptions C30_facts.
Print Assumptions C30_validate_floor.
Print Assumptions C30_floor.
Print Assumptions C30_range.
Print Assumptions C30_client_auth.
Print Assumptions C30_verify_if_given.
Print Assumptions C30_rotation.
