(* Properties/C05w.v — C05 at the wire: the handle a reply carries is live, names the object of the request,
   is the same value again while the path is live, and the table stays bounded — in every server state
   reachable from an empty table by any sequence of requests, clock advances and reconfigurations.
   Only statements closed by [exact lemma], Examples and Print Assumptions live here. *)
From Coq Require Import List NArith ZArith Bool.
From Verif Require Import Gen.Facts Model.Handles Model.Backend Model.Srv.
From Verif Require Import Proofs.HandlesProofs Proofs.HandlesReuse Proofs.SrvPaths Proofs.SrvHandles.
Import ListNotations.
Open Scope N_scope.

(* the boolean equality of the path type of the server's table is equality *)
Theorem C05w_path_eqb : forall a b : path, reflect (a = b) (path_eqb a b).
Proof. exact path_eqb_reflect. Qed.

(* ---------- the invariants ---------- *)
(* HInv: the invariant of C05 (ids and paths in bijection, free ids below next and not live, live ids below
   next, count <= effective maximum) on the server's table.  NInv: every tracked handle has node attributes,
   so lookupNode succeeds on it. *)
Theorem C05w_invariants_def : forall s,
  (HInv s <-> Inv (hm s)) /\ (NInv s <-> forall h p, get (hm s) h = Some p -> node_get s h <> None).
Proof. exact (fun s => conj (conj (fun x => x) (fun x => x)) (conj (fun x => x) (fun x => x))). Qed.

Theorem C05w_init : forall f c mx t, HInv (srv_init_fs f c mx t) /\ NInv (srv_init_fs f c mx t).
Proof. exact (fun f c mx t => conj (HInv_init f c mx t) (NInv_init f c mx t)). Qed.

(* every request (any credential, any arguments, including the administrative steps) preserves both: the
   only things a request does to the table and the node attributes are node_set and alloc ([Ev]) *)
Theorem C05w_step : forall s c r, (HInv s -> HInv (fst (step s c r))) /\ (NInv s -> NInv (fst (step s c r))).
Proof. exact (fun s c r => conj (step_HInv s c r) (step_NInv s c r)). Qed.

Theorem C05w_history : forall l s, HInv s -> NInv s ->
  forall so, In so (hrun s l) -> HInv (fst so) /\ NInv (fst so).
Proof. exact hrun_inv. Qed.

Theorem C05w_reachable : forall f c mx t l,
  let s := hfinal (srv_init_fs f c mx t) l in HInv s /\ NInv s.
Proof. exact reachable_inv. Qed.

(* a tracked handle resolves *)
Theorem C05w_tracked_resolves : forall s h p, NInv s -> get (hm s) h = Some p ->
  exists a, lookup_node s h = Some (p, a).
Proof. exact NInv_lookup. Qed.

(* ---------- live when issued ---------- *)
(* Only MNT, LOOKUP, CREATE, MKDIR and SYMLINK replies carry a handle (ob_fh); whenever one does — in
   particular whenever the reply has status 0 — the handle resolves in the post-state to the path the request
   names: the cleaned MNT path, or the path of the request's directory handle joined with the request's
   name.  (For LOOKUP the directory attributes are fetched after the allocation; that does not touch the
   table.) *)
Theorem C05w_live : forall s c r fh, HInv s -> ob_fh (snd (step s c r)) = Some fh ->
  match r with
  | RMnt mp => exists a, lookup_node (fst (step s c r)) fh = Some (clean_comps [] (split_path mp), a)
  | RLookup h n | RCreate h n _ _ | RMkdir h n _ | RSymlink h n _ _ =>
      exists d da a, lookup_node s h = Some (d, da) /\ lookup_node (fst (step s c r)) fh = Some (d ++ [n], a)
  | _ => False
  end.
Proof. exact step_live. Qed.

(* the handle of the LAST entry of a READDIRPLUS reply is live in the post-state and names dir/name *)
Theorem C05w_readdirplus_last : forall s h ck mc d da l e, HInv s -> lookup_node s h = Some (d, da) ->
  ob_entries (snd (handle_readdirplus s h ck mc)) = l ++ [e] ->
  exists fh a, de_fh e = Some fh /\
    lookup_node (fst (handle_readdirplus s h ck mc)) fh = Some (d ++ [de_name e], a).
Proof. exact handle_readdirplus_last. Qed.

(* ... the handles of the earlier entries need not be (known finding C05 k=1): with limit 1 and a directory
   of two files the first entry's handle is evicted while the second is allocated *)
Definition C05w_readdirplus_all_statement : Prop :=
  forall f cf mx t l x h ck dc mc, hs_req x = RReaddirplus h ck dc mc ->
    let so := hrun1 (hfinal (srv_init_fs f cf mx t) l) x in
    forall e fh, In e (ob_entries (snd so)) -> de_fh e = Some fh -> lookup_node (fst so) fh <> None.
Theorem C05w_readdirplus_earlier_refuted : ~ C05w_readdirplus_all_statement.
Proof. exact readdirplus_all_live_refuted. Qed.

(* ---------- bounded ---------- *)
Theorem C05w_bounded : forall f c mx t l,
  let s := hfinal (srv_init_fs f c mx t) l in count (hm s) <= eff_max (hm s).
Proof. exact reachable_bounded. Qed.
(* ... where the bound is the configured one (<= 0 means the default) *)
Theorem C05w_bounded_cfg : forall f c mx t l,
  count (hm (hfinal (srv_init_fs f c mx t) l)) <= (if (mx <=? 0)%Z then default_max_handles else Z.to_N mx).
Proof. exact reachable_bounded_cfg. Qed.
Theorem C05w_bounded_step : forall s c r, HInv s ->
  count (hm (fst (step s c r))) <= eff_max (hm (fst (step s c r))).
Proof. exact step_bounded. Qed.

(* ---------- one value per path while live ---------- *)
(* if fh resolves to p, a LOOKUP / MNT reply that names p and carries a handle carries fh *)
Theorem C05w_same_handle : forall s c r fh a0 fh', HInv s -> ob_fh (snd (step s c r)) = Some fh' ->
  match r with
  | RLookup h n => forall d da, lookup_node s h = Some (d, da) -> lookup_node s fh = Some (d ++ [n], a0) -> fh' = fh
  | RMnt mp => lookup_node s fh = Some (clean_comps [] (split_path mp), a0) -> fh' = fh
  | _ => True
  end.
Proof. exact step_same_handle. Qed.

Theorem C05w_facts : (c_DefaultMaxHandles =? 100000)%Z = true /\ default_max_handles = Z.to_N c_DefaultMaxHandles.
Proof. vm_compute. split; reflexivity. Qed.

(* ---------- non-vacuity ---------- *)
(* ex_state (Proofs/SrvPaths.v): MNT "/", MKDIR d, CREATE d/f, SYMLINK d/l, LOOKUP d, READDIRPLUS d *)
Example C05w_witness_state :
  ex_state = hfinal (srv_init_fs fs_init ex_cfg 0 100) ex_history /\
  map fst (handles (hm ex_state)) = [4; 3; 2; 1] /\ map fst (nodes ex_state) = [4; 3; 2; 1].
Proof. split; [reflexivity|]. vm_compute. split; reflexivity. Qed.
(* every handle-returning procedure succeeds from it, with a handle *)
Example C05w_witness_live :
  map (fun r => let o := snd (step ex_state ex_cred r) in (ob_status o, ob_rpc o, ob_fh o))
    [RMnt [47; 100]; RLookup 2 [102]; RCreate 2 [103] 0 ex_sattr; RMkdir 1 [101] ex_sattr; RSymlink 1 [109] ex_sattr [100]]
  = [(0, 0, Some 2); (0, 0, Some 3); (0, 0, Some 5); (0, 0, Some 5); (0, 0, Some 5)].
Proof. vm_compute. reflexivity. Qed.
(* LOOKUP of d/f while handle 3 names it returns 3 again *)
Example C05w_witness_same :
  get (hm ex_state) 2 = Some [[100]] /\ get (hm ex_state) 3 = Some [[100]; [102]] /\
  ob_fh (snd (step ex_state ex_cred (RLookup 2 [102]))) = Some 3.
Proof. vm_compute. repeat split; reflexivity. Qed.
(* READDIRPLUS of d: two entries with handles *)
Example C05w_witness_readdirplus :
  map (fun e => (de_name e, de_fh e)) (ob_entries (snd (handle_readdirplus ex_state 2 0 4096))) =
  [([102], Some 3); ([108], Some 4)].
Proof. vm_compute. reflexivity. Qed.
(* the refutation witness: limit 1, READDIRPLUS of "/" with files a, b: a -> 2 (dead afterwards), b -> 1 (live) *)
Example C05w_witness_limit1 :
  ob_status (snd ex1_rdp) = 0 /\
  map (fun e => (de_name e, de_fh e)) (ob_entries (snd ex1_rdp)) = [([97], Some 2); ([98], Some 1)] /\
  lookup_node (fst ex1_rdp) 2 = None /\ get (hm (fst ex1_rdp)) 1 = Some [[98]] /\
  count (hm (fst ex1_rdp)) = 1.
Proof. vm_compute. repeat split; reflexivity. Qed.

Print Assumptions C05w_path_eqb.
Print Assumptions C05w_invariants_def.
Print Assumptions C05w_init.
Print Assumptions C05w_step.
Print Assumptions C05w_history.
Print Assumptions C05w_reachable.
Print Assumptions C05w_tracked_resolves.
Print Assumptions C05w_live.
Print Assumptions C05w_readdirplus_last.
Print Assumptions C05w_readdirplus_earlier_refuted.
Print Assumptions C05w_bounded.
Print Assumptions C05w_bounded_cfg.
Print Assumptions C05w_bounded_step.
Print Assumptions C05w_same_handle.
Print Assumptions C05w_facts.
