(* Properties/C03.v — CREATE never destroys or silently reuses an existing object.
   Model: Model/Srv.v (handle_create / srv_create over Model/Backend.v), decoded requests.  Every theorem is for
   ALL server states s (any tree, symlinks included, any cache contents, any handle table), all credentials c, all
   directory handles h, all validated names n and all sattr3 values; "an object exists at the target name" is
   [be_stat (fs s) (d ++ [n]) false = Ok fi] (Lstat succeeds: a file with data, a directory, a symlink — dangling or
   not).  The hypotheses say that the request reaches the existence test: the export is writable, the name decodes and
   validates, the handle is live and names a directory whose GetAttr succeeds.  [fs s' = fs s] is equality of the whole
   backend tree: every byte, every attribute, every other object.

   Adjustments w.r.t. the plain-text statement (all forced by the model, i.e. by the Go code):
   * the mode of the sattr3 is validated BEFORE the existence test, so the status of a GUARDED / UNCHECKED-over-non-file
     request is NFS3ERR_EXIST for a valid mode and NFS3ERR_INVAL otherwise (the tree is unchanged in both cases);
   * the create mode is any N: values other than 0/1/2 are treated by the code as UNCHECKED without sattr3;
   * UNCHECKED with size >= 2^63 ignores the size (no truncation), size > MaxFileSize answers NFS3ERR_FBIG (no change);
   * EXCLUSIVE: the decoded request carries no verifier because the server never looks at it: the status clause of
     the property ("OK only for the retransmission") is refuted (known finding C03 k=1), the no-damage clause holds. *)
From Coq Require Import List NArith ZArith Bool.
From Verif Require Import Gen.Facts Model.Handles Model.Backend Model.Srv Proofs.SrvRO Proofs.SrvCreate.
Import ListNotations.
Open Scope N_scope.

(* ---------- GUARDED ---------- *)
Theorem C03_guarded : forall s c h (n : name) d da di fi,
  ro (conf s) = false -> validate_name n = st_ok -> str_ok n = true ->
  lookup_node s h = Some (d, da) -> na_kind da = KDir ->
  be_stat (fs s) d false = Ok di -> be_stat (fs s) (d ++ [n]) false = Ok fi ->
  forall sa,
  let r := step s c (RCreate h n 1 sa) in
  fs (fst r) = fs s /\ ob_rpc (snd r) = 0 /\
  (validate_mode (create_mode 1 sa) = st_ok -> ob_status (snd r) = NFSERR_EXIST) /\
  (validate_mode (create_mode 1 sa) <> st_ok -> ob_status (snd r) = NFSERR_INVAL).
Proof. exact step_create_guarded. Qed.

(* ---------- EXCLUSIVE ---------- *)
Theorem C03_exclusive_untouched : forall s c h (n : name) d da di fi,
  ro (conf s) = false -> validate_name n = st_ok -> str_ok n = true ->
  lookup_node s h = Some (d, da) -> na_kind da = KDir ->
  be_stat (fs s) d false = Ok di -> be_stat (fs s) (d ++ [n]) false = Ok fi ->
  forall sa, fs (fst (step s c (RCreate h n 2 sa))) = fs s.
Proof. exact step_create_exclusive_untouched. Qed.

(* the status never hides the object: OK (the object is handed back untouched) or EXIST *)
Theorem C03_exclusive_partial : forall s c h (n : name) d da di fi,
  ro (conf s) = false -> validate_name n = st_ok -> str_ok n = true ->
  lookup_node s h = Some (d, da) -> na_kind da = KDir ->
  be_stat (fs s) d false = Ok di -> be_stat (fs s) (d ++ [n]) false = Ok fi ->
  forall sa,
  let o := snd (step s c (RCreate h n 2 sa)) in
  ob_rpc o = 0 /\ (ob_status o = st_ok \/ ob_status o = NFSERR_EXIST).
Proof. exact step_create_exclusive_partial. Qed.

(* the full EXCLUSIVE clause: an EXCLUSIVE create over an object that no EXCLUSIVE create made must answer EXIST *)
Definition ex_cfg : cfg :=
  {| tsize := 65536; ro := false; maxfile := 0; attr_ttl := 5; attr_cap := 10; neg_on := true; neg_ttl := 5;
     dir_on := true; dir_ttl := 5; dir_cap := 10; dir_maxsize := 10 |}.
Definition sa_none : sattr :=
  {| s_mode := None; s_uid := None; s_gid := None; s_size := None; s_atime := 0; s_atime_v := 0; s_mtime := 0; s_mtime_v := 0 |}.
Definition C03_exclusive_statement : Prop :=
  forall s0 c1 c2 h (n : name) sa,
    let s1 := fst (step s0 c1 (RCreate h n 0 sa)) in      (* an UNCHECKED create makes the file ... *)
    ob_status (snd (step s0 c1 (RCreate h n 0 sa))) = st_ok ->
    ob_status (snd (step s1 c2 (RCreate h n 2 sa))) = NFSERR_EXIST.   (* ... so this is nobody's retransmission *)
(* refuted: uid 1000 creates "a" UNCHECKED, uid 2000 then creates "a" EXCLUSIVE and is told NFS3_OK (the tree is
   not touched).  Known finding C03 k=1: the suite requires NFS3_OK here. *)
Theorem C03_exclusive_status_refuted : ~ C03_exclusive_statement.
Proof.
  intros H.
  pose (c1 := {| c_uid := 1000; c_gid := 100; c_aux := [] |}). pose (c2 := {| c_uid := 2000; c_gid := 200; c_aux := [] |}).
  specialize (H (fst (step (srv_init ex_cfg 0 100) c1 (RMnt [47]))) c1 c2 1 [97] sa_none).
  vm_compute in H. specialize (H eq_refl). discriminate H.
Qed.

(* ---------- UNCHECKED ---------- *)
(* over a regular file, no size in the request: nothing changes *)
Theorem C03_unchecked_keep : forall s c h (n : name) d da di fi,
  ro (conf s) = false -> validate_name n = st_ok -> str_ok n = true ->
  lookup_node s h = Some (d, da) -> na_kind da = KDir ->
  be_stat (fs s) d false = Ok di -> be_stat (fs s) (d ++ [n]) false = Ok fi ->
  forall sa, fi_kind fi = KFile -> s_size sa = None -> fs (fst (step s c (RCreate h n 0 sa))) = fs s.
Proof. exact step_create_unchecked_keep. Qed.

(* over a directory or a symlink: EXIST, nothing changes *)
Theorem C03_unchecked_nonfile : forall s c h (n : name) d da di fi,
  ro (conf s) = false -> validate_name n = st_ok -> str_ok n = true ->
  lookup_node s h = Some (d, da) -> na_kind da = KDir ->
  be_stat (fs s) d false = Ok di -> be_stat (fs s) (d ++ [n]) false = Ok fi ->
  forall sa, fi_kind fi <> KFile ->
  let r := step s c (RCreate h n 0 sa) in
  fs (fst r) = fs s /\ ob_rpc (snd r) = 0 /\
  (validate_mode (create_mode 0 sa) = st_ok -> ob_status (snd r) = NFSERR_EXIST) /\
  (validate_mode (create_mode 0 sa) <> st_ok -> ob_status (snd r) = NFSERR_INVAL).
Proof. exact step_create_unchecked_nonfile. Qed.

(* over a regular file with an explicit size: the tree afterwards is exactly the tree with Truncate(size) applied to
   the object the name resolves to (valid mode, size < 2^63, within MaxFileSize), and otherwise unchanged *)
Theorem C03_unchecked_size : forall s c h (n : name) d da di fi,
  ro (conf s) = false -> validate_name n = st_ok -> str_ok n = true ->
  lookup_node s h = Some (d, da) -> na_kind da = KDir ->
  be_stat (fs s) d false = Ok di -> be_stat (fs s) (d ++ [n]) false = Ok fi ->
  forall sa sz, fi_kind fi = KFile -> s_size sa = Some sz ->
  let r := step s c (RCreate h n 0 sa) in
  exists q o, resolve (fs s) (d ++ [n]) false = WFound q o /\ fs_get (fs s) q = Some o /\ o_kind o = KFile /\
    (validate_mode (create_mode 0 sa) = st_ok -> sz < two63N -> within_limit s sz ->
       fs (fst r) = fs_upd (fs s) q (trunc_obj sz (now s))) /\
    (validate_mode (create_mode 0 sa) <> st_ok \/ two63N <= sz \/ ~ within_limit s sz -> fs (fst r) = fs s) /\
    (validate_mode (create_mode 0 sa) = st_ok -> sz < two63N -> ~ within_limit s sz -> ob_status (snd r) = NFSERR_FBIG).
Proof. exact step_create_unchecked_size. Qed.

(* ... hence, for any sattr3: every other path keeps its object, and the target keeps kind, mode, owner, group,
   symlink target and its durable contents; its size/data are untouched or exactly the requested truncation *)
Theorem C03_unchecked_frame : forall s c h (n : name) d da di fi,
  ro (conf s) = false -> validate_name n = st_ok -> str_ok n = true ->
  lookup_node s h = Some (d, da) -> na_kind da = KDir ->
  be_stat (fs s) d false = Ok di -> be_stat (fs s) (d ++ [n]) false = Ok fi ->
  forall sa, fi_kind fi = KFile ->
  let s' := fst (step s c (RCreate h n 0 sa)) in
  exists q o, resolve (fs s) (d ++ [n]) false = WFound q o /\ fs_get (fs s) q = Some o /\
    (forall q', q' <> q -> fs_get (fs s') q' = fs_get (fs s) q') /\
    exists o', fs_get (fs s') q = Some o' /\
      o_kind o' = o_kind o /\ o_perm o' = o_perm o /\ o_uid o' = o_uid o /\ o_gid o' = o_gid o /\
      o_target o' = o_target o /\ o_dsize o' = o_dsize o /\ o_ddata o' = o_ddata o /\
      (o' = o \/ exists sz, s_size sa = Some sz /\ o_size o' = sz /\ o_data o' = sd_trunc (o_data o) sz).
Proof. exact step_create_unchecked_frame. Qed.

(* ---------- every mode ---------- *)
(* no create mode (0, 1, 2, or any other number the decoder lets through) touches the tree when the name exists and
   the request sets no size *)
Theorem C03_no_mode_truncates : forall s c h (n : name) d da di fi,
  ro (conf s) = false -> validate_name n = st_ok -> str_ok n = true ->
  lookup_node s h = Some (d, da) -> na_kind da = KDir ->
  be_stat (fs s) d false = Ok di -> be_stat (fs s) (d ++ [n]) false = Ok fi ->
  forall how sa, s_size sa = None -> fs (fst (step s c (RCreate h n how sa))) = fs s.
Proof. exact step_create_no_size. Qed.

(* whatever the request: the tree is unchanged, or it is the UNCHECKED truncation of a regular file asked for by size *)
Theorem C03_exists_tree : forall s c h (n : name) d da di fi,
  ro (conf s) = false -> validate_name n = st_ok -> str_ok n = true ->
  lookup_node s h = Some (d, da) -> na_kind da = KDir ->
  be_stat (fs s) d false = Ok di -> be_stat (fs s) (d ++ [n]) false = Ok fi ->
  forall how sa,
  let s' := fst (step s c (RCreate h n how sa)) in
  fs s' = fs s \/ (how = 0 /\ fi_kind fi = KFile /\ exists sz, s_size sa = Some sz /\ sz < two63N /\ within_limit s sz /\
                   fs s' = fst (be_truncate (fs s) (d ++ [n]) (Z.of_N sz) (now s))).
Proof. exact step_create_exists_fs. Qed.

Theorem C03_facts : (c_NFSERR_EXIST =? 17)%Z && (c_NFSERR_INVAL =? 22)%Z && (c_NFSERR_FBIG =? 27)%Z = true.
Proof. vm_compute. reflexivity. Qed.

(* ---------- non-vacuity: a tree with a file holding "hello", a directory and a symlink ---------- *)
Definition ex_u1 : cred := {| c_uid := 1000; c_gid := 100; c_aux := [] |}.
Definition ex_u2 : cred := {| c_uid := 2000; c_gid := 200; c_aux := [] |}.
Definition ex_state : srv :=
  let s1 := fst (step (srv_init ex_cfg 0 100) ex_u1 (RMnt [47])) in                         (* handle 1 = "/" *)
  let s2 := fst (step s1 ex_u1 (RCreate 1 [97] 0 sa_none)) in                               (* "a", handle 2 *)
  let s3 := fst (step s2 ex_u1 (RWrite 2 0 5 0 [104; 101; 108; 108; 111])) in               (* "hello" *)
  let s4 := fst (step s3 ex_u1 (RMkdir 1 [100] sa_none)) in                                 (* "d" *)
  fst (step s4 ex_u1 (RSymlink 1 [108] sa_none [97])).                                      (* "l" -> "a" *)
Definition sa_size (z : N) : sattr :=
  {| s_mode := None; s_uid := None; s_gid := None; s_size := Some z; s_atime := 0; s_atime_v := 0; s_mtime := 0; s_mtime_v := 0 |}.
Definition file_bytes (s : srv) (p : path) : option (N * list N) :=
  match fs_get (fs s) p with Some o => Some (o_size o, sd_read (o_data o) 0 5) | None => None end.

(* the hypotheses of every theorem above are met by handle 1 and the names "a" (file with data), "d", "l" *)
Example C03_hypotheses_met :
  ro (conf ex_state) = false /\ validate_name [97] = st_ok /\ str_ok [97] = true /\
  (exists da, lookup_node ex_state 1 = Some ([], da) /\ na_kind da = KDir) /\
  (exists di, be_stat (fs ex_state) [] false = Ok di) /\
  (exists fi, be_stat (fs ex_state) ([] ++ [[97]]) false = Ok fi /\ fi_kind fi = KFile /\ fi_size fi = 5) /\
  (exists fi, be_stat (fs ex_state) ([] ++ [[100]]) false = Ok fi /\ fi_kind fi = KDir) /\
  (exists fi, be_stat (fs ex_state) ([] ++ [[108]]) false = Ok fi /\ fi_kind fi = KLink).
Proof. vm_compute. repeat split; eexists; repeat split. Qed.

(* GUARDED over the file with data: EXIST (17), the data intact; likewise over the directory and the symlink *)
Example C03_guarded_example :
  file_bytes ex_state [[97]] = Some (5, [104; 101; 108; 108; 111]) /\
  let r := step ex_state ex_u2 (RCreate 1 [97] 1 sa_none) in
  ob_status (snd r) = 17 /\ fs (fst r) = fs ex_state /\ file_bytes (fst r) [[97]] = Some (5, [104; 101; 108; 108; 111]) /\
  ob_status (snd (step ex_state ex_u2 (RCreate 1 [97] 1 (sa_size 0)))) = 17 /\
  fs (fst (step ex_state ex_u2 (RCreate 1 [97] 1 (sa_size 0)))) = fs ex_state /\
  ob_status (snd (step ex_state ex_u2 (RCreate 1 [100] 1 sa_none))) = 17 /\
  ob_status (snd (step ex_state ex_u2 (RCreate 1 [108] 1 sa_none))) = 17.
Proof. vm_compute. repeat split. Qed.

(* EXCLUSIVE over it: OK (known finding), data intact; UNCHECKED without size: OK, data intact; UNCHECKED with size 2:
   "he"; UNCHECKED over the directory / the symlink: EXIST *)
Example C03_other_modes_example :
  (let r := step ex_state ex_u2 (RCreate 1 [97] 2 sa_none) in
   ob_status (snd r) = 0 /\ file_bytes (fst r) [[97]] = Some (5, [104; 101; 108; 108; 111])) /\
  (let r := step ex_state ex_u2 (RCreate 1 [97] 0 sa_none) in
   ob_status (snd r) = 0 /\ fs (fst r) = fs ex_state) /\
  (let r := step ex_state ex_u2 (RCreate 1 [97] 0 (sa_size 2)) in
   ob_status (snd r) = 0 /\ file_bytes (fst r) [[97]] = Some (2, [104; 101; 0; 0; 0]) /\
   fs_get (fs (fst r)) [[100]] = fs_get (fs ex_state) [[100]] /\ fs_get (fs (fst r)) [[108]] = fs_get (fs ex_state) [[108]]) /\
  ob_status (snd (step ex_state ex_u2 (RCreate 1 [100] 0 sa_none))) = 17 /\
  ob_status (snd (step ex_state ex_u2 (RCreate 1 [108] 0 sa_none))) = 17 /\
  (* size beyond MaxFileSize: FBIG, nothing changes *)
  (let sm := fst (step ex_state ex_u1 (RSetMaxFile 3)) in
   let r := step sm ex_u2 (RCreate 1 [97] 0 (sa_size 4)) in
   ob_status (snd r) = 27 /\ fs (fst r) = fs ex_state).
Proof. vm_compute. repeat split. Qed.

Print Assumptions C03_guarded.
Print Assumptions C03_exclusive_untouched.
Print Assumptions C03_exclusive_partial.
Print Assumptions C03_exclusive_status_refuted.
Print Assumptions C03_unchecked_keep.
Print Assumptions C03_unchecked_nonfile.
Print Assumptions C03_unchecked_size.
Print Assumptions C03_unchecked_frame.
Print Assumptions C03_no_mode_truncates.
Print Assumptions C03_exists_tree.
Print Assumptions C03_facts.
