(* Properties/C13.v — in progress *)
