(* Properties/C13.v — XDR, RPC and record-marking codecs are exact and bounded.
   Only statements closed by [exact lemma], non-vacuity Examples and Print Assumptions live here.

   Reading guide.  A decoder maps the remaining stream to (result, rest of the stream, trace); the trace lists
   the input-dependent buffers the Go code allocates, in order ([Rd n]: make([]byte,n) filled from the reader,
   [Al n]: another allocation of n bytes) -- see Model/Xdr.v.  All limits are the guards of the current Go
   source (Gen/Facts.v); C13_facts pins them to the documented values.
   Every theorem is closed and quantifies over all values / all byte strings / all fragmentations. *)
From Coq Require Import List NArith ZArith Bool.
From Verif Require Import Gen.Facts Model.Bytes Model.Xdr Model.Rpc Model.RecordMark.
From Verif Require Import Proofs.BytesProofs Proofs.XdrProofs Proofs.RpcProofs Proofs.RecordMarkProofs.
Import ListNotations.
Open Scope N_scope.

(* ---- the documented limits are the ones the guards of the source use ---- *)
Theorem C13_facts :
  ((c_MAX_XDR_STRING_LENGTH =? 8192) && (f_string_limit =? c_MAX_XDR_STRING_LENGTH) &&
   (f_authsys_name_limit =? c_MAX_XDR_STRING_LENGTH) &&
   (c_MAX_RPC_AUTH_LENGTH =? 400) && (f_cred_limit =? c_MAX_RPC_AUTH_LENGTH) && (f_verf_limit =? c_MAX_RPC_AUTH_LENGTH) &&
   (f_fh_max_len =? 64) && (f_fh_len =? 8) && (f_fh_enc_len =? 8) &&
   (f_authsys_max_gids =? 16) &&
   (c_DefaultMaxRecordSize =? 1048576) && (f_reader_default_max =? c_DefaultMaxRecordSize) &&
   (f_reader_fallback_max =? c_DefaultMaxRecordSize) &&
   (c_LastFragmentFlag =? 2147483648) && (c_MaxFragmentSize =? 2147483647) &&
   (c_DefaultMaxFragmentSize =? 1048576) && (f_writer_default_frag =? c_DefaultMaxFragmentSize) &&
   (f_writer_fallback_frag =? c_DefaultMaxFragmentSize) && (f_writer_frag_cap =? c_MaxFragmentSize) &&
   (c_RPC_CALL =? 0) && (c_RPC_REPLY =? 1) && (c_MSG_ACCEPTED =? 0) && (c_SUCCESS =? 0) &&
   (c_PROG_MISMATCH =? 2) && (c_AUTH_ERROR =? 1) && (c_AUTH_SYS =? 1))%Z = true.
Proof. vm_compute. reflexivity. Qed.

(* ======================= round trips: decode (encode v ++ rest) = (v, rest) ======================= *)

Theorem C13_u32_roundtrip : forall v rest, v < 4294967296 ->
  dec_u32 (enc_u32 v ++ rest) = (Ok v, rest, [Rd 4]) /\ len (enc_u32 v) = 4.
Proof. exact u32_roundtrip_lemma. Qed.

Theorem C13_u64_roundtrip : forall v rest, v < 18446744073709551616 ->
  dec_u64 (enc_u64 v ++ rest) = (Ok v, rest, [Rd 8]) /\ len (enc_u64 v) = 8.
Proof. exact u64_roundtrip_lemma. Qed.

(* variable-length opaque with any limit (the credential / verifier shape): exactly 4 + n + pad bytes *)
Theorem C13_opaque_roundtrip : forall limit b rest, len b <= limit -> len b < 4294967296 ->
  dec_opaque limit (enc_opaque b ++ rest) = (Ok b, rest, opaque_trace (len b)) /\
  len (enc_opaque b) = 4 + len b + pad_len (len b) /\ len (enc_opaque b) mod 4 = 0.
Proof. exact opaque_roundtrip_lemma. Qed.

(* strings up to the limit: NUL-free ones come back, ones with a NUL byte are consumed entirely and then
   rejected (what xdrDecodeString does); in both cases exactly the padded length is consumed *)
Theorem C13_string_roundtrip : forall b rest, len b <= string_limit ->
  dec_string (enc_string b ++ rest) =
    ((if has_byte 0 b then Err ENul else Ok b), rest, opaque_trace (len b)) /\
  len (enc_string b) = 4 + len b + pad_len (len b) /\ len (enc_string b) mod 4 = 0.
Proof. exact string_roundtrip_lemma. Qed.

Theorem C13_fh_roundtrip : forall h rest, h < 18446744073709551616 ->
  dec_fh (enc_fh h ++ rest) = (Ok h, rest, [Rd 4; Rd 8]) /\ len (enc_fh h) = 12.
Proof. exact fh_roundtrip_lemma. Qed.

(* RPC call header: what follows the verifier (the procedure arguments) is left untouched *)
Theorem C13_call_roundtrip : forall c rest, call_ok c ->
  dec_call (enc_call c ++ rest) = (Ok c, rest, call_trace c) /\ len (enc_call c) mod 4 = 0.
Proof. exact call_roundtrip_lemma. Qed.

(* AUTH_SYS body: bytes after the last gid are ignored (ParseAuthSysCredential reads a slice) *)
Theorem C13_authsys_roundtrip : forall a rest, authsys_ok a ->
  parse_authsys (enc_authsys a ++ rest) = (Ok a, rest, authsys_trace a).
Proof. exact authsys_roundtrip_lemma. Qed.

(* EncodeRPCReply read back as an RFC 1831 reply header; the results follow *)
Theorem C13_reply_roundtrip : forall r rest, reply_ok r ->
  dec_ok (dec_reply (enc_reply r ++ rest)) = Some (reply_head r, reply_results r ++ rest).
Proof. exact dec_reply_enc. Qed.

(* truncation at EVERY cut point of an encoding is an error that exhausts the stream *)
Theorem C13_truncated :
  (forall v k, v < 4294967296 -> k < len (enc_u32 v) ->
     exists t, dec_u32 (take k (enc_u32 v)) = (Err EShort, [], t)) /\
  (forall v k, v < 18446744073709551616 -> k < len (enc_u64 v) ->
     exists t, dec_u64 (take k (enc_u64 v)) = (Err EShort, [], t)) /\
  (forall limit b k, len b <= limit -> len b < 4294967296 -> k < len (enc_opaque b) ->
     exists t, dec_opaque limit (take k (enc_opaque b)) = (Err EShort, [], t)) /\
  (forall b k, len b <= string_limit -> has_byte 0 b = false -> k < len (enc_string b) ->
     exists t, dec_string (take k (enc_string b)) = (Err EShort, [], t)) /\
  (forall h k, h < 18446744073709551616 -> k < len (enc_fh h) ->
     exists t, dec_fh (take k (enc_fh h)) = (Err EShort, [], t)).
Proof. exact xdr_truncated_lemma. Qed.

Theorem C13_call_truncated : forall c k, call_ok c -> k < len (enc_call c) ->
  exists t, dec_call (take k (enc_call c)) = (Err EShort, [], t).
Proof. exact call_truncated_lemma. Qed.

(* a truncated AUTH_SYS body is rejected: the empty one as "empty", every other proper prefix as short *)
Theorem C13_authsys_truncated : forall a k, authsys_ok a -> k < len (enc_authsys a) ->
  o_res (parse_authsys (take k (enc_authsys a))) = Err (if k =? 0 then EEmpty else EShort).
Proof. exact parse_authsys_truncated. Qed.

(* ======================= bounds: rejected before any allocation of that size ======================= *)
(* Shape of every statement: (1) on EVERY input every allocation is at most the limit; (2) a declared length
   above the limit gives ELimit with the stream left right behind the length word and a trace that holds only the
   4-byte words read so far.  With the round trips this fixes the behaviour at limit-1 and limit (accepted,
   C13_*_roundtrip has [len <= limit]) and at limit+1 (rejected, hypothesis [limit < declared]). *)

Theorem C13_bounds_string :
  (forall s, tr_le string_limit (o_trace (dec_string s))) /\
  (forall s, 4 <= len s -> string_limit < be_dec (take 4 s) ->
     dec_string s = (Err ELimit, drop 4 s, [Rd 4])).
Proof. exact string_bounds_lemma. Qed.

Theorem C13_bounds_opaque : forall limit, 4 <= limit ->
  (forall s, tr_le limit (o_trace (dec_opaque limit s))) /\
  (forall s, 4 <= len s -> limit < be_dec (take 4 s) ->
     dec_opaque limit s = (Err ELimit, drop 4 s, [Rd 4])).
Proof. exact opaque_bounds_lemma. Qed.

(* file handle: > 64 rejected at once; <= 64 but not 8: the padded bytes are consumed (at most 64), then rejected *)
Theorem C13_bounds_fh :
  (forall s, tr_le fh_max_len (o_trace (dec_fh s))) /\
  (forall s, 4 <= len s -> fh_max_len < be_dec (take 4 s) ->
     dec_fh s = (Err ELimit, drop 4 s, [Rd 4])) /\
  (forall n data rest, n <= fh_max_len -> n <> fh_len -> len data = n + pad_len n ->
     dec_fh (enc_u32 n ++ data ++ rest) = (Err EBadLen, rest, [Rd 4] ++ rd (n + pad_len n))).
Proof. exact fh_bounds_lemma. Qed.

(* call header: credential and verifier bodies (auth body 400) *)
Theorem C13_bounds_call :
  (forall s, tr_le cred_limit (o_trace (dec_call s))) /\
  (forall xid rv prog vers proc cf n rest,
     u32 xid -> u32 rv -> u32 prog -> u32 vers -> u32 proc -> u32 cf -> u32 n -> cred_limit < n ->
     dec_call (enc_u32 xid ++ enc_u32 rpc_call ++ enc_u32 rv ++ enc_u32 prog ++ enc_u32 vers ++ enc_u32 proc ++
               enc_u32 cf ++ enc_u32 n ++ rest)
     = (Err ELimit, rest, [Rd 4] ++ [Rd 4] ++ [Rd 4] ++ [Rd 4] ++ [Rd 4] ++ [Rd 4] ++ [Rd 4] ++ [Rd 4])) /\
  (forall xid rv prog vers proc cf cb vf n rest,
     u32 xid -> u32 rv -> u32 prog -> u32 vers -> u32 proc -> u32 cf -> len cb <= cred_limit -> u32 vf ->
     u32 n -> verf_limit < n ->
     dec_call (enc_u32 xid ++ enc_u32 rpc_call ++ enc_u32 rv ++ enc_u32 prog ++ enc_u32 vers ++ enc_u32 proc ++
               enc_u32 cf ++ enc_opaque cb ++ enc_u32 vf ++ enc_u32 n ++ rest)
     = (Err ELimit, rest, [Rd 4] ++ [Rd 4] ++ [Rd 4] ++ [Rd 4] ++ [Rd 4] ++ [Rd 4] ++ [Rd 4] ++
                          opaque_trace (len cb) ++ [Rd 4] ++ [Rd 4])).
Proof. exact call_bounds_lemma. Qed.

(* AUTH_SYS: 16 auxiliary gids, machine name within the string limit.  (1) any body: allocations within the
   name limit; (2) any accepted body has <= 16 gids and a name within the limit; (3) a count above 16 is
   rejected and the gid array is never allocated; (4) an over-long name is rejected with no allocation at all *)
Theorem C13_bounds_authsys :
  (forall body, tr_le authsys_name_limit (o_trace (parse_authsys body))) /\
  (forall body a rest t, parse_authsys body = (Ok a, rest, t) ->
     len (a_gids a) <= authsys_max_gids /\ len (a_machine a) <= authsys_name_limit) /\
  (forall stamp name uid gid n rest,
     u32 stamp -> len name <= authsys_name_limit -> u32 uid -> u32 gid -> u32 n -> authsys_max_gids < n ->
     parse_authsys (enc_u32 stamp ++ enc_opaque name ++ enc_u32 uid ++ enc_u32 gid ++ enc_u32 n ++ rest)
     = (Err ELimit, rest, [] ++ ([] ++ al (len name)) ++ [] ++ [] ++ [] ++ [])) /\
  (forall stamp n rest, u32 stamp -> u32 n -> authsys_name_limit < n ->
     parse_authsys (enc_u32 stamp ++ enc_u32 n ++ rest) = (Err ELimit, rest, [] ++ [] ++ [])).
Proof. exact authsys_bounds_lemma. Qed.

(* record marking (record 1 MiB by default): (1) any stream: every fragment buffer and the result copy are within
   the limit (4 = a header); (2) a returned record is within the limit; (3) a first header announcing more than
   the limit is rejected before the fragment buffer exists; (4) the same at any later point of the record
   (running total: acc = bytes accumulated so far); (5) the model's fuel is never exhausted *)
Theorem C13_bounds_record :
  (forall mx s, tr_le (N.max 4 (eff_max mx)) (o_trace (read_record mx s))) /\
  (forall mx s r s' t, read_record mx s = (Ok r, s', t) -> len r <= eff_max mx) /\
  (forall mx s, 4 <= len s -> eff_max mx < be_dec (take 4 s) mod last_flag ->
     read_record mx s = (Err ELimit, drop 4 s, [Rd 4])) /\
  (forall fuel emax acc s, 4 <= len s -> emax < len acc + be_dec (take 4 s) mod last_flag ->
     rr (S fuel) emax acc s = (Err ELimit, drop 4 s, [Rd 4] ++ [])) /\
  (forall mx s, o_res (read_record mx s) <> Err EFuel).
Proof. exact record_bounds_lemma. Qed.

(* ======================= record marking ======================= *)

(* EVERY split of a record into fragments -- empty fragments allowed anywhere, also as the last one -- is
   reassembled into the record, and the rest of the stream is left alone.  [frs] is the fragmentation,
   [concat frs] the record. *)
Theorem C13_fragments : forall mx frs rest,
  frs <> [] -> len (concat frs) <= eff_max mx -> Forall (fun f => len f < last_flag) frs ->
  read_record mx (enc_frags frs ++ rest) = (Ok (concat frs), rest, frags_trace 0 frs).
Proof. exact fragments_lemma. Qed.

(* the same, stated over the record r, for every limit below 2^31 (the default 1 MiB in particular): no
   hypothesis on the individual fragments is needed *)
Theorem C13_fragments_record : forall mx r frs rest,
  eff_max mx < last_flag -> frs <> [] -> concat frs = r -> len r <= eff_max mx ->
  dec_ok (read_record mx (enc_frags frs ++ rest)) = Some (r, rest).
Proof. exact fragments_small_lemma. Qed.

(* reader (writer r) = r for every record within the reader's limit and EVERY configured maximum fragment size
   mf : Z (NewRecordMarkingWriterWithSize maps mf <= 0 and mf > 2^31-1 to the default) *)
Theorem C13_write_read : forall mx mf r rest, len r <= eff_max mx ->
  dec_ok (read_record mx (write_record mf r ++ rest)) = Some (r, rest).
Proof. exact write_read_lemma. Qed.

(* what the writer emits IS a fragmentation of its argument, with fragments within the maximum fragment size and,
   for a non-empty record, no empty fragment *)
Theorem C13_writer_shape : forall mf data,
  exists frs, frs <> [] /\ concat frs = data /\ Forall (fun f => len f <= eff_frag mf) frs /\
              (data <> [] -> Forall (fun f => 0 < len f) frs) /\ write_record mf data = enc_frags frs.
Proof. exact writer_shape_lemma. Qed.

(* ======================= non-vacuity ======================= *)
(* Examples are stated through the boolean equalities of the model ([out_eqb] compares result, rest and trace)
   so that vm_compute reduces them to [true = true] and no large term is re-checked. *)
Definition ex_bytes (n : N) (b : N) : bytes := repeat b (N.to_nat n).
Definition N_list_eqb : list N -> list N -> bool := bytes_eqb.

(* strings at limit-1 and limit are accepted, limit+1 is rejected with only the length word read;
   a NUL byte is rejected after the padded string was consumed *)
Example C13_string_boundary :
  (len (ex_bytes 8191 65) <=? string_limit) && (len (ex_bytes 8192 65) <=? string_limit) &&
  negb (string_limit <? 8192) && negb (has_byte 0 (ex_bytes 8192 65)) &&
  out_eqb bytes_eqb (dec_string (enc_string (ex_bytes 8191 65) ++ [7])) (Ok (ex_bytes 8191 65), [7], [Rd 4; Rd 8191; Rd 1]) &&
  out_eqb bytes_eqb (dec_string (enc_string (ex_bytes 8192 65) ++ [7])) (Ok (ex_bytes 8192 65), [7], [Rd 4; Rd 8192]) &&
  out_eqb bytes_eqb (dec_string (enc_string (ex_bytes 8193 65) ++ [7]))
                    (Err ELimit, ex_bytes 8193 65 ++ [0; 0; 0; 7], [Rd 4]) &&
  out_eqb bytes_eqb (dec_string (enc_string [104; 0; 105] ++ [7])) (Err ENul, [7], [Rd 4; Rd 3; Rd 1]) = true.
Proof. vm_compute. reflexivity. Qed.

(* handles: 8 accepted; 63, 64 (<= 64, not 8) consumed and rejected; 65 rejected at once; 0 rejected *)
Example C13_fh_boundary :
  out_eqb N.eqb (dec_fh (enc_fh 18446744073709551615 ++ [9])) (Ok 18446744073709551615, [9], [Rd 4; Rd 8]) &&
  out_eqb N.eqb (dec_fh (enc_u32 63 ++ ex_bytes 64 1 ++ [9])) (Err EBadLen, [9], [Rd 4; Rd 64]) &&
  out_eqb N.eqb (dec_fh (enc_u32 64 ++ ex_bytes 64 1 ++ [9])) (Err EBadLen, [9], [Rd 4; Rd 64]) &&
  out_eqb N.eqb (dec_fh (enc_u32 65 ++ ex_bytes 68 1 ++ [9])) (Err ELimit, ex_bytes 68 1 ++ [9], [Rd 4]) &&
  out_eqb N.eqb (dec_fh (enc_u32 0 ++ [9])) (Err EBadLen, [9], [Rd 4]) = true.
Proof. vm_compute. reflexivity. Qed.

Definition ex_call : call :=
  mkCall 305419896 2 100003 3 1 1 (ex_bytes 399 7) 0 (ex_bytes 400 8).
Example C13_call_ok_witness : call_ok ex_call.
Proof. unfold call_ok, u32. vm_compute. repeat split; discriminate. Qed.
Example C13_call_nontrivial :
  out_eqb call_eqb (dec_call (enc_call ex_call ++ [1; 2; 3]))
     (Ok ex_call, [1; 2; 3],
      [Rd 4; Rd 4; Rd 4; Rd 4; Rd 4; Rd 4; Rd 4; Rd 4; Rd 399; Rd 1; Rd 4; Rd 4; Rd 400]) &&
  (* a credential of 401 bytes: rejected behind the length word, eight words read *)
  out_eqb call_eqb (dec_call (enc_call (mkCall 1 2 3 4 5 1 (ex_bytes 401 7) 0 [])))
     (Err ELimit, ex_bytes 401 7 ++ [0; 0; 0] ++ enc_u32 0 ++ enc_u32 0,
      [Rd 4; Rd 4; Rd 4; Rd 4; Rd 4; Rd 4; Rd 4; Rd 4]) &&
  (* a verifier of 401 bytes behind a 400-byte credential *)
  res_eqb call_eqb (o_res (dec_call (enc_call (mkCall 1 2 3 4 5 1 (ex_bytes 400 7) 0 (ex_bytes 401 1))))) (Err ELimit) &&
  trace_eqb (o_trace (dec_call (enc_call (mkCall 1 2 3 4 5 1 (ex_bytes 400 7) 0 (ex_bytes 401 1)))))
     [Rd 4; Rd 4; Rd 4; Rd 4; Rd 4; Rd 4; Rd 4; Rd 4; Rd 400; Rd 4; Rd 4] = true.
Proof. vm_compute. reflexivity. Qed.

Definition ex_authsys (k : N) : authsys := mkAuthSys 77 [104; 111; 115; 116; 0] 1000 100 (ex_bytes k 4294967295).
Example C13_authsys_ok_witness : authsys_ok (ex_authsys 16).
Proof.
  unfold authsys_ok, u32. cbn [ex_authsys a_stamp a_machine a_uid a_gid a_gids].
  split; [reflexivity|]. split; [vm_compute; discriminate|]. split; [reflexivity|]. split; [reflexivity|].
  split; [vm_compute; discriminate|].
  unfold ex_bytes. cbn [N.to_nat Pos.to_nat Pos.iter_op Nat.add repeat].
  repeat (constructor; [reflexivity|]). constructor.
Qed.
Example C13_authsys_boundary :
  out_eqb authsys_eqb (parse_authsys (enc_authsys (ex_authsys 15) ++ [1])) (Ok (ex_authsys 15), [1], [Al 5; Al 60]) &&
  out_eqb authsys_eqb (parse_authsys (enc_authsys (ex_authsys 16) ++ [1])) (Ok (ex_authsys 16), [1], [Al 5; Al 64]) &&
  out_eqb authsys_eqb (parse_authsys (enc_authsys (ex_authsys 17) ++ [1]))
     (Err ELimit, concat (map enc_u32 (ex_bytes 17 4294967295)) ++ [1], [Al 5]) &&
  out_eqb authsys_eqb (parse_authsys []) (Err EEmpty, [], []) = true.
Proof. vm_compute. reflexivity. Qed.

(* a record split into five fragments, two of them empty (one of these the last), followed by the next record *)
Definition ex_frs : list bytes := [[1; 2; 3]; []; [4]; [5; 6; 7; 8; 9]; []].
Example C13_fragments_hyps :
  ex_frs <> [] /\ len (concat ex_frs) <= eff_max reader_default_max /\ Forall (fun f => len f < last_flag) ex_frs.
Proof. split; [discriminate|]. split; [vm_compute; discriminate|]. repeat constructor. Qed.
Example C13_fragments_nontrivial :
  out_eqb bytes_eqb (read_record reader_default_max (enc_frags ex_frs ++ [0; 0; 0; 1]))
    (Ok [1; 2; 3; 4; 5; 6; 7; 8; 9], [0; 0; 0; 1], [Rd 4; Rd 3; Rd 4; Rd 4; Rd 1; Rd 4; Rd 5; Rd 4; Al 9]) &&
  (* limit 8: the fragment that would make 9 bytes is refused before its buffer is allocated *)
  out_eqb bytes_eqb (read_record 8 (enc_frags ex_frs))
    (Err ELimit, [5; 6; 7; 8; 9; 128; 0; 0; 0], [Rd 4; Rd 3; Rd 4; Rd 4; Rd 1; Rd 4]) &&
  (* limit 9 accepts *)
  res_eqb bytes_eqb (o_res (read_record 9 (enc_frags ex_frs))) (Ok [1; 2; 3; 4; 5; 6; 7; 8; 9]) = true.
Proof. vm_compute. reflexivity. Qed.

(* the writer with maximum fragment size 4 on a 10-byte record: 4 + 4 + 2, last-fragment bit on the third *)
Example C13_write_read_nontrivial :
  bytes_eqb (write_record 4 [1; 2; 3; 4; 5; 6; 7; 8; 9; 10])
            [0; 0; 0; 4; 1; 2; 3; 4; 0; 0; 0; 4; 5; 6; 7; 8; 128; 0; 0; 2; 9; 10] &&
  bytes_eqb (write_record 4 []) [128; 0; 0; 0] &&
  (eff_frag 0 =? 1048576) && (eff_frag (-5) =? 1048576) && (eff_frag 2147483648 =? 1048576) && (eff_frag 7 =? 7) &&
  out_eqb bytes_eqb (read_record 0 (write_record 4 [1; 2; 3; 4; 5; 6; 7; 8; 9; 10] ++ [42]))
    (Ok [1; 2; 3; 4; 5; 6; 7; 8; 9; 10], [42], [Rd 4; Rd 4; Rd 4; Rd 4; Rd 4; Rd 2; Al 10]) = true.
Proof. vm_compute. reflexivity. Qed.

(* One Print Assumptions over the tuple of ALL theorems above: an axiom used by any of them would be listed here
   (22 separate prints cost 0.5 s each; the check counts "Closed under the global context"). *)
Definition C13_all :=
  (C13_facts, C13_u32_roundtrip, C13_u64_roundtrip, C13_opaque_roundtrip, C13_string_roundtrip, C13_fh_roundtrip,
   C13_call_roundtrip, C13_authsys_roundtrip, C13_reply_roundtrip, C13_truncated, C13_call_truncated,
   C13_authsys_truncated, C13_bounds_string, C13_bounds_opaque, C13_bounds_fh, C13_bounds_call, C13_bounds_authsys,
   C13_bounds_record, C13_fragments, C13_fragments_record, C13_write_read, C13_writer_shape).
Print Assumptions C13_all.
