(* Properties/C22.v — Acknowledged FILE_SYNC writes are durable.
   Model: Model/Srv.v (WRITE, COMMIT handlers) over Model/Backend.v, whose objects carry volatile (o_size, o_data)
   and durable (o_dsize, o_ddata) contents; be_sync copies volatile to durable; be_crash replaces the volatile
   contents of every regular file by the durable ones (everything not synced is discarded).
   Specification: Proofs/BackendData.v section 0 (spec_write, file_of, bf_eq).
   All theorems are for ALL server states; hypotheses as in Properties/C01.v (C01_write). *)
From Coq Require Import List NArith ZArith Bool.
From Verif Require Import Gen.Facts Model.Handles Model.Backend Model.Srv Proofs.SrvRO Proofs.BackendData Proofs.SrvData.
Import ListNotations.
Open Scope N_scope.

(* ---------- what a crash does ---------- *)
(* no path appears or disappears; directories and symlinks are untouched; a regular file keeps kind, permissions,
   owner, mtime, and its (size, bytes) become its durable (size, bytes) *)
Theorem C22_crash_frame : forall fs p,
  match fs_get fs p with
  | None => fs_get (be_crash fs) p = None
  | Some o => exists oc, fs_get (be_crash fs) p = Some oc /\
                o_kind oc = o_kind o /\ o_perm oc = o_perm o /\ o_uid oc = o_uid o /\ o_gid oc = o_gid o /\
                o_mtime oc = o_mtime o /\ o_target oc = o_target o /\
                (o_kind o <> KFile -> oc = o) /\ (o_kind o = KFile -> file_of oc = durable_of o /\ durable_of oc = durable_of o)
  end.
Proof. exact be_crash_frame. Qed.

(* ---------- WRITE ---------- *)
(* under C01_write's hypotheses the WRITE answers OK with committed = FILE_SYNC, and in the tree AFTER A CRASH the
   file at p holds exactly spec_write of the old file (payload at [off, off+cnt), size max(old, off+cnt)), with
   kind, permissions and owner kept; every other path is after the crash what it would have been without the WRITE *)
Theorem C22_durable : forall s h p na o off cnt stable data,
  lookup_node s h = Some (p, na) -> na_kind na <> KLink -> plain_file (fs s) p o -> nodup_keys (fs s) ->
  ro (conf s) = false -> cnt = N.of_nat (length data) -> cnt <= tsize (conf s) ->
  off + cnt < two63N -> (maxfile (conf s) = 0 \/ cnt = 0 \/ off + cnt <= maxfile (conf s)) ->
  let r := handle_write s h off cnt stable data in
  ob_status (snd r) = 0 /\ ob_nums (snd r) = [cnt; FILE_SYNC] /\
  (exists oc, fs_get (be_crash (fs (fst r))) p = Some oc /\ o_kind oc = KFile /\
              o_perm oc = o_perm o /\ o_uid oc = o_uid o /\ o_gid oc = o_gid o /\
              bf_eq (file_of oc) (spec_write (file_of o) off data cnt)) /\
  (forall p', p' <> p -> fs_get (be_crash (fs (fst r))) p' = fs_get (be_crash (fs s)) p').
Proof. exact handle_write_durable. Qed.

(* ---------- COMMIT ---------- *)
(* COMMIT never changes the tree or the configuration and makes no mutating backend call; when it answers OK the
   reply is exactly GetAttr's attributes.  It has nothing to flush: by C22_durable every acknowledged WRITE is
   already durable, whatever [stable] the client asked for *)
Theorem C22_commit : forall s h,
  let r := handle_commit s h in
  (fs (fst r) = fs s /\ conf (fst r) = conf s /\
   ((forall b, In b (blog s) -> mutating b = false) -> forall b, In b (blog (fst r)) -> mutating b = false)) /\
  (ob_status (snd r) = 0 -> exists p na a, lookup_node s h = Some (p, na) /\ snd (getattr_h s h p) = Ok a /\
                                      snd r = ob_mk st_ok [sf a] [wcc_of a] None [] []).
Proof. exact handle_commit_spec. Qed.

(* ---------- the committed word ---------- *)
(* FILE_SYNC is 2 (RFC 1813 stable_how), and EVERY WRITE that answers OK, in any state and for any arguments,
   carries committed = FILE_SYNC.  (The Go handler writes the literal 2; the C01 correspondence run compares the
   count/committed words of every WRITE reply of the implementation with this model.) *)
Theorem C22_facts :
  FILE_SYNC = 2 /\
  forall s h off cnt stable data,
    ob_status (snd (handle_write s h off cnt stable data)) = 0 ->
    exists n, ob_nums (snd (handle_write s h off cnt stable data)) = [n; FILE_SYNC].
Proof. exact (conj eq_refl handle_write_committed). Qed.

(* ---------- non-vacuity ---------- *)
(* on the backend alone: a WriteAt that is NOT followed by Sync IS lost by a crash, one that is synced survives *)
Example C22_unsynced_lost_example :
  let fs0 := fs_set fs_init [[97]] (mk_file 420 7) in
  let fs1 := fst (be_writeat fs0 [[97]] 0 [65; 66] 9) in
  option_map (fun o => (o_size o, o_data o)) (fs_get fs1 [[97]]) = Some (2, [(1, 66); (0, 65)]) /\
  option_map (fun o => (o_size o, o_data o)) (fs_get (be_crash fs1) [[97]]) = Some (0, []) /\
  option_map (fun o => (o_size o, o_data o)) (fs_get (be_crash (be_sync fs1 [[97]])) [[97]]) = Some (2, [(1, 66); (0, 65)]).
Proof. vm_compute. repeat split; reflexivity. Qed.

(* through the server: WRITE (UNSTABLE requested) of "AB" at 5, crash, the bytes are there; COMMIT changes nothing *)
Example C22_nontrivial :
  let c0 := {| tsize := 16; ro := false; maxfile := 0; attr_ttl := 5; attr_cap := 10; neg_on := true; neg_ttl := 5;
               dir_on := true; dir_ttl := 5; dir_cap := 10; dir_maxsize := 10 |} in
  let cr := {| c_uid := 0; c_gid := 0; c_aux := [] |} in
  let s0 := srv_init_fs (fs_set fs_init [[97]] (mk_file 420 7)) c0 0 100 in
  let s1 := fst (step s0 cr (RMnt [47])) in
  let s2 := fst (step s1 cr (RLookup 1 [97])) in
  let w := step s2 cr (RWrite 2 5 2 0 [65; 66]) in
  ob_status (snd w) = 0 /\ ob_nums (snd w) = [2; FILE_SYNC] /\
  option_map (fun o => (o_size o, sd_read (o_data o) 0 7)) (fs_get (be_crash (fs (fst w))) [[97]])
    = Some (7, [0; 0; 0; 0; 0; 65; 66]) /\
  (let k := step (fst w) cr (RCommit 2 0 0) in ob_status (snd k) = 0 /\ fs (fst k) = fs (fst w)).
Proof. vm_compute. repeat split; reflexivity. Qed.

Print Assumptions C22_crash_frame.
Print Assumptions C22_durable.
Print Assumptions C22_commit.
Print Assumptions C22_facts.
