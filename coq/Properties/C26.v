(* Properties/C26.v — Directory listings page completely and respect the client's size limit.
   Model: Model/Srv.v [page] (the loop shared by handleReaddir / handleReaddirplus), [handle_readdir],
   [handle_readdirplus], [srv_readdir], [refresh_all], [alloc_all].  Proofs: Proofs/Paging.v.
   Every theorem is for ALL directories (any list of entries, names of any length), all cookies (also beyond the end),
   all count / maxcount values (from 0), both procedures; the handler theorems for all coherent server states
   (Good of Proofs/SrvCoh.v: well-formed tree without symbolic links, ".."-free handle paths, coherent caches - any
   cache contents and configuration, directory cache on or off).

   Vocabulary:
     enc_len plus nls            exact byte length of the encoded READDIR3resok / READDIRPLUS3resok whose entries have
                                 names of lengths nls, from the RFC 1813 layout (status 4, post_op_attr 4+84,
                                 cookieverf 8; per entry value_follows 4, fileid 8, name 4+pad4(len), cookie 8
                                 [+ post_op_attr 88 + post_op_fh3 4+4+8]; end marker 4, eof 4)
     remaining cookie l          the entries at index >= cookie
     number c xs                 xs paired with the cookies c+1, c+2, ...
     slice_ok plus d names ...   a reply is the slice names[cookie .. cookie+k) with cookies cookie+1.., each fileid =
                                 FNV-1a(path), eof iff nothing remains, k >= 1 if something remains, and fits the limit
                                 when k >= 2 or when the limit can hold the first remaining entry
   Known finding k=1 (C26_fits_refuted): a limit below header + first remaining entry + trailer (or below the 108-byte
   empty reply) is answered with that reply anyway; the code never answers NFS3ERR_TOOSMALL (C26_never_toosmall).
   The existing suite demands NFS3_OK for count = 50. *)
From Coq Require Import String List NArith ZArith Bool.
From Verif Require Import Gen.Facts Model.Handles Model.Backend Model.Srv Model.DirEnc
  Proofs.BackendWF Proofs.SrvPaths Proofs.SrvAttrs Proofs.SrvCoh Proofs.Paging.
Import ListNotations.
Open Scope N_scope.

(* ---------- the literals of the Go loops (astfacts x_paging.go) ---------- *)
Theorem C26_facts :
  f_readdir_entry_fixed = [4; 8; 4; 8]%Z /\ f_readdirplus_entry_fixed = [4; 8; 4; 8; 88; 16]%Z /\
  f_readdir_entry_pad = (3, 3)%Z /\ f_readdirplus_entry_pad = (3, 3)%Z /\
  f_readdir_pad_index = 3%Z /\ f_readdirplus_pad_index = 3%Z /\
  f_readdir_trailer = 8%Z /\ f_readdirplus_trailer = 8%Z /\
  f_readdir_limit_var = "count"%string /\ f_readdirplus_limit_var = "maxCount"%string /\
  f_readdir_guard_first_free = true /\ f_readdirplus_guard_first_free = true /\
  f_readdir_cookie_plus = 1%Z /\ f_readdirplus_cookie_plus = 1%Z /\
  f_readdir_skip_below_cookie = true /\ f_readdirplus_skip_below_cookie = true /\ f_fh_enc_len = 8%Z.
Proof. vm_compute. repeat split; reflexivity. Qed.
(* the model's entry size is the sum of exactly those literals, and equals the RFC layout *)
Theorem C26_entry_size : forall plus e,
  esize plus e = Z.to_N (fold_right Z.add 0%Z (if plus then f_readdirplus_entry_fixed else f_readdir_entry_fixed)) + pad4 (namelen e) /\
  esize plus e = rfc_entry_len plus (namelen e) /\
  dir_header_len = rfc_header_len /\ Z.to_N f_readdir_trailer = rfc_trailer_len /\ Z.to_N f_readdirplus_trailer = rfc_trailer_len /\
  pad4 (namelen e) = (namelen e + Z.to_N (fst f_readdir_entry_pad)) / 4 * 4.
Proof. exact entry_size_facts. Qed.

(* ---------- closed form of the paging loop; the running length is the encoded length ---------- *)
Theorem C26_page_spec : forall plus limit cookie len l,
  let rem := remaining cookie l in
  let k := fit plus limit 0 len rem in
  page plus limit 0 cookie 0 len l = (number cookie (firstn k rem), Nat.ltb k (length rem)).
Proof. exact page_spec. Qed.
Theorem C26_enc_len : forall plus limit cookie l,
  let pl := page plus limit 0 cookie 0 dir_header_len l in
  enc_len_page plus (fst pl) = dir_header_len + esum plus (map snd (fst pl)) + 8.
Proof. exact page_entries_len. Qed.

(* ---------- size ---------- *)
(* two or more entries: always within the limit; one entry: it is the first remaining one and the reply has exactly
   header + entry + trailer bytes (which may exceed the limit: the known finding) *)
Theorem C26_fits : forall plus limit cookie l,
  let pg := fst (page plus limit 0 cookie 0 dir_header_len l) in
  ((2 <= length pg)%nat -> enc_len_page plus pg <= limit) /\
  (length pg = 1%nat -> exists e r, remaining cookie l = e :: r /\ map snd pg = [e] /\
                                  enc_len_page plus pg = dir_header_len + esize plus e + 8).
Proof. exact fits_both. Qed.
(* for every limit that can hold the header, the first remaining entry and the trailer (the 108-byte empty reply
   when nothing remains) the reply is within the limit *)
Theorem C26_fits_partial : forall plus limit cookie l,
  match remaining cookie l with [] => dir_header_len + 8 <= limit | e :: _ => dir_header_len + esize plus e + 8 <= limit end ->
  enc_len_page plus (fst (page plus limit 0 cookie 0 dir_header_len l)) <= limit.
Proof. exact page_fits_partial. Qed.
(* the full size statement (no TOOSMALL in the code, so every reply would have to fit) is false: known finding k=1 *)
Definition C26_fits_statement : Prop := fits_statement.
Theorem C26_fits_refuted : ~ C26_fits_statement.
Proof. exact fits_refuted. Qed.
Theorem C26_never_toosmall : forall s h cookie limit,
  ob_status (snd (handle_readdir s h cookie limit)) <> NFS3ERR_TOOSMALL /\
  ob_status (snd (handle_readdirplus s h cookie limit)) <> NFS3ERR_TOOSMALL.
Proof. exact never_toosmall. Qed.
(* pages are as full as the limit allows: the loop stops only in front of an entry that does not fit *)
Theorem C26_maximal : forall plus limit cookie l,
  let pl := page plus limit 0 cookie 0 dir_header_len l in
  snd pl = true ->
  exists e, nth_error (remaining cookie l) (length (fst pl)) = Some e /\ limit < enc_len_page plus (fst pl) + esize plus e.
Proof. exact page_maximal_len. Qed.

(* ---------- progress ---------- *)
Theorem C26_progress : forall plus limit cookie l,
  cookie < N.of_nat (length l) -> (1 <= length (fst (page plus limit 0 cookie 0 dir_header_len l)))%nat.
Proof. exact page_progress_idx. Qed.

(* ---------- cookies ---------- *)
(* the page is exactly l[cookie .. cookie+k) carrying the cookies cookie+1 .. cookie+k; reachedLimit iff entries
   remain behind the page; eof = not reachedLimit (handler theorems below) *)
Theorem C26_cookies : forall plus limit cookie l,
  let pg := fst (page plus limit 0 cookie 0 dir_header_len l) in
  let lim := snd (page plus limit 0 cookie 0 dir_header_len l) in
  let k := fit plus limit 0 dir_header_len (remaining cookie l) in
  map snd pg = firstn k (remaining cookie l) /\
  map fst pg = map (fun j => cookie + 1 + N.of_nat j) (seq 0 k) /\
  lim = Nat.ltb k (length (remaining cookie l)) /\
  (lim = false -> map snd pg = remaining cookie l) /\
  (forall j e, nth_error pg j = Some e -> fst e = cookie + 1 + N.of_nat j /\ nth_error l (N.to_nat cookie + j) = Some (snd e)).
Proof. exact page_cookies. Qed.

(* ---------- complete traversals ---------- *)
(* a client starting at cookie 0 and continuing with the cookie of the last entry received, using ANY procedure and
   ANY limit in each call (q), reaches eof within length l + 1 calls, and the pages concatenate to exactly l, every
   entry once, in order, with cookies 1 .. length l *)
Theorem C26_complete : forall (q : nat -> bool * N) l,
  let r := traverse q (S (length l)) 0 l in
  snd r = true /\ concat (fst r) = number 0 l /\ (length (fst r) <= S (length l))%nat /\ (1 <= length (fst r))%nat.
Proof. exact traverse_complete. Qed.
(* and from any cookie within the directory *)
Theorem C26_complete_from : forall (q : nat -> bool * N) l fuel c, (c <= length l)%nat -> (length l - c < fuel)%nat ->
  let r := traverse q fuel (N.of_nat c) l in
  snd r = true /\ concat (fst r) = number (N.of_nat c) (skipn c l) /\ (length (fst r) <= fuel)%nat /\ (1 <= length (fst r))%nat.
Proof. exact (fun q l => traverse_from q l). Qed.

(* ---------- the handlers ---------- *)
(* a successful READDIR reply carries [page] of the list AbsfsNFS.ReadDir produced: cookie, name = last path
   component, fileid = the looked-up attributes' fileid; eof = not reachedLimit *)
Theorem C26_readdir_entries : forall s h cookie count,
  let r := handle_readdir s h cookie count in
  ob_rpc (snd r) = 0 /\ ob_status (snd r) <> NFS3ERR_TOOSMALL /\
  (ob_status (snd r) = 0 ->
   exists d da s1 ents, lookup_node s h = Some (d, da) /\ na_kind da = KDir /\ srv_readdir s d = (s1, Ok ents) /\
     let pl := page false count 0 cookie 0 dir_header_len ents in
     ob_entries (snd r) = map dentry_of (fst pl) /\ map de3 (ob_entries (snd r)) = map pg3 (fst pl) /\
     ob_eof (snd r) = negb (snd pl)).
Proof. exact handle_readdir_ok. Qed.
Theorem C26_readdirplus_entries : forall s h cookie maxcount,
  let r := handle_readdirplus s h cookie maxcount in
  ob_rpc (snd r) = 0 /\ ob_status (snd r) <> NFS3ERR_TOOSMALL /\
  (ob_status (snd r) = 0 ->
   exists d da s1 ents0, lookup_node s h = Some (d, da) /\ na_kind da = KDir /\ srv_readdir s d = (s1, Ok ents0) /\
     let pl := page true maxcount 0 cookie 0 dir_header_len (snd (refresh_all s1 ents0)) in
     map de3 (ob_entries (snd r)) = map pg3 (fst pl) /\
     ob_eof (snd r) = negb (snd pl)).
Proof. exact handle_readdirplus_ok. Qed.
(* fileids under the cached-fileid invariant alone (no coherence needed): fileid = FNV-1a-64 of the entry's path *)
Theorem C26_fileids : forall s h ck cnt d da, lookup_node s h = Some (d, da) -> AcFid s ->
  (forall de, In de (ob_entries (snd (handle_readdir s h ck cnt))) -> de_fileid de = fileid_of (d ++ [de_name de])) /\
  (forall de, In de (ob_entries (snd (handle_readdirplus s h ck cnt))) -> de_fileid de = fileid_of (d ++ [de_name de])).
Proof. exact fileids_acfid. Qed.
(* on a coherent state the paged list is the backend's listing (names of the children, bytewise sorted) restricted
   to the names ReadDir keeps ([listed]: not "." / "..", accepted by sanitizePath) *)
Theorem C26_readdir_listing : forall s h cookie count d da, Good s -> lookup_node s h = Some (d, da) ->
  let r := handle_readdir s h cookie count in
  ob_status (snd r) = 0 ->
  slice_ok false d (listed_names (fs s) d) cookie count (ob_entries (snd r)) (ob_eof (snd r)).
Proof. exact handle_readdir_listing. Qed.
Theorem C26_readdirplus_listing : forall s h cookie maxcount d da, Good s -> lookup_node s h = Some (d, da) ->
  let r := handle_readdirplus s h cookie maxcount in
  ob_status (snd r) = 0 ->
  slice_ok true d (listed_names (fs s) d) cookie maxcount (ob_entries (snd r)) (ob_eof (snd r)).
Proof. exact handle_readdirplus_listing. Qed.
(* every name the server accepts anywhere (non-empty, no '/', no '\', not "." or "..") is kept: for a directory
   holding only such names the slice is taken from the complete listing *)
Theorem C26_listing : forall s h cookie limit d da (plus : bool), Good s -> lookup_node s h = Some (d, da) ->
  (forall n, In n (listing (fs s) d) -> name_sane n = true) ->
  let r := if plus then handle_readdirplus s h cookie limit else handle_readdir s h cookie limit in
  ob_status (snd r) = 0 ->
  slice_ok plus d (listing (fs s) d) cookie limit (ob_entries (snd r)) (ob_eof (snd r)).
Proof. exact handle_readdir_full_listing. Qed.
(* without that hypothesis the statement fails: a name only the backend can have created (one containing a
   backslash) is refused by LOOKUP and left out of the listing *)
Definition C26_listing_statement : Prop := listing_statement.
Theorem C26_listing_unrestricted_refuted : ~ C26_listing_statement.
Proof. exact listing_refuted. Qed.

(* ---------- non-vacuity ---------- *)
(* five entries with names of 1, 2, 5, 8 and 255 bytes paged with count 200 / maxcount 700 / varying limits *)
Example C26_example_pages :
  map (fun ie => (fst ie, name_of (fst (snd ie)))) (fst (page false 200 0 0 0 dir_header_len ex_dir)) =
    [(1, [97]); (2, [98; 98]); (3, [99; 99; 99; 99; 99])] /\
  map (fun c => (map fst (fst (page false 200 0 c 0 dir_header_len ex_dir)), snd (page false 200 0 c 0 dir_header_len ex_dir)))
      [0; 3; 4; 5; 77] = [([1; 2; 3], true); ([4], true); ([5], false); ([], false); ([], false)] /\
  map (enc_len_page false) (fst (traverse (fun _ => (false, 200)) 6 0 ex_dir)) = [196; 140; 388] /\
  map (enc_len_page true) (fst (traverse (fun _ => (true, 700)) 6 0 ex_dir)) = [644; 492] /\
  map (@length _) (fst (traverse (fun f => (Nat.even f, 150 + 100 * N.of_nat f)) 6 0 ex_dir)) = [5%nat] /\
  traverse (fun _ => (true, 0)) 1 0 [] = ([[]], true).
Proof. exact ex_pages. Qed.
(* the witness of the known finding: count 50, one entry, 136 bytes, more to come *)
Example C26_example_small_count :
  let pl := page false 50 0 0 0 dir_header_len ex_dir in
  length (fst pl) = 1%nat /\ snd pl = true /\ enc_len_page false (fst pl) = 136 /\ 50 < enc_len_page false (fst pl).
Proof. exact fits_refuted_witness. Qed.
(* a coherent state reached through the handlers: /d with a, bb, ccccc, dddddddd, x..y; handle 2 = /d *)
Example C26_example_state : Good pg_state /\
  map (fun so => ob_status (snd so)) (hrun ex_init pg_hist) = [0; 0; 0; 0; 0; 0; 0; 0] /\
  (exists da, lookup_node pg_state 2 = Some ([[100]], da) /\ na_kind da = KDir) /\
  listing (fs pg_state) [[100]] = [[97]; [98; 98]; [99; 99; 99; 99; 99]; repeat 100 8; [120; 46; 46; 121]] /\
  forallb name_sane (listing (fs pg_state) [[100]]) = true /\
  ob_status (snd (handle_readdir pg_state 2 0 170)) = 0 /\
  map de_name (ob_entries (snd (handle_readdir pg_state 2 0 170))) = [[97]; [98; 98]] /\
  ob_eof (snd (handle_readdir pg_state 2 0 170)) = false /\
  map de_cookie (ob_entries (snd (handle_readdirplus pg_state 2 2 4096))) = [3; 4; 5] /\
  ob_eof (snd (handle_readdirplus pg_state 2 2 4096)) = true /\
  map de_fileid (ob_entries (snd (handle_readdirplus pg_state 2 4 4096))) = [fileid_of [[100]; [120; 46; 46; 121]]].
Proof. exact (conj pg_state_good pg_state_facts). Qed.
Example C26_example_backslash : Good bs_state /\
  listing (fs bs_state) [] = [[97; 92; 98]] /\ listed_names (fs bs_state) [] = [] /\
  ob_entries (snd (handle_readdir bs_state 1 0 4096)) = [] /\ ob_eof (snd (handle_readdir bs_state 1 0 4096)) = true /\
  ob_status (snd (step bs_state ex_cred2 (RLookup 1 [97; 92; 98]))) = NFSERR_ACCES.
Proof. exact (conj bs_state_good bs_state_facts). Qed.

Print Assumptions C26_facts.
Print Assumptions C26_entry_size.
Print Assumptions C26_page_spec.
Print Assumptions C26_enc_len.
Print Assumptions C26_fits.
Print Assumptions C26_fits_partial.
Print Assumptions C26_fits_refuted.
Print Assumptions C26_never_toosmall.
Print Assumptions C26_maximal.
Print Assumptions C26_progress.
Print Assumptions C26_cookies.
Print Assumptions C26_complete.
Print Assumptions C26_complete_from.
Print Assumptions C26_readdir_entries.
Print Assumptions C26_readdirplus_entries.
Print Assumptions C26_fileids.
Print Assumptions C26_readdir_listing.
Print Assumptions C26_readdirplus_listing.
Print Assumptions C26_listing.
Print Assumptions C26_listing_unrestricted_refuted.
Print Assumptions C26_example_pages.
Print Assumptions C26_example_small_count.
Print Assumptions C26_example_state.
Print Assumptions C26_example_backslash.
