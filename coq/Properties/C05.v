(* Properties/C05.v — File handles are live when issued, one per path, and the table is bounded.
   Only statements closed by [exact lemma] and Print Assumptions live here. *)
From Coq Require Import List NArith ZArith Bool.
From Verif Require Import Model.Handles Proofs.HandlesProofs.
Import ListNotations.
Open Scope N_scope.

Section C05.
Context {P : Type} (P_eqb : P -> P -> bool).
Hypothesis P_eqb_spec : forall p q, reflect (p = q) (P_eqb p q).

(* every state reachable from the empty table by any sequence of Allocate / Release / ReleaseAll,
   for every configured maximum (including <= 0, which means the default 100000) *)
Definition reachable (mx : Z) (m : fhmap P) : Prop :=
  exists ops : list (op P), m = fold_left (apply P_eqb) ops (init mx).

(* a handle is live (resolves to the path it was issued for) right after it is issued *)
Theorem C05_live : forall mx m p, reachable mx m ->
  let r := allocate P_eqb m p in get (fst r) (snd r) = Some p.
Proof. exact (C05_live_lemma P_eqb P_eqb_spec). Qed.

(* handles <-> paths is a bijection in every reachable state ... *)
Theorem C05_one_per_path : forall mx m, reachable mx m ->
  NoDup (map fst (handles m)) /\ NoDup (map fst (byPath m)) /\
  forall p h, In (p, h) (byPath m) <-> In (h, p) (handles m).
Proof. exact (C05_one_per_path_lemma P_eqb P_eqb_spec). Qed.

(* ... hence while a path's handle is live every reissue returns the same value *)
Theorem C05_reissue_same : forall mx m p h, reachable mx m -> get m h = Some p ->
  snd (allocate P_eqb m p) = h.
Proof. exact (C05_reissue_lemma P_eqb P_eqb_spec). Qed.

(* the table never exceeds the effective maximum, after histories of any length *)
Theorem C05_bounded : forall mx m, reachable mx m -> count m <= eff_max m.
Proof. exact (C05_bounded_lemma P_eqb P_eqb_spec). Qed.

(* the eviction scan never runs out of victims: it removes exactly the number it was asked to *)
Theorem C05_after_evict_count : forall mx m p, reachable mx m ->
  count (fst (allocate P_eqb m p)) <= eff_max m.
Proof. exact (C05_alloc_bounded_lemma P_eqb P_eqb_spec). Qed.
End C05.

(* non-vacuity: a concrete reachable state past the limit (max 2, four paths, one release) *)
Example C05_nontrivial :
  let m := fold_left (apply N.eqb) [Alloc 10; Alloc 11; Alloc 12; Release 2; Alloc 13; Alloc 11] (init 2) in
  reachable N.eqb 2 m /\ count m = 2 /\ free m <> [].
Proof. split; [eexists; reflexivity|]. vm_compute. split; [reflexivity|discriminate]. Qed.

Print Assumptions C05_live.
Print Assumptions C05_one_per_path.
Print Assumptions C05_reissue_same.
Print Assumptions C05_bounded.
Print Assumptions C05_after_evict_count.
