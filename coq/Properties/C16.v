(* Properties/C16.v — Policy updates are atomic with respect to requests (drain-and-swap).
   Statements over ALL traces of Model/PolicyLTS.v (any number of requests, updates, connections, any
   policy values, any interleaving, any timeouts), each closed by [exact lemma].

   What is modelled rather than verified: Go's scheduler, sync.RWMutex / sync.Mutex semantics (given as the
   definitions in the header of Model/PolicyLTS.v), the Go memory model (lockset approximation in C16_norace),
   the token buckets behind AllowRequest (their decision is an input of the Rate step; C18/C19 cover them). *)
From Coq Require Import List NArith ZArith Bool.
From Verif Require Import Gen.Facts Model.PolicyLTS Proofs.PolicyProofs.
Import ListNotations.
Open Scope N_scope.

(* reachable s := exists initial policy, initial limiter and trace with run (init p0 l0) tr = Some s *)

(* every backend operation of request r (and every handler read of policy.Load()) sees the version that was
   in force when r was admitted, which is also the version snapshotOptions captured, and the ReadOnly value
   of that snapshot; every handler read of the rateLimiter field sees the limiter generation of that version *)
Theorem C16_atomic : forall s, reachable s ->
  (forall r v ro, In (r, v, ro) (oplog s) ->
     exists q, reqs s r = Some q /\ v = r_adm q /\ v = r_snap q /\ ro = r_snap_ro q) /\
  (forall r g lm, In (r, g, lm) (limlog s) -> exists q, reqs s r = Some q /\ g = r_adm q).
Proof. exact atomic_lemma. Qed.

(* once an update has stored its policy (a fortiori once it has returned) no request admitted under an older
   version is executing: every request whose worker still owns the read lock was admitted under a version
   >= the update's.  Timeouts do not matter: "executing" is about the worker goroutine, not HandleCall. *)
Theorem C16_drain : forall s, reachable s ->
  forall u qu, upds s u = Some qu -> stored (u_pc qu) = true ->
  forall r q, reqs s r = Some q -> executing q = true -> u_ver qu <= r_adm q.
Proof. exact drain_lemma. Qed.

(* ... and between the moment the writer holds the lock and the moment it releases it, nothing executes *)
Theorem C16_drain_exclusive : forall s, reachable s ->
  forall u qu, upds s u = Some qu -> (u_pc qu = UHolding \/ u_pc qu = UStored \/ u_pc qu = USwapped) ->
  readers s = [] /\ forall r q, reqs s r = Some q -> executing q = false.
Proof. exact drain_empty_lemma. Qed.

(* every later request is judged under the new policy: if u had returned when r arrived, then r is admitted
   under u's version or a newer one, the limiter it is checked against is the one left in force by an update
   no older than u (and is exactly the limiter that update installed), EnableRateLimiting is read from a
   version no older than u, and no request reaches HandleCall from a connection without that check.
   This holds whatever connection r came from - in particular one opened before the update. *)
Theorem C16_limiter : forall p0 l0 tr1 tr2 s1 s2 s u qu r c q,
  run (init p0 l0) tr1 = Some s1 -> upds s1 u = Some qu -> u_pc qu = UReturned ->
  step s1 (Arrive r c) = Some s2 -> run s2 tr2 = Some s -> reqs s r = Some q ->
  (admitted q = true -> u_ver qu <= r_adm q) /\
  (passed_lim q -> u_ver qu <= r_limgen q /\ r_limgen q <= lim_gen s /\
     forall u' qu', upds s u' = Some qu' -> swapped (u_pc qu') = true -> u_ver qu' = r_limgen q ->
                    r_lim q = u_lim qu') /\
  (passed_en q -> u_ver qu <= r_enver q) /\
  (r_conn q <> None -> called q = true -> r_checked q = true \/ r_lim q = None \/ r_en q = false).
Proof. exact later_lemma. Qed.

(* arrivals during a drain get the retry-later reply and do not join the readers ... *)
Theorem C16_juke : forall s r q, reqs s r = Some q -> r_pc q = RCalling -> draining s = true ->
  exists s' q', step s (TryRLock r) = Some s' /\ reqs s' r = Some q' /\ r_pc q' = RJuke /\ readers s' = readers s.
Proof. exact juke_step_lemma. Qed.
(* ... over whole traces: a request ended in drainReply iff a writer was pending or holding when it tried *)
Theorem C16_juke_trace : forall s, reachable s -> forall r q, reqs s r = Some q ->
  (r_pc q = RJuke -> r_drain q = true) /\ (admitted q = true -> r_drain q = false).
Proof. exact juke_trace_lemma. Qed.
Theorem C16_juke_ghost : forall s r s' q', step s (TryRLock r) = Some s' -> reqs s' r = Some q' -> r_drain q' = draining s.
Proof. exact try_sets_drain. Qed.
(* ... and while a writer is pending or holding the set of lock-owning requests only shrinks *)
Theorem C16_drain_shrinks : forall s l s', draining s = true -> step s l = Some s' -> incl (readers s') (readers s).
Proof. exact drain_shrinks. Qed.

(* the update finishes once in-flight requests finish: in every reachable state in which no request owns the
   read lock, the next step of every unfinished update is enabled, or it waits for policyMu whose holder's next
   step is enabled (no deadlock among updates); and no request ever waits for anything (requests_never_block) *)
Theorem C16_progress : forall s, reachable s -> readers s = [] ->
  forall u q l, upds s u = Some q -> unext u q = Some l ->
    enabled s l = true \/
    (u_pc q = UCalled /\ exists h qh lh, pmu s = Some h /\ upds s h = Some qh /\ unext h qh = Some lh /\
                                          enabled s lh = true).
Proof. exact progress_lemma. Qed.
Theorem C16_requests_never_block : forall s r q l, reqs s r = Some q -> rnext r q = Some l -> enabled s l = true.
Proof. exact req_progress_lemma. Qed.

(* updates never race with request processing: any two accesses to the plain field AbsfsNFS.rateLimiter by
   different threads, one of them a write, hold a common lock, one of them exclusively (locks held are read
   off the lock state of the model, not asserted) *)
Theorem C16_norace : forall s, reachable s ->
  forall a b, In a (alog s) -> In b (alog s) -> conflict a b = true -> common_lock a b = true.
Proof. exact norace_lemma. Qed.

(* what the model assumes about the source, re-read from /repo on every run (harness/tools/astfacts/x_lts.go):
   the retry-later status; UpdatePolicyOptions performs policyMu.Lock, defer policyMu.Unlock, policyRWMu.Lock,
   policy.Store, mu.Lock, the two assignments to rateLimiter, mu.Unlock, policyRWMu.Unlock in this order; HandleCall's
   first use of policyRWMu is the TryRLock guard that leaves with drainReply; the RUnlock is deferred inside the worker
   goroutine and not by HandleCall itself; the connection loop calls currentRateLimiter() inside the request loop and
   never reads the field directly; currentRateLimiter reads the field under mu.RLock *)
Theorem C16_facts :
  c_NFSERR_JUKEBOX = 10008%Z /\ f_lts_update_order = [1; 8; 2; 3; 4; 5; 5; 6; 7]%Z /\
  f_lts_tryrlock_guard = true /\ f_lts_runlock_in_goroutine = true /\
  f_lts_limiter_per_request = true /\ f_lts_limiter_locked_read = true.
Proof. repeat split; vm_compute; reflexivity. Qed.

(* ---------- non-vacuity ---------- *)
Definition pol (ro en : bool) (cfg : option N) : policy := {| p_ro := ro; p_enable := en; p_cfg := cfg; p_squash := 0; p_maxsize := 0; p_secure := false |}.
(* r1 is admitted and blocks in the backend; update 7 (read-only, limiter burst 2) is called and drains;
   r2 arrives mid-drain; HandleCall of r1 times out while its worker keeps the lock and runs another backend
   operation; r1 finishes; the update completes; r3 arrives on connection 5, opened before the update. *)
Definition demo : list label :=
  [ConnOpen 5; Arrive 1 None; TryRLock 1; Snap 1; Auth 1 true; Op 1;
   UCall 7 (pol true true (Some 2)); UMu 7; ULock 7; Probe true;
   Arrive 2 None; TryRLock 2; HTimeoutL 1; Op 1; OpLim 1; Finish 1; RUnlock 1;
   UAcquire 7; UStore 7; USwap 7; UUnlock 7; URet 7;
   Arrive 3 (Some 5); LimRead 3; EnRead 3; Rate 3 true; TryRLock 3; Snap 3; Auth 3 true; Op 3; OpLim 3].
Definition demo_state := run (init (pol false false None) None) demo.

Example C16_nontrivial :
  match demo_state with
  | Some s =>
      reachable s /\
      oplog s = [(3, 1, true); (1, 0, false); (1, 0, false)] /\           (* ops under two different versions *)
      (exists q, reqs s 2 = Some q /\ r_pc q = RJuke) /\                   (* hypothesis of C16_juke met *)
      (exists q, reqs s 1 = Some q /\ r_h q = HTimeout /\ r_pc q = RDone) /\ (* the timeout branch *)
      (exists q, reqs s 3 = Some q /\ executing q = true /\ r_lim q = Some 1 /\ r_checked q = true) /\
      (exists qu, upds s 7 = Some qu /\ u_pc qu = UReturned /\ u_ver qu = 1) /\ (* hypotheses of C16_drain/limiter *)
      length (alog s) = 4%nat /\ existsb (fun a => a_write a) (alog s) = true  (* conflicting accesses exist *)
  | None => False
  end.
Proof.
  unfold demo_state. vm_compute. split.
  - exists (pol false false None), None, demo. vm_compute. reflexivity.
  - repeat split; try reflexivity; eexists; repeat split; reflexivity.
Qed.

(* hypothesis of C16_progress and of C16_drain_exclusive: a state with a pending writer and no readers, and
   one where the writer holds the lock *)
Example C16_progress_nontrivial :
  match run (init (pol false false None) None) [UCall 7 (pol true false None); UMu 7; ULock 7; UCall 8 (pol false false None)] with
  | Some s => readers s = [] /\ draining s = true /\
              (exists q, upds s 7 = Some q /\ unext 7 q = Some (UAcquire 7) /\ enabled s (UAcquire 7) = true) /\
              (exists q, upds s 8 = Some q /\ unext 8 q = Some (UMu 8) /\ enabled s (UMu 8) = false)
  | None => False
  end.
Proof. vm_compute. repeat split; eexists; repeat split; reflexivity. Qed.

(* What C16_limiter does NOT say, and the model shows why: a request that ARRIVED while the update was still
   running may have read the previous limiter before the swap and be admitted after the update returned.  It
   is concurrent with the update, not later than it; the statement is therefore anchored at arrival. *)
Example C16_limiter_window :
  match run (init (pol false true (Some 9)) (Some 0))
            [ConnOpen 5; UCall 7 (pol false true (Some 2)); UMu 7; ULock 7; UAcquire 7; UStore 7;
             Arrive 3 (Some 5); LimRead 3; USwap 7; UUnlock 7; URet 7; EnRead 3; Rate 3 true; TryRLock 3] with
  | Some s => exists q, reqs s 3 = Some q /\ r_pc q = RLocked /\ r_adm q = 1 /\ r_limgen q = 0 /\ r_lim q = Some 0 /\
                        r_arr_ret q = 0
  | None => False
  end.
Proof. vm_compute. eexists. repeat split; reflexivity. Qed.

(* hypothesis of C16_drain_exclusive: the writer holds the lock (after its store, before its swap) *)
Example C16_exclusive_nontrivial :
  match run (init (pol false false None) None) [UCall 7 (pol true false None); UMu 7; ULock 7; UAcquire 7; UStore 7] with
  | Some s => reachable s /\ exists qu, upds s 7 = Some qu /\ u_pc qu = UStored /\ cur s = 1 /\ lim_gen s = 0
  | None => False
  end.
Proof.
  vm_compute. split.
  - exists (pol false false None), None, [UCall 7 (pol true false None); UMu 7; ULock 7; UAcquire 7; UStore 7]. vm_compute. reflexivity.
  - eexists. repeat split; reflexivity.
Qed.

Print Assumptions C16_atomic.
Print Assumptions C16_drain.
Print Assumptions C16_drain_exclusive.
Print Assumptions C16_limiter.
Print Assumptions C16_juke.
Print Assumptions C16_juke_trace.
Print Assumptions C16_juke_ghost.
Print Assumptions C16_drain_shrinks.
Print Assumptions C16_progress.
Print Assumptions C16_requests_never_block.
Print Assumptions C16_norace.
Print Assumptions C16_facts.
