(* Properties/C06.v — A handle value never silently refers to a different object.

   The full statement is FALSE of the code by design (known finding C06 k=1): ids freed by eviction or
   Release go onto a free list and the lowest one is reissued for the next new path; the test suite of
   /repo asserts this.  So: the full statement is kept as a Definition and refuted; what holds is proved
   for every table satisfying the invariant of C05 (every reachable table), every history, and — at the
   server — every state, credential and request.
   Only statements closed by [exact lemma], Examples and Print Assumptions live here. *)
From Coq Require Import List NArith ZArith Bool.
From Verif Require Import Gen.Facts Model.Handles Model.Backend Model.Srv.
From Verif Require Import Proofs.HandlesProofs Proofs.HandlesReuse Proofs.SrvPaths Proofs.SrvHandles.
Import ListNotations.
Open Scope N_scope.

(* ====================================================================================================== *)
(* the table                                                                                              *)
(* ====================================================================================================== *)
(* the full statement (path type N): in every history from the empty table, once value v has been returned
   for path p, every later table that resolves v resolves it to p *)
Definition C06_statement : Prop :=
  forall (mx : Z) (ops1 : list (op N)) (p : N) (ops2 : list (op N)) (q : N),
    let m := final N.eqb (init mx) ops1 in
    let v := snd (allocate N.eqb m p) in
    let m' := final N.eqb (fst (allocate N.eqb m p)) ops2 in
    get m' v = Some q -> q = p.

(* limit 1: Alloc 10 -> 1; Alloc 11 -> 2 and evicts 1; Alloc 12 reuses 1: value 1, issued for 10, names 12 *)
Theorem C06_refuted : ~ C06_statement.
Proof. exact C06_refuted_lemma. Qed.

Section C06.
Context {P : Type} (P_eqb : P -> P -> bool).
Hypothesis P_eqb_spec : forall p q, reflect (p = q) (P_eqb p q).

(* One step, any table satisfying the invariant (C05: every reachable table does), any operation:
   - a live value keeps its path, or stops resolving; it is then on the free list, unless the step was
     ReleaseAll (which empties the free list as well: see C06_release_all_fresh);
   - a value that does not resolve starts resolving only through an Alloc, to the allocated path, and only
     if it was on the free list or is [next]. *)
Theorem C06_partial_change_needs_free : forall (m : fhmap P) (o : op P) (v : N), Inv m ->
  (forall p, get m v = Some p ->
     get (apply P_eqb m o) v = Some p \/
     (get (apply P_eqb m o) v = None /\ (In v (free (apply P_eqb m o)) \/ o = ReleaseAll))) /\
  (forall q, get m v = None -> get (apply P_eqb m o) v = Some q ->
     o = Alloc q /\ (In v (free m) \/ v = next m)).
Proof. exact (change_needs_free P_eqb). Qed.

(* Histories: if v names p in m and a different q after ops, then v was on the free list of one of the
   intermediate tables m = m0, m1, ..., mn (a ReleaseAll in between retires v for good instead). *)
Theorem C06_partial_change_needs_free_history : forall (m : fhmap P) ops v p q, Inv m ->
  get m v = Some p -> get (final P_eqb m ops) v = Some q -> q <> p ->
  Exists (fun mk => In v (free mk)) (states P_eqb m ops).
Proof. exact (change_needs_free_history P_eqb P_eqb_spec). Qed.

(* ... in particular in every history from the empty table *)
Theorem C06_partial_history_reachable : forall mx ops1 ops2 v p q,
  let m := final P_eqb (init mx) ops1 in
  get m v = Some p -> get (final P_eqb m ops2) v = Some q -> q <> p ->
  Exists (fun mk => In v (free mk)) (states P_eqb m ops2).
Proof.
  exact (fun mx ops1 ops2 v p q =>
    change_needs_free_history P_eqb P_eqb_spec _ ops2 v p q (final_inv P_eqb P_eqb_spec ops1 _ (init_inv mx))).
Qed.

(* Histories that never pop the free list (every Alloc is of a path that already has a handle, or runs with
   an empty free list; Release / eviction / ReleaseAll are allowed): a value never changes its path. *)
Theorem C06_partial_no_pop : forall (m : fhmap P) ops v p q, Inv m -> NoPop P_eqb m ops ->
  get m v = Some p -> get (final P_eqb m ops) v = Some q -> q = p.
Proof. exact (no_pop_stable P_eqb P_eqb_spec). Qed.

(* The Alloc-only histories within the limit are of that kind: no Release / ReleaseAll, and the number of
   allocations does not exceed the effective maximum, so nothing is evicted; the free list stays empty,
   every Alloc of a new path returns [next], and values are never reissued. *)
Theorem C06_partial_alloc_only : forall mx (ops1 ops2 : list (op P)) v p q,
  forallb (@is_alloc P) (ops1 ++ ops2) = true -> N.of_nat (length (ops1 ++ ops2)) <= eff_max (@init P mx) ->
  let m := final P_eqb (init mx) ops1 in
  let m' := final P_eqb m ops2 in
  (get m v = Some p -> get m' v = Some q -> q = p) /\
  free m' = [] /\ (forall p', assocP P_eqb p' (byPath m') = None -> snd (allocate P_eqb m' p') = next m').
Proof. exact (alloc_only_stable P_eqb P_eqb_spec). Qed.

(* ReleaseAll (Close / Unexport) empties the free list and keeps [next]; a value below [next] (every value
   issued before is: C06_issued_below_next) never resolves again, is never on the free list again, and every
   value issued afterwards is >= next, hence different. *)
Theorem C06_release_all_fresh : forall (m : fhmap P) ops v, v < next m ->
  free (release_all m) = [] /\ next (release_all m) = next m /\
  let m' := final P_eqb (release_all m) ops in
  get m' v = None /\ ~ In v (free m') /\
  forall p, next m <= snd (allocate P_eqb m' p) /\ snd (allocate P_eqb m' p) <> v.
Proof. exact (release_all_fresh P_eqb P_eqb_spec). Qed.

Theorem C06_issued_below_next : forall (m : fhmap P) p ops, Inv m ->
  snd (allocate P_eqb m p) < next (final P_eqb (fst (allocate P_eqb m p)) ops).
Proof. exact (issued_lt_next P_eqb P_eqb_spec). Qed.

(* across Unexport + re-export: a value issued before is dead afterwards and is never issued again *)
Theorem C06_no_reissue_across_release_all : forall (m0 : fhmap P) ops1 p1 ops1' ops2 p2, Inv m0 ->
  let ma := final P_eqb m0 ops1 in
  let v1 := snd (allocate P_eqb ma p1) in
  let mb := final P_eqb (fst (allocate P_eqb ma p1)) ops1' in
  let m2 := final P_eqb (release_all mb) ops2 in
  get m2 v1 = None /\ snd (allocate P_eqb m2 p2) <> v1.
Proof. exact (no_reissue_across_release_all P_eqb P_eqb_spec). Qed.
End C06.

(* ====================================================================================================== *)
(* the server                                                                                             *)
(* ====================================================================================================== *)
(* A value that is not tracked is never served against another object: for every state, credential and
   handle-taking request that gets as far as resolving its handle(s) — [reaches_lookup] lists, per
   procedure, the checks the handler makes first: ReadOnly, SETATTR mode bit 15, name/string/mode
   validation, READ/WRITE offset overflow, WRITE count/size checks, SYMLINK target checks — if one of the
   handles of the request does not resolve, the reply is NFS3ERR_STALE with no attributes, handle, data or
   entries, no backend call is made, and the state is unchanged (but for the cleared call log). *)
Theorem C06_stale : forall s c r, reaches_lookup s r = true ->
  (exists h, In h (req_handles r) /\ lookup_node s h = None) ->
  let s' := fst (step s c r) in let o := snd (step s c r) in
  ob_status o = NFSERR_STALE /\ ob_rpc o = 0 /\ ob_fh o = None /\ ob_bytes o = [] /\ ob_entries o = [] /\ ob_nums o = [] /\
  (forall a, In a (ob_attrs o) -> a = None) /\ (forall w, In w (ob_wcc o) -> w = None) /\
  blog s' = [] /\ fs s' = fs s /\ s' = clear_log s.
Proof. exact step_stale_fields. Qed.

(* the guards, spelled out *)
Theorem C06_stale_guards : forall s r,
  reaches_lookup s r =
  match r with
  | RGetattr _ | RAccess _ _ | RReadlink _ | RReaddir _ _ _ | RReaddirplus _ _ _ _
  | RFsstat _ | RFsinfo _ | RPathconf _ => true
  | RSetattr _ sa _ =>
      negb (ro (conf s)) && negb (match s_mode sa with Some m => N.testbit m 15 | None => false end)
  | RLookup _ n => str_ok n && (validate_name n =? st_ok)
  | RRead _ off cnt => negb (two64 - 1 - cnt <? off)
  | RWrite _ off cnt _ data =>
      negb (ro (conf s)) && negb (two64 - 1 - cnt <? off) && (cnt =? N.of_nat (length data)) &&
      negb (tsize (conf s) <? cnt) &&
      negb ((0 <? maxfile (conf s)) && (0 <? cnt) && ((maxfile (conf s) <? off) || (maxfile (conf s) - off <? cnt)))
  | RCreate _ n how sa =>
      negb (ro (conf s)) && str_ok n && (validate_name n =? st_ok) &&
      (validate_mode (if (how =? 0) || (how =? 1) then match s_mode sa with Some m => m | None => 420 end else 420) =? st_ok)
  | RMkdir _ n sa =>
      negb (ro (conf s)) && str_ok n && (validate_name n =? st_ok) &&
      (validate_mode (match s_mode sa with Some m => m | None => 493 end) =? st_ok)
  | RSymlink _ n _ t =>
      negb (ro (conf s)) && str_ok n && str_ok t && (validate_name n =? st_ok) &&
      negb (match t with [] => true | _ => false end) && negb (is_abs t || target_has_dotdot t)
  | RRemove _ n | RRmdir _ n => negb (ro (conf s)) && str_ok n && (validate_name n =? st_ok)
  | RRename _ n1 _ n2 =>
      negb (ro (conf s)) && str_ok n1 && str_ok n2 && (validate_name n1 =? st_ok) && (validate_name n2 =? st_ok)
  | RCommit _ _ _ => negb (ro (conf s))
  | _ => false
  end.
Proof. exact (fun s r => eq_refl). Qed.

(* A tracked value is served against exactly the path the table holds for it: every backend call of a
   request is made on the path of one of the request's own handles, on that path joined with the name that
   accompanies the handle in the request, or (READDIR / READDIRPLUS) joined with a sane name of the listing;
   MNT: on the cleaned path a handle is requested for or a non-empty proper prefix of it (the symlink check
   Lstat-s those before the handle is issued).  The second path of a Rename call is of that kind
   too, and so is every entry the request adds to the table. *)
Theorem C06_served_path : forall s c r,
  (forall b, In b (blog (fst (step s c r))) ->
     served s r (b_path b) /\ (b_op b = BRename -> exists np, b_path2 b = render np /\ served s r np)) /\
  (forall h q, get (hm (fst (step s c r))) h = Some q -> get (hm s) h = Some q \/ served s r q).
Proof. exact served_calls. Qed.

Theorem C06_served_path_single : forall s c r h on p a b,
  req_targets r = [(h, on)] -> lookup_node s h = Some (p, a) -> In b (blog (fst (step s c r))) ->
  b_path b = p \/ (exists n, on = Some n /\ b_path b = p ++ [n]) \/
  (is_listing r = true /\ exists cn, name_sane cn = true /\ b_path b = p ++ [cn]).
Proof. exact served_single. Qed.

(* the status word of the model is the documented one *)
Theorem C06_facts : (c_NFSERR_STALE =? 70)%Z = true.
Proof. vm_compute. reflexivity. Qed.

(* ====================================================================================================== *)
(* non-vacuity                                                                                            *)
(* ====================================================================================================== *)
(* the refutation history itself: limit 1, three paths *)
Example C06_witness_table :
  let m := final N.eqb (init 1) [Alloc 10] in
  let m' := final N.eqb m [Alloc 11; Alloc 12] in
  Inv m /\ get m 1 = Some 10 /\ get m' 1 = Some 12 /\
  Exists (fun mk => In 1 (free mk)) (states N.eqb m [Alloc 11; Alloc 12]).
Proof.
  cbv zeta. split; [apply (final_inv N.eqb N.eqb_spec), init_inv|].
  split; [reflexivity|split; [reflexivity|]]. apply Exists_cons_tl, Exists_cons_hd. vm_compute. left. reflexivity.
Qed.
(* one step of each kind of C06_partial_change_needs_free: a live value that dies onto the free list, a dead
   value that comes back from the free list, one that comes back as [next] *)
Example C06_witness_steps :
  let m := final N.eqb (init 2) [Alloc 10; Alloc 11] in
  get m 1 = Some 10 /\ get (apply N.eqb m (Release 1)) 1 = None /\ In 1 (free (apply N.eqb m (Release 1))) /\
  get (apply N.eqb (apply N.eqb m (Release 1)) (Alloc 12)) 1 = Some 12 /\
  get m 3 = None /\ next m = 3 /\ get (apply N.eqb m (Alloc 12)) 3 = Some 12.
Proof. vm_compute. repeat split; try reflexivity. left. reflexivity. Qed.
(* why the first half of C06_partial_change_needs_free has the [o = ReleaseAll] alternative: ReleaseAll drops a
   live value WITHOUT putting it on the free list (it empties the free list) *)
Example C06_witness_release_all_step :
  let m := final N.eqb (init 5) [Alloc 10] in
  get m 1 = Some 10 /\ get (apply N.eqb m ReleaseAll) 1 = None /\ free (apply N.eqb m ReleaseAll) = [].
Proof. vm_compute. repeat split; reflexivity. Qed.
(* a history with Release and eviction that never pops the free list; an Alloc-only history within the limit *)
Example C06_witness_no_pop :
  NoPop N.eqb (init 2) [Alloc 10; Alloc 11; Release 1; Alloc 11; ReleaseAll; Alloc 12; Alloc 13; Alloc 14] /\
  free (final N.eqb (init 2) [Alloc 10; Alloc 11; Release 1]) = [1] /\
  get (final N.eqb (init 2) [Alloc 10; Alloc 11; Release 1; Alloc 11; ReleaseAll; Alloc 12; Alloc 13; Alloc 14]) 5 = Some 14.
Proof.
  split; [|split; reflexivity]. cbn [NoPop nopop]. repeat split; try (right; reflexivity). left. vm_compute. discriminate.
Qed.
Example C06_witness_alloc_only :
  forallb (@is_alloc N) ([Alloc 10; Alloc 11] ++ [Alloc 10; Alloc 12]) = true /\
  N.of_nat (length ([Alloc 10; Alloc 11] ++ [Alloc 10; Alloc 12])) <= eff_max (@init N 5) /\
  get (final N.eqb (init 5) [Alloc 10; Alloc 11]) 2 = Some 11.
Proof. split; [reflexivity|split; [vm_compute; discriminate|reflexivity]]. Qed.
(* ReleaseAll with a non-empty free list and live values: 1 (free) and 2, 3 (live) are below next = 4 *)
Example C06_witness_release_all :
  let m := final N.eqb (init 5) [Alloc 10; Alloc 11; Alloc 12; Release 1] in
  free m = [1] /\ next m = 4 /\ get m 2 = Some 11 /\
  snd (allocate N.eqb (final N.eqb (release_all m) [Alloc 11]) 10) = 5.
Proof. vm_compute. repeat split; reflexivity. Qed.

(* the server: in a state with four tracked handles, handle 9 is not tracked; a WRITE that passes every
   earlier check is answered STALE; a WRITE to a tracked file is served on its path *)
Example C06_witness_stale :
  let r := RWrite 9 0 3 2 [1; 2; 3] in
  reaches_lookup ex_state r = true /\ lookup_node ex_state 9 = None /\ count (hm ex_state) = 4 /\
  ob_status (snd (step ex_state ex_cred r)) = NFSERR_STALE.
Proof. vm_compute. repeat split; reflexivity. Qed.
Example C06_witness_stale_rename :
  let r := RRename 2 [102] 9 [103] in
  reaches_lookup ex_state r = true /\ lookup_node ex_state 2 <> None /\ lookup_node ex_state 9 = None /\
  ob_status (snd (step ex_state ex_cred r)) = NFSERR_STALE.
Proof. vm_compute. repeat split; try reflexivity. discriminate. Qed.
Example C06_witness_served :
  let r := RWrite 3 0 3 2 [1; 2; 3] in
  req_targets r = [(3, None)] /\ get (hm ex_state) 3 = Some [[100]; [102]] /\
  ob_status (snd (step ex_state ex_cred r)) = 0 /\
  map b_path (blog (fst (step ex_state ex_cred r))) <> [] /\
  forallb (fun b => path_eqb (b_path b) [[100]; [102]]) (blog (fst (step ex_state ex_cred r))) = true.
Proof. vm_compute. repeat split; try reflexivity. discriminate. Qed.
(* MNT "/d/f": the symlink check Lstat-s the proper prefix /d, then the path itself is looked up; MNT "/d/l/x"
   through the symbolic link d/l is refused with status 13 and no handle *)
Example C06_witness_mnt_prefix :
  In [[100]] (map b_path (blog (fst (step ex_state ex_cred (RMnt [47; 100; 47; 102]))))) /\
  ob_fh (snd (step ex_state ex_cred (RMnt [47; 100; 47; 102]))) = Some 3 /\
  ob_status (snd (step ex_state ex_cred (RMnt [47; 100; 47; 108; 47; 120]))) = 13 /\
  ob_fh (snd (step ex_state ex_cred (RMnt [47; 100; 47; 108; 47; 120]))) = None.
Proof. vm_compute. repeat split; try reflexivity. auto. Qed.
(* the refutation seen through the server (limit 1): value 1 is issued by MNT for "/", the READDIRPLUS
   evicts and reuses it, and a later GETATTR with value 1 is served against "/b" *)
Example C06_witness_server_reuse :
  ob_fh (snd (hrun1 (srv_init_fs fs_init ex_cfg 1 100) (ex_hs (RMnt [47])))) = Some 1 /\
  lookup_node ex1_state 1 <> None /\ get (hm ex1_state) 1 = Some [] /\
  get (hm (fst ex1_rdp)) 1 = Some [[98]] /\
  map b_path (blog (fst (step (fst ex1_rdp) ex_cred (RGetattr 1)))) = [[[98]]].
Proof. vm_compute. repeat split; try reflexivity. discriminate. Qed.

Print Assumptions C06_refuted.
Print Assumptions C06_partial_change_needs_free.
Print Assumptions C06_partial_change_needs_free_history.
Print Assumptions C06_partial_history_reachable.
Print Assumptions C06_partial_no_pop.
Print Assumptions C06_partial_alloc_only.
Print Assumptions C06_release_all_fresh.
Print Assumptions C06_issued_below_next.
Print Assumptions C06_no_reissue_across_release_all.
Print Assumptions C06_stale.
Print Assumptions C06_stale_guards.
Print Assumptions C06_served_path.
Print Assumptions C06_served_path_single.
Print Assumptions C06_facts.
