(* Properties/C23.v — READ and WRITE within the advertised FSINFO limits are served.
   Two models, both proved:
     Model/Srv.v       the handler model (tsize an unbounded N): [fsinfo_nums], [handle_read], [handle_write];
                       every theorem is for ALL server states and every TransferSize >= 1.
     Model/Fsinfo32.v  the same arithmetic with the 32-bit conversions the Go code performs (uint32(TransferSize) in
                       handleFsinfo and handleWrite; READ clamps with the full int64).  The two coincide below 2^32
                       (C23_models_agree) and differ from 2^32 on (C23_example_2_32: the code then advertises
                       uint32(ts), 0 for multiples of 2^32 - less than it accepts, which the property allows).
   The property holds on the current tree (fix 95f6bbf): C23_holds is the full statement for the width-faithful model
   and every TransferSize >= 1 including values >= 2^32.  Proofs: Proofs/Fsinfo.v.

   rtmax/rtpref/rtmult/wtmax/wtpref/wtmult s   the six numbers of fsinfo_nums s, in reply order
   srv_cap = go_cap = 1 044 480                DefaultMaxRecordSize - recordHeadroom
   write_record_len cred verf cnt              bytes of one WRITE call: RPC header with credential / verifier bodies of
                                               the given lengths, 8-byte handle, offset, count, stable, data<cnt> *)
From Coq Require Import String List NArith ZArith Bool.
From Verif Require Import Gen.Facts Model.Handles Model.Backend Model.Srv Model.Fsinfo32
  Proofs.SrvRO Proofs.BackendData Proofs.SrvData Proofs.Fsinfo.
Import ListNotations.
Open Scope N_scope.

(* ---------- constants and shapes read from the current source (astfacts x_paging.go, x_codec.go) ---------- *)
Theorem C23_facts :
  c_DefaultMaxRecordSize = 1048576%Z /\ f_reader_default_max = c_DefaultMaxRecordSize /\
  f_reader_fallback_max = c_DefaultMaxRecordSize /\
  f_fsinfo_record_headroom = 4096%Z /\ f_fsinfo_cap = (c_DefaultMaxRecordSize - f_fsinfo_record_headroom)%Z /\
  Z.to_N f_fsinfo_record_headroom = record_headroom /\ go_cap = srv_cap /\
  f_fsinfo_clamp_uint32 = true /\
  f_fsinfo_fields = [("max", 0); ("atmost", 65536); ("atmost", 4096); ("max", 0); ("atmost", 65536); ("atmost", 4096);
                     ("const", 8192); ("const", 1099511627776); ("const", 0); ("const", 1000000); ("ident:properties", 0)]%Z%string /\
  f_write_bound_uint32 = true /\ f_write_zero_fallback = 1048576%Z /\ f_write_bound_status = c_NFSERR_INVAL /\
  f_read_clamp_int64 = true /\
  f_cred_limit = 400%Z /\ f_verf_limit = 400%Z /\ f_fh_len = 8%Z.
Proof. vm_compute. repeat split; reflexivity. Qed.

(* ---------- what is advertised (handler model) ---------- *)
(* rtmax = wtmax = min(TransferSize, record limit - headroom); every number is >= 1, <= TransferSize and <= the cap;
   preferred sizes and multiples never exceed the maxima *)
Theorem C23_maxima : forall s, 1 <= tsize (conf s) ->
  rtmax s = N.min (tsize (conf s)) srv_cap /\ wtmax s = N.min (tsize (conf s)) srv_cap /\
  Forall (fun x => 1 <= x /\ x <= tsize (conf s) /\ x <= srv_cap) (fsinfo_nums s) /\
  rtpref s <= rtmax s /\ rtmult s <= rtmax s /\ wtpref s <= wtmax s /\ wtmult s <= wtmax s /\
  length (fsinfo_nums s) = 6%nat.
Proof. exact fsinfo_maxima. Qed.
Theorem C23_cap : srv_cap = 1044480 /\ srv_cap = st c_DefaultMaxRecordSize - record_headroom.
Proof. exact (conj srv_cap_val eq_refl). Qed.

(* ---------- WRITE within wtmax ---------- *)
(* the count check (tsize <? cnt => NFS3ERR_INVAL) is not taken ... *)
Theorem C23_write_accepted : forall s cnt, 1 <= tsize (conf s) -> cnt <= wtmax s -> (tsize (conf s) <? cnt) = false.
Proof. exact write_count_check. Qed.
(* ... and then NFS3ERR_INVAL can only mean one of the two other documented causes: offset + count overflows
   64 bits, or the handle is a symbolic link's *)
Theorem C23_write_inval_causes : forall s h off cnt stable data,
  (tsize (conf s) <? cnt) = false ->
  ob_status (snd (handle_write s h off cnt stable data)) = NFSERR_INVAL ->
  (two64 - 1 - cnt <? off) = true \/ exists p na, lookup_node s h = Some (p, na) /\ na_kind na = KLink.
Proof. exact handle_write_inval. Qed.
(* on a live handle of a plain regular file, export writable, payload as long as the count, offset + count below 2^63,
   MaxFileSize not exceeded: status OK, count = the full requested count, FILE_SYNC, the file holds the data durably *)
Theorem C23_write_served : forall s h p na o off cnt stable data,
  1 <= tsize (conf s) -> cnt <= wtmax s ->
  lookup_node s h = Some (p, na) -> na_kind na <> KLink -> plain_file (fs s) p o -> nodup_keys (fs s) ->
  ro (conf s) = false -> cnt = N.of_nat (length data) -> off + cnt < two63N -> no_fbig_write s off cnt ->
  let r := handle_write s h off cnt stable data in
  ob_rpc (snd r) = 0 /\ ob_status (snd r) = 0 /\ ob_nums (snd r) = [cnt; 2] /\
  (exists o', fs_get (fs (fst r)) p = Some o' /\ o_kind o' = KFile /\
              bf_eq (file_of o') (spec_write (file_of o) off data cnt) /\ bf_eq (durable_of o') (file_of o')).
Proof. exact write_within_wtmax. Qed.

(* ---------- READ within rtmax ---------- *)
(* before EOF, on a live handle of a plain regular file: OK with exactly min(count, size - offset) >= 1 bytes *)
Theorem C23_read_served : forall s h p na o off cnt,
  1 <= tsize (conf s) -> 1 <= cnt -> cnt <= rtmax s -> off < o_size o ->
  lookup_node s h = Some (p, na) -> na_kind na <> KLink -> plain_file (fs s) p o -> off + cnt < two64 -> off < two63N ->
  let r := handle_read s h off cnt in
  let n := N.min cnt (o_size o - off) in
  ob_rpc (snd r) = 0 /\ ob_status (snd r) = 0 /\ ob_nums (snd r) = [n] /\ 1 <= n /\
  length (ob_bytes (snd r)) = N.to_nat n /\ ob_bytes (snd r) = spec_read (file_of o) off n /\
  ob_eof (snd r) = (o_size o <=? off + n).
Proof. exact read_within_rtmax. Qed.
(* and for any count >= 1 (also above rtmax) at least one byte *)
Theorem C23_read_progress : forall s h p na o off cnt,
  1 <= tsize (conf s) -> 1 <= cnt -> off < o_size o ->
  lookup_node s h = Some (p, na) -> na_kind na <> KLink -> plain_file (fs s) p o -> off + cnt < two64 -> off < two63N ->
  let r := handle_read s h off cnt in
  ob_status (snd r) = 0 /\ exists n, ob_nums (snd r) = [n] /\ 1 <= n /\ n <= cnt.
Proof. exact read_progress. Qed.

(* ---------- one RPC record ---------- *)
(* a WRITE call whose count is within the advertised maximum fits the record limit with any credential and verifier
   the decoder admits: the 4096 bytes of headroom cover the 72 fixed bytes plus 2 x 400 *)
Theorem C23_record_fits : forall cred verf cnt ts,
  cred <= Z.to_N f_cred_limit -> verf <= Z.to_N f_verf_limit -> cnt <= go_fsinfo_max ts ->
  write_record_len cred verf cnt <= record_limit /\ record_accepted (write_record_len cred verf cnt) = true.
Proof. exact write_record_fits. Qed.
Theorem C23_record_overhead : forall cred verf cnt,
  write_record_len cred verf cnt = 72 + pad4n cred + pad4n verf + pad4n cnt.
Proof. exact write_record_overhead. Qed.
Theorem C23_read_reply_fits : forall verf cnt ts,
  verf <= Z.to_N f_verf_limit -> cnt <= go_fsinfo_max ts -> read_reply_len verf cnt <= record_limit.
Proof. exact read_reply_fits. Qed.

(* ---------- the width-faithful model: every TransferSize >= 1, also >= 2^32 ---------- *)
Definition C23_statement : Prop := c23_statement.
Theorem C23_holds : C23_statement.
Proof. exact c23_holds. Qed.
Theorem C23_go_advertised_le_accepted : forall ts, 1 <= ts ->
  go_fsinfo_max ts <= go_write_max ts /\ go_fsinfo_max ts <= ts /\ go_fsinfo_max ts <= go_cap.
Proof. exact go_advertised_le_accepted. Qed.
(* whatever literals handleFsinfo passes to atMost, no transfer-size field exceeds maxXfer *)
Theorem C23_go_fields : forall ts x, In x (go_fsinfo_nums ts) -> x <= go_fsinfo_max ts.
Proof. exact go_fsinfo_nums_le. Qed.
Theorem C23_go_write_accepted : forall ts cnt, 1 <= ts -> cnt <= go_fsinfo_max ts ->
  go_write_refused ts cnt = false /\ go_write_status ts cnt = 0.
Proof. exact go_write_accepted. Qed.
Theorem C23_go_read_served : forall ts cnt size off, 1 <= ts -> 1 <= cnt -> cnt <= go_fsinfo_max ts -> off < size ->
  go_read_count ts cnt size off = N.min cnt (size - off) /\ 1 <= go_read_count ts cnt size off.
Proof. exact go_read_served. Qed.
(* below 2^32 the two models are the same function *)
Theorem C23_models_agree : forall s, tsize (conf s) < two32 ->
  go_fsinfo_max (tsize (conf s)) = fsinfo_max s /\ go_fsinfo_nums (tsize (conf s)) = fsinfo_nums s /\
  (1 <= tsize (conf s) -> forall cnt, go_write_refused (tsize (conf s)) cnt = (tsize (conf s) <? cnt)).
Proof. exact go_srv_agree. Qed.
(* the advertised maxima are positive unless TransferSize is a multiple of 2^32 (then the code advertises 0 and
   accepts writes up to 1 MiB: odd, but "advertised <= accepted" holds) *)
Theorem C23_go_zero_iff : forall ts, 1 <= ts -> (go_fsinfo_max ts = 0 <-> u32 ts = 0).
Proof. exact go_fsinfo_max_zero. Qed.

(* ---------- non-vacuity ---------- *)
(* a state family: "/" with a sparse 3 000 000-byte file "a", handle 2 = the file, any TransferSize *)
Example C23_hyps : forall ts,
  (exists na, lookup_node (c23_state ts) 2 = Some ([[97]], na) /\ na_kind na <> KLink) /\
  plain_file (fs (c23_state ts)) [[97]] c23_file /\ nodup_keys (fs (c23_state ts)) /\
  ro (conf (c23_state ts)) = false /\ tsize (conf (c23_state ts)) = ts /\ maxfile (conf (c23_state ts)) = 0.
Proof. exact c23_state_hyps. Qed.
(* TransferSize 2 MiB: cap advertised; READ and WRITE of exactly 1 044 480 bytes served in full; 2 MiB + 1 refused *)
Example C23_example_big :
  let s := c23_state 2097152 in
  fsinfo_nums s = [1044480; 65536; 4096; 1044480; 65536; 4096] /\
  (let r := handle_read s 2 5 1044480 in ob_status (snd r) = 0 /\ ob_nums (snd r) = [1044480] /\ N.of_nat (length (ob_bytes (snd r))) = 1044480) /\
  (forall data, N.of_nat (length data) = 1044480 ->
     let r := handle_write s 2 5 1044480 2 data in ob_status (snd r) = 0 /\ ob_nums (snd r) = [1044480; 2]) /\
  (forall data, N.of_nat (length data) = 2097153 -> ob_status (snd (handle_write s 2 5 2097153 2 data)) = NFSERR_INVAL).
Proof. exact c23_example_big. Qed.
(* small and boundary values; the two models at 2^32, 2^32 + 5, 2^32 + 2^20 *)
Example C23_example_2_32 :
  fsinfo_nums (c23_state two32) = [1044480; 65536; 4096; 1044480; 65536; 4096] /\
  go_fsinfo_nums two32 = [0; 0; 0; 0; 0; 0] /\ go_write_max two32 = 1048576 /\
  go_fsinfo_nums (two32 + 5) = [5; 5; 5; 5; 5; 5] /\ go_write_max (two32 + 5) = 5 /\
  fsinfo_nums (c23_state (two32 + 5)) = [1044480; 65536; 4096; 1044480; 65536; 4096] /\
  go_write_refused (two32 + 5) 6 = true /\ (tsize (conf (c23_state (two32 + 5))) <? 6) = false /\
  go_fsinfo_nums (two32 + 1048576) = [1044480; 65536; 4096; 1044480; 65536; 4096] /\
  go_fsinfo_nums 1 = [1; 1; 1; 1; 1; 1] /\ go_fsinfo_nums 512 = [512; 512; 512; 512; 512; 512] /\
  go_fsinfo_nums 65536 = [65536; 65536; 4096; 65536; 65536; 4096] /\
  go_fsinfo_all 65536 = [65536; 65536; 4096; 65536; 65536; 4096; 8192; 1099511627776; 0; 1000000].
Proof. exact c23_example_2_32. Qed.

Print Assumptions C23_facts.
Print Assumptions C23_maxima.
Print Assumptions C23_cap.
Print Assumptions C23_write_accepted.
Print Assumptions C23_write_inval_causes.
Print Assumptions C23_write_served.
Print Assumptions C23_read_served.
Print Assumptions C23_read_progress.
Print Assumptions C23_record_fits.
Print Assumptions C23_record_overhead.
Print Assumptions C23_read_reply_fits.
Print Assumptions C23_holds.
Print Assumptions C23_go_advertised_le_accepted.
Print Assumptions C23_go_fields.
Print Assumptions C23_go_write_accepted.
Print Assumptions C23_go_read_served.
Print Assumptions C23_models_agree.
Print Assumptions C23_go_zero_iff.
Print Assumptions C23_hyps.
Print Assumptions C23_example_big.
Print Assumptions C23_example_2_32.
