(* Properties/C28.v — Every documented way of starting a server speaks standard ONC RPC over TCP (record marking).
   The model (Model/Framing.v) is thin by nature; the substance of this property's check is the TCP correspondence
   (Corr/C28.v): a conformant record-marking client against every start path. *)
From Coq Require Import ZArith Bool String List.
From Verif Require Import Gen.Facts Model.Framing.
Import ListNotations.
Open Scope Z_scope.

(* what the source says NOW: Export asks for record marking, StartWithPortmapper forces it, acceptLoop honours the flag *)
Theorem C28_facts :
  (cfg_export_sets_record_marking && cfg_swp_sets_record_marking && cfg_accept_dispatches_on_flag &&
   cfg_rm_loop_uses_record_io && cfg_raw_loop_uses_raw_io &&
   existsb (String.eqb "UseRecordMarking") cfg_export_server_fields)%bool = true.
Proof. vm_compute. reflexivity. Qed.

(* every documented start path, every port >= 0, every mount path, debug on or off: the server is started and its
   connections are served by the record-marking loop *)
Theorem C28_framing : forall p, documented p = true -> start p = Started RecordMarked.
Proof.
  intros p H. destruct p as [mp port | port dbg rm | port dbg rm]; unfold start, flag_at_accept; cbn in H.
  - apply andb_prop in H. destruct H as [H1 H2]. apply negb_true_iff in H1. rewrite H1.
    apply Z.leb_le in H2. destruct (port <? 0) eqn:E; [apply Z.ltb_lt in E; exfalso; apply (Z.lt_irrefl port); eapply Z.lt_le_trans; eassumption|].
    reflexivity.
  - apply andb_prop in H. destruct H as [H1 H2]. subst rm.
    apply Z.leb_le in H1. destruct (port <? 0) eqn:E; [apply Z.ltb_lt in E; exfalso; apply (Z.lt_irrefl port); eapply Z.lt_le_trans; eassumption|].
    reflexivity.
  - apply Z.leb_le in H. destruct (port <? 0) eqn:E; [apply Z.ltb_lt in E; exfalso; apply (Z.lt_irrefl port); eapply Z.lt_le_trans; eassumption|].
    reflexivity.
Qed.

(* the only way to get raw framing is to ask for it: Listen with UseRecordMarking = false (not a documented path for
   standard clients) *)
Theorem C28_raw_only_on_request : forall p, start p = Started Raw ->
  exists port dbg, p = ViaListen port dbg false.
Proof.
  intros p H. destruct p as [mp port | port dbg rm | port dbg rm]; unfold start, flag_at_accept in H.
  - destruct (String.eqb mp "" || (port <? 0))%bool; discriminate.
  - destruct (port <? 0); [discriminate|]. destruct rm; [discriminate|]. eauto.
  - destruct (port <? 0); discriminate.
Qed.

(* non-vacuity: documented paths exist (port 0, a fixed port, debug on), the model does distinguish the framings,
   and it refuses what the code refuses *)
Example C28_nontrivial :
  documented (ViaExport "/" 0) = true /\ documented (ViaExport "/export" 2049) = true /\
  documented (ViaListen 0 true true) = true /\ documented (ViaStartWithPortmapper 2049 false false) = true /\
  start (ViaListen 0 false false) = Started Raw /\
  start (ViaExport "" 2049) = Refused /\ start (ViaExport "/" (-1)) = Refused.
Proof. vm_compute. repeat split; reflexivity. Qed.

Print Assumptions C28_facts.
Print Assumptions C28_framing.
Print Assumptions C28_raw_only_on_request.
