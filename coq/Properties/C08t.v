(* Properties/C08t.v — the part of C08 (a read-only export is never modified) that is about SCHEDULES, stated over the
   policy LTS of Model/PolicyLTS.v: all traces, any number of requests, updates and handler timeouts.
   Only statements closed by [exact lemma], a non-vacuity Example and Print Assumptions live here.

   ro_in_force p0 s  (Proofs/PolicyRO.v; the definition Corr/C08t.v recomputes on the implementation's observations):
     the latest update that returned set ReadOnly (the returned update whose version is retmax s), or none has returned
     and the export was built read-only (p0), AND no update back to read-write is called-and-not-yet-returned/refused.
   Together with Properties/C08.v (under a ReadOnly policy no handler of Model/Srv.v issues a modifying backend
   operation) this gives: no modifying operation reaches the backend while read-only is in force, timeouts included. *)
From Coq Require Import List NArith Bool.
From Verif Require Import Model.PolicyLTS Proofs.PolicyProofs Proofs.PolicyRO.
Import ListNotations.
Open Scope N_scope.

(* in every reachable state in which read-only is in force, every backend operation (step Op r) belongs to a request
   whose worker still owns the read lock, which was admitted under the current version, whose snapshot - the policy it
   was admitted under - has ReadOnly = true, and the operation itself sees ReadOnly = true *)
Theorem C08_lts_readonly_in_force : forall p0 l0 tr s r s',
  run (init p0 l0) tr = Some s -> ro_in_force p0 s -> step s (Op r) = Some s' ->
  exists q, reqs s r = Some q /\ executing q = true /\
            r_snap q = r_adm q /\ r_adm q = cur s /\ r_snap_ro q = true /\ p_ro (cur_pol s) = true /\
            oplog s' = (r, cur s, true) :: oplog s.
Proof. exact readonly_in_force_lemma. Qed.

(* equivalently: a request admitted under a read-write policy has no backend operation while read-only is in force,
   whether or not HandleCall has already given up on it (its timeout flag r_h is unconstrained) *)
Theorem C08_lts_no_readwrite_request_op : forall p0 l0 tr s r q,
  run (init p0 l0) tr = Some s -> ro_in_force p0 s -> reqs s r = Some q -> r_snap_ro q = false ->
  step s (Op r) = None.
Proof. exact no_rw_request_op_lemma. Qed.

(* the reading of "latest returned update" used by ro_in_force: a return makes the returning update the one whose
   version is retmax, above all earlier ones *)
Theorem C08_lts_latest_returned : forall s u s', reachable s -> step s (URet u) = Some s' ->
  exists q, upds s' u = Some q /\ u_pc q = UReturned /\ u_ver q = retmax s' /\ retmax s <= retmax s' /\ retmax s' = cur s'.
Proof. exact ro_latest_returned. Qed.

(* non-vacuity: a writer admitted under read-write is held in the backend and HandleCall times out on it; an update
   to read-only is called and drains; the writer's remaining operation runs (read-only NOT yet in force), it finishes,
   the update returns; a request admitted under read-only then performs a backend operation while read-only is in force *)
Definition polr (ro : bool) : policy :=
  {| p_ro := ro; p_enable := false; p_cfg := None; p_squash := 0; p_maxsize := 0; p_secure := false |}.
Definition demo : list label :=
  [Arrive 1 None; TryRLock 1; Snap 1; Auth 1 true; Op 1; HTimeoutL 1;
   UCall 7 (polr true); UMu 7; ULock 7; Op 1; Finish 1; RUnlock 1;
   UAcquire 7; UStore 7; USwap 7; UUnlock 7; URet 7;
   Arrive 2 None; TryRLock 2; Snap 2; Auth 2 true].
Example C08_lts_nontrivial :
  exists s s', run (init (polr false) None) demo = Some s /\ ro_in_force (polr false) s /\
               step s (Op 2) = Some s' /\ oplog s' = [(2, 1, true); (1, 0, false); (1, 0, false)] /\
               (exists q, reqs s 1 = Some q /\ r_h q = HTimeout /\ r_snap_ro q = false /\ r_pc q = RDone) /\
               (exists q, reqs s 2 = Some q /\ r_snap_ro q = true /\ r_adm q = 1).
Proof.
  eexists. eexists. split; [vm_compute; reflexivity|]. split.
  - split.
    + left. exists 7. eexists. cbn. repeat split.
    + intros u q Hq Hro. cbn in Hq.
      match type of Hq with (if ?c then _ else _) = _ => destruct c; [|discriminate] end.
      injection Hq as <-. cbn in Hro. discriminate.
  - repeat split; try (eexists; repeat split; reflexivity).
Qed.

Print Assumptions C08_lts_readonly_in_force.
Print Assumptions C08_lts_no_readwrite_request_op.
Print Assumptions C08_lts_latest_returned.
