(* Properties/C14.v — every reply is a well-formed RFC 1813 / RFC 1831 reply.

   Statement (properties.jsonl): every call the server answers gets a reply that echoes its XID and decodes exactly,
   with no missing or trailing bytes, as the RFC 1831 reply and the RFC 1813 result type for its program, procedure and
   status — including calls rejected during a policy drain, by rate limiting, for undecodable arguments, or for unknown
   programs and procedures; every NFS status on the wire is a member of nfsstat3, MOUNT v3 replies use mountstat3.

   The grammar (Model/Rfc1813.v) is an exact decoder derived from the RFCs.  On the IMPLEMENTATION the statement is
   evaluated directly on the wire bytes of every reply (Corr/C14.v, no model involved).  On the MODEL it is proved:
     - C14_grammar_roundtrip / C14_encode_parse: everything the RFC encoder writes, for every tree / observation of the
       right shape (all attribute values, names and data of any length below 2^32), parses back consuming all bytes;
     - C14_model_shape: EVERY reply of Model/Srv.v (every state - read-only is part of the state -, credential, request)
       has the shape its procedure's result type demands for its status, and its status is in nfsstat3 / mountstat3 -
       except 4 (GARBAGE_ARGS) for requests whose strings do not decode: known finding k=1;
     - C14_wellformed: hence every reply of the model to a decodable request is a well-formed result in a well-formed
       RFC 1831 reply echoing the xid; C14_wellformed_known_k1 + C14_status_refuted: for undecodable requests the full
       statement is FALSE of the faithful model (status 4), and true once 4 is admitted as a failure status;
     - C14_drain_wellformed / C14_dispatch_wellformed: the answers HandleCall gives by itself (policy drain, MSG_DENIED,
       PROG_UNAVAIL, PROG_MISMATCH, PROC_UNAVAIL, GARBAGE_ARGS, SYSTEM_ERR, MOUNT's NULL/DUMP/UMNT/UMNTALL/EXPORT and
       the MNT3ERR_SERVERFAULT answers) are well-formed for every (program, version, procedure);
     - C14_ratelimit_refuted / C14_ratelimit_known_k2: the per-operation rate-limit answers carry 10013: not well-formed
       strictly (known finding k=2), well-formed once 10013 is admitted;
     - C14_facts: the status constants and error-helper uses of the CURRENT Go source (Gen/Facts.v).
   Hypothesis kept explicit: [sizes_ok] (data / names shorter than 2^32 bytes, i.e. expressible in XDR at all; the Go
   encoders truncate lengths with uint32(len(..)) in the same way). *)
From Coq Require Import List NArith ZArith Bool String.
From Verif Require Import Gen.Facts Model.Bytes Model.Handles Model.Backend Model.Srv Model.Rfc1813 Model.Rfc1813Enc.
From Verif Require Import Proofs.Rfc1813Proofs Proofs.Rfc1813Shape.
Import ListNotations.
Open Scope N_scope.

(* the full statement, for the model: every reply to every request is strictly well-formed *)
Definition C14_statement : Prop :=
  forall s c r p prog vers proc ex xid,
    proc_of r = Some p -> rproc_of prog vers proc = Some p ->
    sizes_ok (snd (step s c r)) ex = true ->
    exists k, parse_reply prog vers proc
                (wire_of xid (if ob_rpc (snd (step s c r)) =? 0
                              then AAccepted a_success (encode_results p (snd (step s c r)) ex)
                              else AAccepted (ob_rpc (snd (step s c r)) - 1000) [])) = Some (n32 xid, k).

(* ---- the grammar ---- *)
Theorem C14_grammar_roundtrip : forall extra prog vers proc p t,
  rproc_of prog vers proc = Some p -> tree_form_x extra p t = true -> tree_sizes t = true ->
  parse_results_x extra prog vers proc (enc_tree p t) = Some (norm_tree p t).
Proof. exact parse_results_enc. Qed.

Theorem C14_encode_parse : forall extra prog vers proc p o ex,
  rproc_of prog vers proc = Some p ->
  shape_ok p o = true -> (stat_member p (ob_status o) || extra (ob_status o)) = true -> sizes_ok o ex = true ->
  parse_results_x extra prog vers proc (encode_results p o ex) = Some (norm_tree p (tree_of_obs p o ex)).
Proof. exact encode_parse. Qed.

Theorem C14_reply_roundtrip : forall extra prog vers proc p t xid,
  rproc_of prog vers proc = Some p -> tree_form_x extra p t = true -> tree_sizes t = true ->
  parse_reply_x extra prog vers proc (enc_accepted xid AS_SUCCESS (enc_tree p t)) = Some (n32 xid, KSuccess (norm_tree p t)).
Proof. exact parse_reply_success. Qed.

(* the RFC 1831 encoders used here are the codec group's model of EncodeRPCReply with the null verifier *)
Theorem C14_header_is_EncodeRPCReply : forall xid acc body,
  acc <> Rpc.accept_prog_mismatch ->
  Rpc.enc_reply (Rpc.mkReply xid Rpc.msg_accepted acc 0 [] (if acc =? Rpc.accept_success then Rpc.DBytes body else Rpc.DNone)) =
  enc_accepted xid acc (if acc =? Rpc.accept_success then body else []).
Proof. exact enc_reply_accepted. Qed.

(* the grammar's integer decoder is the codec group's dec_u32 *)
Theorem C14_u32_is_dec_u32 : forall s, p_u32 s = Xdr.dec_ok (Xdr.dec_u32 s).
Proof. exact p_u32_dec. Qed.

(* ---- the server model ---- *)
Theorem C14_model_shape : forall s c r p, proc_of r = Some p ->
  reply_ok p (req_decodes r) (snd (step s c r)) = true /\ status_ok p r (snd (step s c r)) = true.
Proof. exact model_reply_shape. Qed.

Theorem C14_wellformed : forall s c r p prog vers proc ex xid,
  proc_of r = Some p -> rproc_of prog vers proc = Some p -> req_decodes r = true ->
  let o := snd (step s c r) in
  sizes_ok o ex = true ->
  parse_results prog vers proc (encode_results p o ex) = Some (norm_tree p (tree_of_obs p o ex)) /\
  parse_reply prog vers proc (enc_accepted xid AS_SUCCESS (encode_results p o ex)) =
    Some (n32 xid, KSuccess (norm_tree p (tree_of_obs p o ex))).
Proof. exact model_wellformed. Qed.

Theorem C14_wellformed_bool : forall s c r p prog vers proc ex xid,
  proc_of r = Some p -> rproc_of prog vers proc = Some p -> req_decodes r = true ->
  let o := snd (step s c r) in
  sizes_ok o ex = true -> bytesb (encode_results p o ex) = true ->
  wellformed prog vers proc (n32 xid) (enc_accepted xid AS_SUCCESS (encode_results p o ex)) = true.
Proof. exact model_wellformed_bool. Qed.

(* known finding k=1: what holds for requests that do not decode *)
Theorem C14_wellformed_known_k1 : forall s c r p prog vers proc ex xid,
  proc_of r = Some p -> rproc_of prog vers proc = Some p -> req_decodes r = false ->
  let o := snd (step s c r) in
  sizes_ok o ex = true ->
  (ob_rpc o = 1000 + AS_GARBAGE_ARGS /\ is_mount p = true /\
   parse_reply prog vers proc (enc_accepted xid AS_GARBAGE_ARGS []) = Some (n32 xid, KGarbageArgs)) \/
  (ob_rpc o = 0 /\
   parse_reply_x k1 prog vers proc (enc_accepted xid AS_SUCCESS (encode_results p o ex)) =
     Some (n32 xid, KSuccess (norm_tree p (tree_of_obs p o ex)))).
Proof. exact model_wellformed_k1. Qed.

(* ... and the full statement is false of the faithful model: LOOKUP "a\0b" is answered with status 4 *)
Theorem C14_status_refuted :
  exists s c r p prog vers proc ex,
    proc_of r = Some p /\ rproc_of prog vers proc = Some p /\
    ob_status (snd (step s c r)) = 4 /\ in_nfsstat3 4 = false /\
    parse_results prog vers proc (encode_results p (snd (step s c r)) ex) = None.
Proof. exact model_status_refuted. Qed.

(* ---- HandleCall around the handlers ---- *)
Theorem C14_drain_wellformed : forall extra prog vers proc xid,
  parses extra prog vers proc xid (wire_of xid (drain_reply prog vers proc)).
Proof. exact drain_reply_parses. Qed.

Theorem C14_dispatch_wellformed : forall extra m prog vers proc args_ok large t xid,
  (forall p, rproc_of prog vers proc = Some p -> tree_form_x extra p t = true /\ tree_sizes t = true) ->
  let handler := match rproc_of prog vers proc with Some p => enc_tree p t | None => [] end in
  parses extra prog vers proc xid (wire_of xid (call_reply m prog vers proc args_ok large handler)).
Proof. exact call_reply_parses. Qed.

(* known finding k=2 *)
Theorem C14_ratelimit_refuted :
  forallb (fun pp => match parse_results PROG_NFS 3 (fst pp) (limited_reply (snd pp)) with None => true | Some _ => false end)
          [(6, NfsRead); (7, NfsWrite); (16, NfsReaddir); (17, NfsReaddirplus)] = true.
Proof. exact limited_reply_refuted. Qed.
Theorem C14_ratelimit_known_k2 :
  forallb (fun pp => match parse_results_x k2 PROG_NFS 3 (fst pp) (limited_reply (snd pp)) with
                     | Some t => match rt_status t with Some st => st =? 10013 | None => false end
                     | None => false end)
          [(6, NfsRead); (7, NfsWrite); (16, NfsReaddir); (17, NfsReaddirplus)] = true.
Proof. exact limited_reply_k2. Qed.

(* ---- the current source ---- *)
Definition zN (z : Z) : N := Z.to_N z.
Definition seqb (a b : string) : bool := String.eqb a b.
Definition memS (x : string) (l : list string) : bool := existsb (seqb x) l.
(* RFC failure body of the procedure a handler serves, as the name of the helper that writes it *)
Definition helper_of (f : fshape) : string :=
  match f with FVoid => "nfsErrorReply" | FPost => "nfsErrorWithPostOp" | FWcc => "nfsErrorWithWcc"
             | FWcc2 => "nfsErrorWithDoubleWcc" | FPostWcc => "nfsErrorWithPostOpAndWcc" end%string.
Definition handler_helpers_ok (e : Z * string) : bool :=
  match nth_error nfs_procs (Z.to_nat (fst e)) with
  | Some NfsNull => true
  | Some p =>
      match find (fun hh => seqb (fst hh) (snd e)) c14_handler_helpers with
      | Some (_, hs) => forallb (seqb (helper_of (fail_shape p))) hs && negb (isnil hs)
      | None => false
      end
  | None => false
  end.
Definition rl_handlers : list string := ["handleRead"; "handleWrite"; "handleReaddir"; "handleReaddirplus"]%string.
Definition site_ok (e : string * string * Z) : bool :=
  let '(f, h, v) := e in
  in_nfsstat3 (zN v)
  || ((v =? c_GARBAGE_ARGS)%Z && negb (seqb f "drainReply"))                 (* k=1 *)
  || ((v =? c_NFSERR_DELAY)%Z && memS f rl_handlers)                          (* k=2 *)
  || ((v =? 10006)%Z && seqb f "drainReply" && seqb h "nfsErrorReply").       (* MNT3ERR_SERVERFAULT *)
Definition source_ok (e : string * Z) : bool :=
  in_nfsstat3 (zN (snd e)) || (seqb (fst e) "mapError" && (snd e =? c_NFSERR_DELAY)%Z).   (* k=2: timeouts *)

Theorem C14_facts :
  (* RFC 1831 numbers *)
  ((zN c_RPC_REPLY =? RPC_MSG_REPLY) && (zN c_MSG_ACCEPTED =? RS_MSG_ACCEPTED) && (zN c_MSG_DENIED =? RS_MSG_DENIED) &&
   (zN c_SUCCESS =? AS_SUCCESS) && (zN c_PROG_UNAVAIL =? AS_PROG_UNAVAIL) && (zN c_PROG_MISMATCH =? AS_PROG_MISMATCH) &&
   (zN c_PROC_UNAVAIL =? AS_PROC_UNAVAIL) && (zN c_GARBAGE_ARGS =? AS_GARBAGE_ARGS) && (zN c_SYSTEM_ERR =? AS_SYSTEM_ERR) &&
   (zN c_AUTH_ERROR =? RJ_AUTH_ERROR) && (zN c_RPC_MISMATCH =? RJ_RPC_MISMATCH) &&
   (zN c_NFS_PROGRAM =? PROG_NFS) && (zN c_MOUNT_PROGRAM =? PROG_MOUNT) && (zN c_NFS_V3 =? 3) && (zN c_MOUNT_V3 =? 3) &&
   (* the status constants the handlers use are nfsstat3 members ... *)
   forallb (fun z => in_nfsstat3 (zN z))
     [c_NFS_OK; c_NFSERR_PERM; c_NFSERR_NOENT; c_NFSERR_IO; c_NFSERR_NXIO; c_NFSERR_ACCES; c_NFSERR_EXIST; c_NFSERR_NODEV;
      c_NFSERR_NOTDIR; c_NFSERR_ISDIR; c_NFSERR_INVAL; c_NFSERR_FBIG; c_NFSERR_NOSPC; c_NFSERR_ROFS; c_NFSERR_NAMETOOLONG;
      c_NFSERR_NOTEMPTY; c_NFSERR_DQUOT; c_NFSERR_STALE; c_NFSERR_BADHANDLE; c_NFSERR_NOT_SYNC; c_NFSERR_NOTSUPP;
      c_NFSERR_JUKEBOX] &&
   (* ... except these three (GARBAGE_ARGS and NFSERR_DELAY are used: k=1, k=2; NFSERR_WFLUSH is NFSv2's and unused) *)
   forallb (fun z => negb (in_nfsstat3 (zN z))) [c_GARBAGE_ARGS; c_NFSERR_DELAY; c_NFSERR_WFLUSH] &&
   negb (existsb (fun e => (snd e =? c_NFSERR_WFLUSH)%Z) c14_error_sites) &&
   (* every handler of the dispatch table writes its failures with the helper of its procedure's RFC failure body *)
   forallb handler_helpers_ok nfs_dispatch && (List.length nfs_dispatch =? 22)%nat &&
   (* every constant status handed to a helper, every constant a computed status ranges over, every status word written
      directly: an nfsstat3 member, or one of the two known findings at the places they are known *)
   forallb site_ok c14_error_sites && forallb source_ok c14_status_sources &&
   forallb (fun e => in_nfsstat3 (zN (snd e))) c14_direct_statuses &&
   (* the file types of encodeFileAttributes are ftype3 values; handles are 8 bytes *)
   forallb (fun z => ftype3_ok (zN z)) [c_NF3REG; c_NF3DIR; c_NF3BLK; c_NF3CHR; c_NF3LNK; c_NF3SOCK; c_NF3FIFO] &&
   (zN f_fh_enc_len =? 8))%bool = true.
Proof. vm_compute. reflexivity. Qed.

(* ---- non-vacuity ---- *)
(* a populated state: MNT "/", then requests over the root handle; the replies have success shapes and their encodings are
   well-formed replies (evaluated by computation) *)
Definition ex0 : extras := go_extras 7 9.
Definition after_mnt : srv := fst (step srv0 cred0 (RMnt [47])).
Definition root_h : N := match ob_fh (snd (step srv0 cred0 (RMnt [47]))) with Some h => h | None => 0 end.
Definition wf_step (s : srv) (r : req) (prog vers proc : N) : bool :=
  match proc_of r with
  | Some p => let o := snd (step s cred0 r) in
              reply_ok p (req_decodes r) o && sizes_ok o ex0 && (ob_status o =? 0) &&
              wellformed prog vers proc 77 (enc_accepted 77 AS_SUCCESS (encode_results p o ex0))
  | None => false
  end.
Example C14_wellformed_nonvacuous :
  wf_step srv0 (RMnt [47]) PROG_MOUNT 3 1 && wf_step after_mnt (RGetattr root_h) PROG_NFS 3 1 &&
  wf_step after_mnt (RMkdir root_h [100] {| s_mode := None; s_uid := None; s_gid := None; s_size := None; s_atime := 0;
                                             s_atime_v := 0; s_mtime := 0; s_mtime_v := 0 |}) PROG_NFS 3 9 &&
  wf_step after_mnt (RReaddirplus root_h 0 4096 8192) PROG_NFS 3 17 && wf_step after_mnt (RFsinfo root_h) PROG_NFS 3 19 &&
  wf_step after_mnt (RAccess root_h 63) PROG_NFS 3 4 = true.
Proof. vm_compute. reflexivity. Qed.
(* the hypotheses of C14_wellformed are met by a failing request too (stale handle), and its reply is a failure body *)
Example C14_failure_nonvacuous :
  let o := snd (step srv0 cred0 (RLookup 42 [97])) in
  (ob_status o =? 70) && sizes_ok o ex0 && req_decodes (RLookup 42 [97]) &&
  wellformed PROG_NFS 3 3 5 (enc_accepted 5 AS_SUCCESS (encode_results NfsLookup o ex0)) = true.
Proof. vm_compute. reflexivity. Qed.
(* the oracle is not trivially true: a reply with one trailing byte, a wrong xid, a truncated one, a status outside
   nfsstat3 and a failure reply with the wrong body are all refused *)
Example C14_oracle_rejects :
  let good := enc_accepted 5 AS_SUCCESS (e_u32 70 ++ e_u32 0) in
  wellformed PROG_NFS 3 3 5 good && negb (wellformed PROG_NFS 3 3 5 (good ++ [0])) && negb (wellformed PROG_NFS 3 3 6 good) &&
  negb (wellformed PROG_NFS 3 3 5 (removelast good)) && negb (wellformed PROG_NFS 3 3 5 (enc_accepted 5 AS_SUCCESS (e_u32 4 ++ e_u32 0))) &&
  negb (wellformed PROG_NFS 3 3 5 (enc_accepted 5 AS_SUCCESS (e_u32 70))) &&
  negb (wellformed PROG_NFS 3 1 5 (enc_accepted 5 AS_SUCCESS (e_u32 70 ++ e_u32 0))) &&
  negb (wellformed PROG_NFS 3 3 5 (enc_accepted 5 AS_SUCCESS (e_u32 70 ++ e_u32 2))) = true.
Proof. vm_compute. reflexivity. Qed.

Print Assumptions C14_grammar_roundtrip.
Print Assumptions C14_encode_parse.
Print Assumptions C14_reply_roundtrip.
Print Assumptions C14_header_is_EncodeRPCReply.
Print Assumptions C14_u32_is_dec_u32.
Print Assumptions C14_model_shape.
Print Assumptions C14_wellformed.
Print Assumptions C14_wellformed_bool.
Print Assumptions C14_wellformed_known_k1.
Print Assumptions C14_status_refuted.
Print Assumptions C14_drain_wellformed.
Print Assumptions C14_dispatch_wellformed.
Print Assumptions C14_ratelimit_refuted.
Print Assumptions C14_ratelimit_known_k2.
Print Assumptions C14_facts.
