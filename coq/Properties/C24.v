(* Properties/C24.v — Runtime reconfiguration keeps the server serviceable and is all-or-nothing.
   Model: Model/Config.v (New, UpdateExportOptions, UpdateTuningOptions, UpdatePolicyOptions, GetExportOptions and the
   parameters the caches / worker pool / rate limiter run with), parameterised by the default tables and the step
   orders astfacts reads from /repo (Gen/Facts.v).  Histories are arbitrary lists of updates; an UpdateTuningOptions
   step carries an ARBITRARY function tuning -> tuning; field values are arbitrary integers. *)
From Coq Require Import List ZArith NArith Bool String.
From Verif Require Import Gen.Facts Model.Config Proofs.ConfigProofs.
Import ListNotations.
Open Scope Z_scope.

(* ---- facts read from the source that the statements below rely on ---- *)
Definition subset_str (a b : list string) : bool := forallb (fun x => mem_str x b) a.
Definition same_set (a b : list string) : bool := (subset_str a b && subset_str b a)%bool.
Definition doc_default (tbl : list (string * cfg_dexpr)) (f : string) (d : cfg_dexpr) : bool :=
  match cfg_lookup tbl f, d with
  | Some (CfgConst a), CfgConst b => a =? b
  | Some (CfgNumCPUTimes a), CfgNumCPUTimes b => a =? b
  | _, _ => false
  end.
(* the defaults documented on ExportOptions / TimeoutConfig (options.go), durations in ns *)
Definition documented_defaults : list (string * cfg_dexpr) :=
  [("TransferSize", CfgConst 65536); ("AttrCacheTimeout", CfgConst 5000000000); ("AttrCacheSize", CfgConst 10000);
   ("NegativeCacheTimeout", CfgConst 5000000000); ("DirCacheTimeout", CfgConst 10000000000);
   ("DirCacheMaxEntries", CfgConst 1000); ("DirCacheMaxDirSize", CfgConst 10000); ("MaxWorkers", CfgNumCPUTimes 4);
   ("MaxConnections", CfgConst 100); ("IdleTimeout", CfgConst 300000000000); ("SendBufferSize", CfgConst 262144);
   ("ReceiveBufferSize", CfgConst 262144)]%string.
Definition documented_timeouts : list (string * cfg_dexpr) :=
  [("ReadTimeout", CfgConst 30000000000); ("WriteTimeout", CfgConst 60000000000); ("LookupTimeout", CfgConst 10000000000);
   ("ReaddirTimeout", CfgConst 30000000000); ("CreateTimeout", CfgConst 15000000000); ("RemoveTimeout", CfgConst 15000000000);
   ("RenameTimeout", CfgConst 20000000000); ("HandleTimeout", CfgConst 5000000000); ("DefaultTimeout", CfgConst 30000000000)]%string.

Theorem C24_facts :
  (* New's defaults are the documented ones *)
  (forallb (fun r => doc_default cfg_new_defaults (fst r) (snd r)) documented_defaults &&
   forallb (fun r => doc_default cfg_new_timeouts_nil (fst r) (snd r)) documented_timeouts &&
  (* the model's field enumeration is exactly TuningOptions / PolicyOptions / ExportOptions of the Go source *)
   same_set (map nfield_name all_nfields ++ map bfield_name all_bfields ++ ["Log"; "Timeouts"]%string) cfg_tuning_fields &&
   same_set ["ReadOnly"; "Secure"; "AllowedIPs"; "Squash"; "MaxFileSize"; "EnableRateLimiting"; "RateLimitConfig"; "TLS"]%string cfg_policy_fields &&
   same_set (cfg_tuning_fields ++ cfg_policy_fields) cfg_export_fields &&
  (* every field is copied by the conversions between ExportOptions and the two snapshots, in both directions *)
   same_set cfg_get_copies cfg_export_fields &&
   same_set cfg_tuning_from_export_copies cfg_tuning_fields &&
   same_set cfg_policy_from_export_copies cfg_policy_fields &&
   same_set cfg_update_export_policy_copies cfg_policy_fields)%bool = true.
Proof. vm_compute. reflexivity. Qed.

(* the three update functions do their steps in this order NOW (the model executes these lists):
   UpdateExportOptions validates Squash before it applies anything; UpdateTuningOptions applies the defaults before it
   stores; UpdatePolicyOptions checks Squash, defaults a nil RateLimitConfig, stores, then replaces the limiter *)
Theorem C24_step_order :
  cfg_update_export_steps = ["squash_check"; "tuning"; "policy"]%string /\
  cfg_update_tuning_steps = ["fn"; "defaults"; "store"; "side_effects"]%string /\
  cfg_update_policy_steps = ["squash_check"; "rlc_default"; "store"; "limiter"]%string.
Proof. repeat split; reflexivity. Qed.

(* runtime defaults = construction defaults: applyTuningDefaults and New agree on every numeric / duration field and
   on every timeout, for every input; proved from the two extracted tables, so a divergence between New and
   applyTuningDefaults breaks this obligation *)
Theorem C24_same_as_new : forall ncpu t,
  (forall f, num (apply_tuning_defaults ncpu t) f = num (new_tuning ncpu t) f) /\
  exists h h', timeouts (apply_tuning_defaults ncpu t) = Some h /\ timeouts (new_tuning ncpu t) = Some h' /\
               forall f, h f = h' f.
Proof. intros ncpu t. split; [intros f; apply same_as_new_num | apply same_as_new_timeouts]. Qed.

Section C24.
Variable ncpu : Z.                 (* runtime.NumCPU() *)
Hypothesis ncpu_pos : 0 < ncpu.

(* what New itself does is the meaning of "the defaults at construction" *)
Theorem C24_new_defaults : forall g, defaults_applied ncpu g (new_tuning ncpu g).
Proof. intros g. apply new_defaults_applied. exact ncpu_pos. Qed.

(* ---- the property, to the letter ---- *)
(* after any history, whatever an accepted update hands in: every numeric / duration field that is <= 0 and every nil
   pointer field takes the value New would give it (nil Log: no logging; nil RateLimitConfig: the default one) *)
Definition C24_defaults_letter : Prop :=
  forall o0 s0 us u s', new ncpu o0 = Some s0 -> apply_update ncpu (run ncpu s0 us) u = (true, s') ->
    (forall g, given_tuning u (run ncpu s0 us) = Some g ->
       defaults_applied ncpu g (s_tuning s') /\ (log g = None -> log (s_tuning s') = None)) /\
    (forall p, given_policy u = Some p -> rlc p = None -> rlc (s_policy s') = Some default_rlc).
Definition C24_reported_statement : Prop :=
  forall s, reachable ncpu s ->
    get_export_options s = (s_tuning s, s_policy s) /\ comp_agrees s /\ dir_agrees s.
Definition C24_statement : Prop :=
  C24_defaults_letter /\
  (forall s, reachable ncpu s -> serviceable (s_tuning s)) /\
  C24_reported_statement /\
  (forall s u s', apply_update ncpu s u = (false, s') -> s' = s).

(* ---- what holds ---- *)
(* after any history every defaulted field is positive; hence READ / WRITE / LOOKUP keep a transfer size >= 1 and
   positive timeouts *)
Theorem C24_serviceable : forall s, reachable ncpu s -> positive_config s /\ serviceable (s_tuning s).
Proof.
  intros s R. destruct (reachable_inv ncpu s ncpu_pos R) as [P _]. split; [exact P|].
  destruct P as (P1 & P2 & _). split; [specialize (P1 TransferSize); apply Z.lt_pred_le; exact P1 | exact P2].
Qed.

(* an accepted update, after any history: every numeric / duration field given <= 0, every timeout given <= 0 and a nil
   Timeouts take New's defaults and positive values are kept - reading a nil Timeouts / Log handed to
   UpdateExportOptions as "keep the current value" (effective_tuning); a nil RateLimitConfig gets the default
   configuration as in New; the remaining policy fields are stored as given *)
Theorem C24_defaults_partial : forall s u s', reachable ncpu s -> apply_update ncpu s u = (true, s') ->
  (forall g, effective_tuning u s = Some g -> defaults_applied ncpu g (s_tuning s')) /\
  (forall p, given_policy u = Some p ->
     rlc (s_policy s') = (match rlc p with None => Some default_rlc | r => r end) /\
     read_only (s_policy s') = read_only p /\ secure (s_policy s') = secure p /\
     allowed_ips (s_policy s') = allowed_ips p /\ max_file_size (s_policy s') = max_file_size p /\
     enable_rl (s_policy s') = enable_rl p /\ tls (s_policy s') = tls p /\
     squash (s_policy s') = squash (s_policy s)) /\
  (forall p, u = UPolicy p -> s_tuning s' = s_tuning s) /\
  (forall fn, u = UTuning fn -> s_policy s' = s_policy s).
Proof.
  intros s u s' R H. split; [|split; [|split]].
  - intros g Hg. exact (accepted_tuning ncpu s u s' g ncpu_pos H Hg).
  - intros p Hp. exact (accepted_policy ncpu s u s' p H Hp).
  - intros p ->. exact (accepted_policy_only ncpu s p s' H).
  - intros fn ->. cbn [apply_update] in H. injection H as <-. apply accepted_tuning_only.
Qed.

(* the documented exception, exactly: a nil Timeouts / Log handed to UpdateExportOptions keeps the current values
   (which are positive) *)
Theorem C24_export_nil_keeps_current : forall o s s', reachable ncpu s -> update_export ncpu o s = (true, s') ->
  (log (fst o) = None -> log (s_tuning s') = log (s_tuning s)) /\
  (timeouts (fst o) = None ->
     exists h h', timeouts (s_tuning s) = Some h /\ timeouts (s_tuning s') = Some h' /\ forall f, h' f = h f).
Proof. intros o s s' R H. exact (export_nil_preserved ncpu o s s' ncpu_pos (reachable_inv ncpu s ncpu_pos R) H). Qed.

(* GetExportOptions reports the snapshots requests read, and the caches, the worker pool and the rate limiter run with
   exactly the reported parameters (directory cache: timeout and max entries; see the refutation below for the rest) *)
Theorem C24_reported_partial : forall s, reachable ncpu s ->
  get_export_options s = (s_tuning s, s_policy s) /\ comp_agrees s.
Proof. intros s R. split; [reflexivity|]. apply (reachable_inv ncpu s ncpu_pos R). Qed.

(* all-or-nothing: a rejected update returns the state it was given, caches / pool / limiter parameters included;
   this holds in any state, reachable or not; the rejected updates are exactly the Squash changes *)
Theorem C24_atomic : forall s u s', apply_update ncpu s u = (false, s') -> s' = s.
Proof. exact (atomic_lemma ncpu). Qed.
Theorem C24_rejected_iff : forall s u,
  fst (apply_update ncpu s u) = false <->
  match u with
  | UExport o => squash (snd o) <> ""%string /\ squash (snd o) <> squash (s_policy s)
  | UTuning _ => False
  | UPolicy p => squash p <> squash (s_policy s)
  end.
Proof. exact (rejected_iff ncpu). Qed.

(* ---- known findings: the letter of the property fails on the faithful model ---- *)
Definition zero_tuning : tuning := mkTuning (fun _ => 0) (fun _ => false) None None.
Definition zero_policy : policy := mkPolicy false false [] ""%string 0 false None None.
Definition one_second_read : tfield -> Z := fun f => match f with ReadTimeout => 1000000000 | _ => 0 end.

(* k=1: New{Timeouts:{ReadTimeout:1s}}; UpdateExportOptions{} keeps ReadTimeout 1s, New's default is 30s *)
Theorem C24_nil_timeouts_refuted : ~ C24_defaults_letter.
Proof.
  intros L.
  destruct (L (set_timeouts zero_tuning (Some one_second_read), zero_policy) _ [] (UExport (zero_tuning, zero_policy)) _
              eq_refl eq_refl) as [L1 _].
  destruct (L1 _ eq_refl) as [[_ (h & Hh & Hf)] _].
  cbn [given_tuning fst zero_tuning timeouts] in Hf.
  specialize (Hf ReadTimeout). injection Hh as <-. vm_compute in Hf. discriminate.
Qed.

(* k=2: New{}; UpdateTuningOptions(EnableDirCache = true) reports a directory cache that does not exist *)
Theorem C24_reported_dircache_refuted : ~ C24_reported_statement.
Proof.
  intros L.
  destruct (L (run ncpu (mkServer (new_tuning ncpu zero_tuning) (new_policy zero_policy)
                           (new_components (new_tuning ncpu zero_tuning) (new_policy zero_policy)))
                   [UTuning (fun t => set_flag t (fun f => match f with EnableDirCache => true | _ => flag t f end))]))
    as (_ & _ & D).
  - exists (zero_tuning, zero_policy). eexists. eexists. split; reflexivity.
  - vm_compute in D. discriminate.
Qed.
End C24.

(* ---- non-vacuity ---- *)
(* a reachable state after a history with zero, negative, partial and nil inputs and a rejected Squash change:
   TransferSize back at 65536, DefaultTimeout 30 s, the reported limiter configuration in force *)
Example C24_nontrivial :
  let fn1 := fun t => set_timeouts (set_num t (fun f => match f with TransferSize => -5 | MaxWorkers => 0 | _ => num t f end))
                                   (Some (fun f => match f with ReadTimeout => 7 | _ => 0 end)) in
  let s0 := mkServer (new_tuning 2 zero_tuning) (new_policy (set_squash zero_policy "root"))
                     (new_components (new_tuning 2 zero_tuning) (new_policy (set_squash zero_policy "root"))) in
  let us := [UTuning fn1;
             UExport (zero_tuning, set_squash zero_policy "all");
             UPolicy (mkPolicy true false [] "root"%string 0 true None None)] in
  let s := run 2 s0 us in
  reachable 2 s /\
  num (s_tuning s) TransferSize = 65536 /\ num (s_tuning s) MaxWorkers = 8 /\
  option_map (fun g => (g ReadTimeout, g DefaultTimeout)) (timeouts (s_tuning s)) = Some (7, 30000000000) /\
  fst (apply_update 2 (run 2 s0 [UTuning fn1]) (UExport (zero_tuning, set_squash zero_policy "all"))) = false /\
  c_limiter (s_comp s) = Some default_rlc /\ read_only (s_policy s) = true.
Proof.
  cbv zeta. split.
  - exists (zero_tuning, set_squash zero_policy "root"). eexists. eexists. split; reflexivity.
  - vm_compute. repeat split; reflexivity.
Qed.

Print Assumptions C24_facts.
Print Assumptions C24_step_order.
Print Assumptions C24_same_as_new.
Print Assumptions C24_new_defaults.
Print Assumptions C24_serviceable.
Print Assumptions C24_defaults_partial.
Print Assumptions C24_export_nil_keeps_current.
Print Assumptions C24_reported_partial.
Print Assumptions C24_atomic.
Print Assumptions C24_rejected_iff.
Print Assumptions C24_nil_timeouts_refuted.
Print Assumptions C24_reported_dircache_refuted.
