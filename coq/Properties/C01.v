(* Properties/C01.v — File data read back through the server equals the data written.
   Model: Model/Srv.v (READ, WRITE, SETATTR, CREATE handlers) over Model/Backend.v (sparse file bytes).
   Specification (Proofs/BackendData.v, section 0): a file is (size, byte_at : N -> N);
     spec_write f off payload n / spec_trunc f sz / spec_read f off count;  file_of o = (o_size o, sd_get (o_data o)).
   Every theorem is for ALL server states (any tree, any attribute/dir cache contents and configuration, any
   handle table), credentials, handles, offsets, counts and payloads.  Hypotheses used:
     lookup_node s h = Some (p, na)     the handle is live and denotes path p
     na_kind na <> KLink                the node recorded with the handle is not a symbolic link (READ, WRITE and
                                        SETATTR answer INVAL on symlink handles: see the *_guard theorems)
     plain_file (fs s) p o              p resolves to itself, with and without following a final symlink,
                                        and the object o there is a regular file
     nodup_keys (fs s)                  (WRITE only) the flat map has no duplicate key - part of the backend's
                                        well-formedness invariant; needed because WriteAt replaces the entry by value
   Rejected inputs are stated explicitly (the *_guard theorems): the totalised definitions hide nothing. *)
From Coq Require Import List NArith ZArith Bool.
From Verif Require Import Gen.Facts Model.Handles Model.Backend Model.Srv Proofs.SrvRO Proofs.BackendData Proofs.SrvData.
Import ListNotations.
Open Scope N_scope.

(* ---------- the sparse representation implements the byte array ---------- *)
Theorem C01_sd_write : forall bs d off i,
  sd_get (sd_write d off bs) i =
  if (off <=? i) && (i <? off + N.of_nat (length bs)) then nth (N.to_nat (i - off)) bs 0 else sd_get d i.
Proof. exact sd_get_write. Qed.
Theorem C01_sd_trunc : forall d sz i, sd_get (sd_trunc d sz) i = if i <? sz then sd_get d i else 0.
Proof. exact sd_get_trunc. Qed.
Theorem C01_sd_read : forall n d off, sd_read d off n = map (fun k => sd_get d (off + N.of_nat k)) (seq 0 n).
Proof. exact sd_read_spec. Qed.

(* ---------- READ ---------- *)
(* count = min(requested, transfer size, size - offset), 0 at or beyond EOF; exactly the file's bytes (zeros in
   holes); eof iff offset + count reaches the size; nothing changes in the tree or the configuration and no
   mutating backend call is made *)
Theorem C01_read : forall s h p na o off cnt,
  lookup_node s h = Some (p, na) -> na_kind na <> KLink -> plain_file (fs s) p o -> off + cnt < two64 -> off < two63N ->
  let r := handle_read s h off cnt in
  let count := if o_size o <=? off then 0 else N.min (N.min cnt (tsize (conf s))) (o_size o - off) in
  ob_rpc (snd r) = 0 /\ ob_status (snd r) = 0 /\ ob_nums (snd r) = [count] /\
  ob_bytes (snd r) = spec_read (file_of o) off count /\
  ob_eof (snd r) = (o_size o <=? off + count) /\
  (fs (fst r) = fs s /\ conf (fst r) = conf s /\
   ((forall b, In b (blog s) -> mutating b = false) -> forall b, In b (blog (fst r)) -> mutating b = false)).
Proof. exact handle_read_ok. Qed.

(* offset + count >= 2^64 -> INVAL; symlink handle -> INVAL; offset >= 2^63 ("negative offset") -> IO; the state is
   returned untouched *)
Theorem C01_read_guard : forall s h off cnt,
  let r := handle_read s h off cnt in
  (cnt < two64 -> two64 <= off + cnt -> r = (s, fail_post NFSERR_INVAL)) /\
  (off + cnt < two64 -> forall p na, lookup_node s h = Some (p, na) -> na_kind na = KLink -> r = (s, fail_post NFSERR_INVAL)) /\
  (off + cnt < two64 -> two63N <= off -> forall p na, lookup_node s h = Some (p, na) -> na_kind na <> KLink ->
     r = (s, fail_post NFSERR_IO)).
Proof. exact handle_read_guard. Qed.

(* ---------- WRITE ---------- *)
(* an accepted WRITE answers OK, count = the requested count, FILE_SYNC (2); the file becomes spec_write of
   itself (exactly the payload at [off, off+cnt), size max(old, off+cnt), unchanged when cnt = 0), keeps kind,
   permissions and owner, is synced (durable = volatile contents), and no other path changes *)
Theorem C01_write : forall s h p na o off cnt stable data,
  lookup_node s h = Some (p, na) -> na_kind na <> KLink -> plain_file (fs s) p o -> nodup_keys (fs s) ->
  ro (conf s) = false -> cnt = N.of_nat (length data) -> cnt <= tsize (conf s) ->
  off + cnt < two63N ->
  (maxfile (conf s) = 0 \/ cnt = 0 \/ off + cnt <= maxfile (conf s)) ->
  let r := handle_write s h off cnt stable data in
  ob_rpc (snd r) = 0 /\ ob_status (snd r) = 0 /\ ob_nums (snd r) = [cnt; 2] /\
  (exists o', fs_get (fs (fst r)) p = Some o' /\ o_kind o' = KFile /\
              o_perm o' = o_perm o /\ o_uid o' = o_uid o /\ o_gid o' = o_gid o /\
              bf_eq (file_of o') (spec_write (file_of o) off data cnt) /\
              bf_eq (durable_of o') (file_of o')) /\
  (forall p', p' <> p -> fs_get (fs (fst r)) p' = fs_get (fs s) p').
Proof. exact handle_write_ok. Qed.

(* the rejections in front of the backend: the state is returned untouched *)
Theorem C01_write_guard : forall s h off cnt stable data,
  let r := handle_write s h off cnt stable data in
  (ro (conf s) = true -> r = (s, fail_wcc NFSERR_ROFS)) /\
  (ro (conf s) = false -> cnt < two64 -> two64 <= off + cnt -> r = (s, fail_wcc NFSERR_INVAL)) /\
  (ro (conf s) = false -> off + cnt < two64 -> cnt <> N.of_nat (length data) -> r = (s, fail_wcc GARBAGE)) /\
  (ro (conf s) = false -> off + cnt < two64 -> cnt = N.of_nat (length data) -> tsize (conf s) < cnt ->
     r = (s, fail_wcc NFSERR_INVAL)) /\
  (* a symbolic-link handle *)
  (ro (conf s) = false -> off + cnt < two64 -> cnt = N.of_nat (length data) -> cnt <= tsize (conf s) ->
     (maxfile (conf s) = 0 \/ cnt = 0 \/ off + cnt <= maxfile (conf s)) ->
     forall p na, lookup_node s h = Some (p, na) -> na_kind na = KLink -> r = (s, fail_wcc NFSERR_INVAL)).
Proof. exact handle_write_guard. Qed.

(* the int64 rejections: offset >= 2^63 (no backend call at all), and the backend's EINVAL when
   offset + count >= 2^63; NFS3ERR_IO, no count, tree unchanged *)
Theorem C01_write_guard63 : forall s h p na o off cnt stable data,
  lookup_node s h = Some (p, na) -> na_kind na <> KLink -> plain_file (fs s) p o ->
  ro (conf s) = false -> cnt = N.of_nat (length data) -> cnt <= tsize (conf s) ->
  off + cnt < two64 -> (maxfile (conf s) = 0 \/ cnt = 0 \/ off + cnt <= maxfile (conf s)) -> two63N <= off + cnt ->
  let r := handle_write s h off cnt stable data in
  ob_rpc (snd r) = 0 /\ ob_status (snd r) = NFSERR_IO /\ ob_nums (snd r) = [] /\ fs (fst r) = fs s /\
  (two63N <= off -> fs (fst r) = fs s /\ conf (fst r) = conf s /\
     ((forall b, In b (blog s) -> mutating b = false) -> forall b, In b (blog (fst r)) -> mutating b = false)).
Proof. exact handle_write_guard63. Qed.

(* ---------- SETATTR(size) ---------- *)
Theorem C01_setattr_size : forall s c h p na o sa sz,
  lookup_node s h = Some (p, na) -> na_kind na <> KLink -> plain_file (fs s) p o -> ro (conf s) = false ->
  (s_mode sa = None /\ s_uid sa = None /\ s_gid sa = None /\ s_size sa = Some sz /\ s_atime sa = 0 /\ s_mtime sa = 0) ->
  sz < two63N -> (maxfile (conf s) = 0 \/ sz <= maxfile (conf s)) ->
  let r := handle_setattr s c h sa None in
  ob_rpc (snd r) = 0 /\ ob_status (snd r) = 0 /\
  (exists o', fs_get (fs (fst r)) p = Some o' /\ o_kind o' = KFile /\
              o_perm o' = o_perm o /\ o_uid o' = o_uid o /\ o_gid o' = o_gid o /\
              bf_eq (file_of o') (spec_trunc (file_of o) sz)) /\
  (forall p', p' <> p -> fs_get (fs (fst r)) p' = fs_get (fs s) p').
Proof. exact handle_setattr_size_ok. Qed.

(* size >= 2^63 -> INVAL, nothing changes *)
Theorem C01_setattr_size_guard : forall s c h p na fi sa sz,
  lookup_node s h = Some (p, na) -> na_kind na <> KLink -> be_stat (fs s) p false = Ok fi -> ro (conf s) = false ->
  match s_mode sa with Some m => N.testbit m 15 | None => false end = false ->
  s_size sa = Some sz -> two63N <= sz ->
  let r := handle_setattr s c h sa None in
  ob_rpc (snd r) = 0 /\ ob_status (snd r) = NFSERR_INVAL /\
  (fs (fst r) = fs s /\ conf (fst r) = conf s /\
   ((forall b, In b (blog s) -> mutating b = false) -> forall b, In b (blog (fst r)) -> mutating b = false)).
Proof. exact handle_setattr_size_inval. Qed.
(* a symbolic-link handle -> INVAL, the state is returned untouched *)
Theorem C01_setattr_link_guard : forall s c h p na sa guard,
  ro (conf s) = false -> match s_mode sa with Some m => N.testbit m 15 | None => false end = false ->
  lookup_node s h = Some (p, na) -> na_kind na = KLink ->
  handle_setattr s c h sa guard = (s, fail_wcc NFSERR_INVAL).
Proof. exact handle_setattr_link. Qed.

(* ---------- CREATE of a new name ---------- *)
(* UNCHECKED (0) or GUARDED (1) CREATE of a validated name absent from a plain directory: OK; an empty regular
   file appears there; the parent only gets a new mtime; no other path changes *)
Theorem C01_create_new : forall s c h d dattr od n how sa,
  ro (conf s) = false -> validate_name n = st_ok -> sanitize_ok d n = true -> (how = 0 \/ how = 1) ->
  validate_mode (match s_mode sa with Some m => m | None => 420 end) = st_ok ->
  lookup_node s h = Some (d, dattr) -> na_kind dattr = KDir -> plain_dir (fs s) d od ->
  resolve (fs s) (d ++ [n]) false = WMissing (d ++ [n]) ->
  let r := handle_create s c h n how sa in
  ob_rpc (snd r) = 0 /\ ob_status (snd r) = 0 /\
  (exists o', fs_get (fs (fst r)) (d ++ [n]) = Some o' /\ o_kind o' = KFile /\ o_size o' = 0 /\ o_data o' = [] /\
              bf_eq (file_of o') empty_file) /\
  fs_get (fs (fst r)) d = Some (set_meta od (o_perm od) (o_uid od) (o_gid od) (now s)) /\
  (forall q, q <> d ++ [n] -> q <> d -> fs_get (fs (fst r)) q = fs_get (fs s) q).
Proof. exact handle_create_new. Qed.

(* ---------- non-vacuity ---------- *)
Definition ex_cfg : cfg :=
  {| tsize := 4; ro := false; maxfile := 0; attr_ttl := 5; attr_cap := 10; neg_on := true; neg_ttl := 5;
     dir_on := true; dir_ttl := 5; dir_cap := 10; dir_maxsize := 10 |}.
Definition ex_cred : cred := {| c_uid := 0; c_gid := 0; c_aux := [] |}.
(* root directory with an empty file "a"; MNT gives handle 1 (root), LOOKUP gives handle 2 (the file) *)
Definition ex_s2 : srv :=
  let s0 := srv_init_fs (fs_set fs_init [[97]] (mk_file 420 7)) ex_cfg 0 100 in
  let s1 := fst (step s0 ex_cred (RMnt [47])) in
  fst (step s1 ex_cred (RLookup 1 [97])).

(* the hypotheses of the theorems hold in this state *)
Example C01_hyps :
  lookup_node ex_s2 2 = Some ([[97]], {| na_kind := KFile; na_perm := 420; na_size := 0; na_fileid := fileid_of [[97]];
                                         na_uid := 0; na_gid := 0; na_mtime := 7; na_atime := 7 |}) /\
  plain_file (fs ex_s2) [[97]] (mk_file 420 7) /\ nodup_keys (fs ex_s2) /\
  (exists da, lookup_node ex_s2 1 = Some ([], da) /\ na_kind da = KDir) /\
  plain_dir (fs ex_s2) [] (mk_dir 493 (1000 * 1000000000)) /\
  resolve (fs ex_s2) ([] ++ [[98]]) false = WMissing ([] ++ [[98]]) /\
  validate_name [98] = st_ok /\ sanitize_ok [] [98] = true.
Proof.
  split; [vm_compute; reflexivity|]. split; [repeat split; vm_compute; reflexivity|].
  split; [vm_compute; repeat constructor; cbn; intuition discriminate|].
  split; [eexists; split; vm_compute; reflexivity|].
  split; [repeat split; vm_compute; reflexivity|].
  repeat split; vm_compute; reflexivity.
Qed.

(* WRITE of "AB" at offset 5 into the empty file (a hole of 5 bytes), then READ across the hole: zeros, then the
   payload; the transfer size 4 clamps the count; eof exactly at the end *)
Example C01_hole :
  let w := step ex_s2 ex_cred (RWrite 2 5 2 0 [65; 66]) in
  let s3 := fst w in
  (ob_status (snd w) = 0 /\ ob_nums (snd w) = [2; 2]) /\
  (let r := snd (step s3 ex_cred (RRead 2 0 100)) in ob_status r = 0 /\ ob_nums r = [4] /\ ob_bytes r = [0; 0; 0; 0] /\ ob_eof r = false) /\
  (let r := snd (step s3 ex_cred (RRead 2 3 100)) in ob_status r = 0 /\ ob_nums r = [4] /\ ob_bytes r = [0; 0; 65; 66] /\ ob_eof r = true) /\
  (let r := snd (step s3 ex_cred (RRead 2 7 1)) in ob_status r = 0 /\ ob_nums r = [0] /\ ob_bytes r = [] /\ ob_eof r = true) /\
  (* truncate to 6, extend to 8: the byte at 6 is gone *)
  (let sa z := {| s_mode := None; s_uid := None; s_gid := None; s_size := Some z; s_atime := 0; s_atime_v := 0; s_mtime := 0; s_mtime_v := 0 |} in
   let s4 := fst (step s3 ex_cred (RSetattr 2 (sa 6) None)) in
   let s5 := fst (step s4 ex_cred (RSetattr 2 (sa 8) None)) in
   let r := snd (step s5 ex_cred (RRead 2 4 4)) in ob_status r = 0 /\ ob_bytes r = [0; 65; 0; 0] /\ ob_eof r = true) /\
  (* the rejected inputs *)
  ob_status (snd (step s3 ex_cred (RRead 2 9223372036854775808 1))) = NFSERR_IO /\
  ob_status (snd (step s3 ex_cred (RRead 2 18446744073709551615 1))) = NFSERR_INVAL /\
  ob_status (snd (step s3 ex_cred (RWrite 2 0 5 0 [1; 2; 3; 4; 5]))) = NFSERR_INVAL /\
  ob_status (snd (step s3 ex_cred (RWrite 2 9223372036854775806 2 0 [1; 2]))) = NFSERR_IO /\
  (* CREATE of "b" in the root *)
  (let cr := step s3 ex_cred (RCreate 1 [98] 0 {| s_mode := None; s_uid := None; s_gid := None; s_size := None;
                                                 s_atime := 0; s_atime_v := 0; s_mtime := 0; s_mtime_v := 0 |}) in
   ob_status (snd cr) = 0 /\ option_map o_size (fs_get (fs (fst cr)) [[98]]) = Some 0).
Proof. vm_compute. repeat split; reflexivity. Qed.

(* a handle of a symbolic link: READ, WRITE and SETATTR answer INVAL and change nothing *)
Example C01_link_handle :
  let s0 := srv_init_fs (fs_set (fs_set fs_init [[97]] (mk_file 420 7)) [[108]] (mk_link [97] 7)) ex_cfg 0 100 in
  let s1 := fst (step s0 ex_cred (RMnt [47])) in
  let s2 := fst (step s1 ex_cred (RLookup 1 [108])) in
  (exists p na, lookup_node s2 2 = Some (p, na) /\ na_kind na = KLink) /\
  (let r := step s2 ex_cred (RRead 2 0 1) in ob_status (snd r) = NFSERR_INVAL /\ fs (fst r) = fs s2 /\ blog (fst r) = []) /\
  (let r := step s2 ex_cred (RWrite 2 0 1 0 [65]) in ob_status (snd r) = NFSERR_INVAL /\ fs (fst r) = fs s2 /\ blog (fst r) = []) /\
  (let r := step s2 ex_cred (RSetattr 2 {| s_mode := None; s_uid := None; s_gid := None; s_size := Some 1; s_atime := 0;
                                          s_atime_v := 0; s_mtime := 0; s_mtime_v := 0 |} None) in
   ob_status (snd r) = NFSERR_INVAL /\ fs (fst r) = fs s2 /\ blog (fst r) = []).
Proof. vm_compute. split; [eexists; eexists; split; reflexivity|]. repeat split; reflexivity. Qed.

(* ---------- histories: the model refines the byte-array specification step by step ---------- *)
(* Definitions (Proofs/SrvData.v, section 8):
     sfiles = path -> option bfile                 the specification state: the files the history is about
     Abs s m    every file of m is a plain regular file of the tree with the same size and bytes
     Good s     no duplicate keys, not read-only, no MaxFileSize, every handle has its node
     Reg s m    the nodes of the handles that denote files of m are not symbolic links
     dreq       DRead h off cnt | DWrite h off stable data | DTrunc h sz   (READ / WRITE / SETATTR with only a size)
     dreq_valid the inputs C01_read / C01_write / C01_setattr_size cover (the others: the *_guard theorems)
     covered    every request is valid and its handle denotes a file of m
     refines ts hp s m l   runs the model (hrun1: clock advance, then step) and the specification side by side:
                after every step the reply is the specified one (status OK; READ: count, bytes, eof computed from
                the byte array; WRITE: count = payload length, FILE_SYNC) and Abs holds again for the
                specification state updated with spec_write / spec_trunc.
   For histories of any length, arbitrary clock advances and credentials, any cache configuration. *)
Theorem C01_history : forall l s m,
  Good s -> Abs s m -> Reg s m -> covered (tsize (conf s)) (get (hm s)) m l ->
  refines (tsize (conf s)) (get (hm s)) s m l.
Proof. exact history_refines. Qed.

Example C01_history_hyps :
  let m0 : sfiles := fun q => if path_eqb q [[97]] then Some empty_file else None in
  let l := [ {| d_adv := 1; d_cred := ex_cred; d_req := DWrite 2 5 0 [65; 66] |};
             {| d_adv := 6000000000; d_cred := ex_cred; d_req := DRead 2 3 100 |};
             {| d_adv := 0; d_cred := ex_cred; d_req := DTrunc 2 6 |};
             {| d_adv := 0; d_cred := ex_cred; d_req := DRead 2 9223372036854775807 4 |} ] in
  Good ex_s2 /\ Abs ex_s2 m0 /\ Reg ex_s2 m0 /\ covered (tsize (conf ex_s2)) (get (hm ex_s2)) m0 l.
Proof.
  cbv zeta. split; [|split; [|split; [apply reg_check; vm_compute; reflexivity|]]].
  - split; [vm_compute; repeat constructor; cbn; intuition discriminate|].
    split; [reflexivity|]. split; [reflexivity|]. apply live_check. vm_compute. reflexivity.
  - intros p f. destruct (path_eqb p [[97]]) eqn:E; [|discriminate]. apply path_eqb_eq in E. subst p. intros [= <-].
    exists (mk_file 420 7). split; [repeat split; vm_compute; reflexivity|apply bf_eq_refl].
  - intros x Hx. cbn [In] in Hx.
    repeat (destruct Hx as [<-|Hx]; [split; [vm_compute; repeat split; try reflexivity; intros X; discriminate X
                                            |exists [[97]]; split; [vm_compute; reflexivity|discriminate]]|]).
    destruct Hx.
Qed.

Print Assumptions C01_sd_write.
Print Assumptions C01_sd_trunc.
Print Assumptions C01_sd_read.
Print Assumptions C01_read.
Print Assumptions C01_read_guard.
Print Assumptions C01_write.
Print Assumptions C01_write_guard.
Print Assumptions C01_write_guard63.
Print Assumptions C01_setattr_size.
Print Assumptions C01_setattr_size_guard.
Print Assumptions C01_setattr_link_guard.
Print Assumptions C01_create_new.
Print Assumptions C01_history.
