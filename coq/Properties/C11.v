(* Properties/C11.v — Only an effective root identity can assign ownership.
   Model: Model/Srv.v (all procedures; credentials are the effective identity after squashing) over Model/Backend.v.
   [blog] is the list of backend calls of the request, with the numeric arguments of Chown / Lchown in b_a / b_b.
   Every theorem is for ALL server states, all credentials, all requests (C11_calls, C11_chown_only, C11_chown_args: every procedure of
   the protocol, not only the four that can chown).

   What the model (the Go code) does, stated precisely:
   * the only procedures that ever call Chown / Lchown are SETATTR, CREATE, MKDIR, SYMLINK (C11_chown_only);
   * for a non-root caller SETATTR issues NO Chown at all (the uid/gid of the sattr3 are dropped before the
     comparison with the recorded ids), and its whole behaviour is independent of those two fields (C11_setattr_no_chown, C11_setattr_ignored);
   * CREATE / MKDIR / SYMLINK chown to the caller's own effective ids, for root to the sattr3 ids when present
     (EXCLUSIVE CREATE carries no sattr3);
   * on NFS3_OK the Chown / Lchown is in the log, it found the new object, and Stat (Lstat for a symlink) of the new
     path reports exactly the logged ids (C11_owner_create / mkdir / symlink; for MKDIR / SYMLINK the handler ignores the result of the
     chown, so the proof shows that it cannot fail there: the path that was missing resolves to the new object,
     symlinks on the way included — no extra hypothesis was needed);
   * at the backend, Chown / Lchown are the only operations that change the owner or group recorded for an object;
     new objects start as 0:0 (C11_backend_chown, C11_backend_lchown, C11_backend_others, C11_backend_rename). *)
From Coq Require Import List NArith ZArith Bool.
From Verif Require Import Gen.Facts Model.Handles Model.Backend Model.Srv Proofs.SrvRO Proofs.SrvCreate.
Import ListNotations.
Open Scope N_scope.

(* chown_like b := b_op b = BChown \/ b_op b = BLchown *)

(* ---------- the calls ---------- *)
(* a caller whose effective uid is not 0: every Chown / Lchown of every request carries the caller's own ids *)
Theorem C11_calls : forall s c r b,
  c_uid c <> 0 -> In b (blog (fst (step s c r))) -> chown_like b -> b_a b = c_uid c /\ b_b b = c_gid c.
Proof. exact step_chown_nonroot. Qed.

(* ... and SETATTR issues none at all *)
Theorem C11_setattr_no_chown : forall s c h sa g b,
  c_uid c <> 0 -> In b (blog (fst (step s c (RSetattr h sa g)))) -> ~ chown_like b.
Proof. exact step_setattr_nochown. Qed.

(* whoever asks: no other procedure calls Chown / Lchown *)
Theorem C11_chown_only : forall s c r b, In b (blog (fst (step s c r))) -> chown_like b ->
  match r with RSetattr _ _ _ | RCreate _ _ _ _ | RMkdir _ _ _ | RSymlink _ _ _ _ => True | _ => False end.
Proof. exact step_chown_only. Qed.

(* the exact arguments, for any caller (eff_uid c use sa = the sattr3 uid iff use, it is present and c is root;
   else the caller's uid; same for gid) *)
Theorem C11_chown_args : forall s c r b, In b (blog (fst (step s c r))) -> chown_like b ->
  match r with
  | RCreate _ _ how sa =>
      b_a b = eff_uid c ((how =? 0) || (how =? 1)) sa /\ b_b b = eff_gid c ((how =? 0) || (how =? 1)) sa
  | RMkdir _ _ sa | RSymlink _ _ sa _ => b_a b = eff_uid c true sa /\ b_b b = eff_gid c true sa
  | RSetattr _ _ _ => c_uid c = 0
  | _ => False
  end.
Proof. exact step_chown. Qed.

(* root: the sattr3 ids when given, else root's own *)
Theorem C11_root_override : forall s c r b,
  c_uid c = 0 -> In b (blog (fst (step s c r))) -> chown_like b ->
  match r with
  | RCreate _ _ how sa =>
      if (how =? 0) || (how =? 1)
      then b_a b = match s_uid sa with Some u => u | None => c_uid c end /\
           b_b b = match s_gid sa with Some g => g | None => c_gid c end
      else b_a b = c_uid c /\ b_b b = c_gid c
  | RMkdir _ _ sa | RSymlink _ _ sa _ =>
      b_a b = match s_uid sa with Some u => u | None => c_uid c end /\
      b_b b = match s_gid sa with Some g => g | None => c_gid c end
  | _ => True
  end.
Proof. exact step_chown_root. Qed.

(* SETATTR by a non-root caller: same new state, same reply, whatever uid / gid the request carries *)
Theorem C11_setattr_ignored : forall s c h sa g,
  c_uid c <> 0 ->
  step s c (RSetattr h sa g) =
  step s c (RSetattr h {| s_mode := s_mode sa; s_uid := None; s_gid := None; s_size := s_size sa;
                          s_atime := s_atime sa; s_atime_v := s_atime_v sa; s_mtime := s_mtime sa; s_mtime_v := s_mtime_v sa |} g).
Proof. exact step_setattr_ids_ignored. Qed.

(* ---------- the owner fields ---------- *)
(* CREATE of a name that does not exist: on NFS3_OK the Chown is in the log and Stat reports its arguments *)
Theorem C11_owner_create : forall s c h (n : name) how sa d da e,
  str_ok n = true -> lookup_node s h = Some (d, da) -> be_stat (fs s) (d ++ [n]) false = Err e ->
  let r := step s c (RCreate h n how sa) in
  let u := eff_uid c ((how =? 0) || (how =? 1)) sa in
  let g := eff_gid c ((how =? 0) || (how =? 1)) sa in
  ob_status (snd r) = st_ok ->
  In (bc2 BChown (d ++ [n]) [] u g) (blog (fst r)) /\
  exists fi, be_stat (fs (fst r)) (d ++ [n]) true = Ok fi /\ fi_uid fi = u /\ fi_gid fi = g.
Proof. exact step_create_owner. Qed.
Theorem C11_owner_mkdir : forall s c h (n : name) sa d da,
  str_ok n = true -> lookup_node s h = Some (d, da) ->
  let r := step s c (RMkdir h n sa) in
  let u := eff_uid c true sa in
  let g := eff_gid c true sa in
  ob_status (snd r) = st_ok ->
  In (bc2 BChown (d ++ [n]) [] u g) (blog (fst r)) /\
  exists fi, be_stat (fs (fst r)) (d ++ [n]) true = Ok fi /\ fi_uid fi = u /\ fi_gid fi = g.
Proof. exact step_mkdir_owner. Qed.
Theorem C11_owner_symlink : forall s c h (n : name) sa t d da,
  str_ok n = true -> str_ok t = true -> lookup_node s h = Some (d, da) ->
  let r := step s c (RSymlink h n sa t) in
  let u := eff_uid c true sa in
  let g := eff_gid c true sa in
  ob_status (snd r) = st_ok ->
  In (bc2 BLchown (d ++ [n]) [] u g) (blog (fst r)) /\
  exists fi, be_stat (fs (fst r)) (d ++ [n]) false = Ok fi /\ fi_uid fi = u /\ fi_gid fi = g.
Proof. exact step_symlink_owner. Qed.

(* new objects of a non-root caller are the caller's *)
Theorem C11_new_objects_create : forall s c h (n : name) how sa d da e,
  c_uid c <> 0 -> str_ok n = true -> lookup_node s h = Some (d, da) -> be_stat (fs s) (d ++ [n]) false = Err e ->
  let r := step s c (RCreate h n how sa) in
  ob_status (snd r) = st_ok ->
  exists fi, be_stat (fs (fst r)) (d ++ [n]) true = Ok fi /\ fi_uid fi = c_uid c /\ fi_gid fi = c_gid c.
Proof. exact step_create_owner_nonroot. Qed.
Theorem C11_new_objects_mkdir : forall s c h (n : name) sa d da,
  c_uid c <> 0 -> str_ok n = true -> lookup_node s h = Some (d, da) ->
  let r := step s c (RMkdir h n sa) in
  ob_status (snd r) = st_ok ->
  exists fi, be_stat (fs (fst r)) (d ++ [n]) true = Ok fi /\ fi_uid fi = c_uid c /\ fi_gid fi = c_gid c.
Proof. exact step_mkdir_owner_nonroot. Qed.
Theorem C11_new_objects_symlink : forall s c h (n : name) sa t d da,
  c_uid c <> 0 -> str_ok n = true -> str_ok t = true -> lookup_node s h = Some (d, da) ->
  let r := step s c (RSymlink h n sa t) in
  ob_status (snd r) = st_ok ->
  exists fi, be_stat (fs (fst r)) (d ++ [n]) false = Ok fi /\ fi_uid fi = c_uid c /\ fi_gid fi = c_gid c.
Proof. exact step_symlink_owner_nonroot. Qed.

(* what a successful Chown / Lchown does: Stat / Lstat of that path reports exactly the given ids *)
Theorem C11_backend_chown : forall f p u g,
  snd (be_chown f p u g) = Ok tt ->
  exists fi, be_stat (fst (be_chown f p u g)) p true = Ok fi /\ fi_uid fi = u /\ fi_gid fi = g.
Proof. exact (fun f p u g => be_meta_chown_stat f p true u g). Qed.
Theorem C11_backend_lchown : forall f p u g,
  snd (be_lchown f p u g) = Ok tt ->
  exists fi, be_stat (fst (be_lchown f p u g)) p false = Ok fi /\ fi_uid fi = u /\ fi_gid fi = g.
Proof. exact (fun f p u g => be_meta_chown_stat f p false u g). Qed.

(* every other backend operation keeps the owner and group of every object; new objects are 0:0
   (owner_kept f f' := every object of f' sits where an object with the same ids sat in f, or its path was
   empty in f and it is owned 0:0); Rename moves objects together with their ids *)
Theorem C11_backend_others : forall f p t,
  (forall perm, owner_kept f (fst (be_mkdir f p perm t))) /\
  (forall tg, owner_kept f (fst (be_symlink f tg p t))) /\
  owner_kept f (fst (be_create f p t)) /\
  (forall m, owner_kept f (fst (be_chmod f p m))) /\
  (forall m, owner_kept f (fst (be_chtimes f p m))) /\
  (forall sz, owner_kept f (fst (be_truncate f p sz t))) /\
  (forall off bs, owner_kept f (fst (be_writeat f p off bs t))) /\
  owner_kept f (be_sync f p) /\
  owner_kept f (fst (be_remove f p t)).
Proof.
  exact (fun f p t => conj (fun perm => be_mkdir_owner f p perm t) (conj (fun tg => be_symlink_owner f tg p t)
    (conj (be_create_owner f p t) (conj (be_chmod_owner f p) (conj (be_chtimes_owner f p)
    (conj (fun sz => be_truncate_owner f p sz t) (conj (fun off bs => be_writeat_owner f p off bs t)
    (conj (be_sync_owner f p) (be_remove_owner f p t))))))))).
Qed.
Theorem C11_backend_rename : forall f a b t q o', In (q, o') (fst (be_rename f a b t)) ->
  exists q0 o, In (q0, o) f /\ o_uid o' = o_uid o /\ o_gid o' = o_gid o.
Proof. exact be_rename_owner. Qed.

(* no constants of the Go package enter the statements (uid 0 is the literal 0 of the source: astfacts has no
   named constant for it) *)

(* ---------- non-vacuity ---------- *)
Definition ex_cfg : cfg :=
  {| tsize := 65536; ro := false; maxfile := 0; attr_ttl := 5; attr_cap := 10; neg_on := true; neg_ttl := 5;
     dir_on := true; dir_ttl := 5; dir_cap := 10; dir_maxsize := 10 |}.
Definition sa_none : sattr :=
  {| s_mode := None; s_uid := None; s_gid := None; s_size := None; s_atime := 0; s_atime_v := 0; s_mtime := 0; s_mtime_v := 0 |}.
Definition sa_ids (u g : N) : sattr :=
  {| s_mode := None; s_uid := Some u; s_gid := Some g; s_size := None; s_atime := 0; s_atime_v := 0; s_mtime := 0; s_mtime_v := 0 |}.
Definition ex_u1 : cred := {| c_uid := 1000; c_gid := 100; c_aux := [] |}.
Definition ex_root : cred := {| c_uid := 0; c_gid := 0; c_aux := [] |}.
Definition ex_s1 : srv := fst (step (srv_init ex_cfg 0 100) ex_u1 (RMnt [47])).      (* handle 1 = "/" *)
Definition owner_at (s : srv) (p : path) : option (N * N) :=
  match fs_get (fs s) p with Some o => Some (o_uid o, o_gid o) | None => None end.
Definition chowns (s : srv) : list (bop * path * N * N) :=
  map (fun b => (b_op b, b_path b, b_a b, b_b b)) (filter is_chown (blog s)).

(* uid 1000 asks CREATE / MKDIR / SYMLINK with sattr3 uid=0 gid=0: the objects end up 1000:100, one chown each *)
Example C11_nonroot_example :
  let r1 := step ex_s1 ex_u1 (RCreate 1 [97] 0 (sa_ids 0 0)) in
  let r2 := step (fst r1) ex_u1 (RMkdir 1 [100] (sa_ids 0 0)) in
  let r3 := step (fst r2) ex_u1 (RSymlink 1 [108] (sa_ids 0 0) [97]) in
  lookup_node ex_s1 1 <> None /\ be_stat (fs ex_s1) [[97]] false = Err ENOENT /\
  ob_status (snd r1) = 0 /\ owner_at (fst r1) [[97]] = Some (1000, 100) /\ chowns (fst r1) = [(BChown, [[97]], 1000, 100)] /\
  ob_status (snd r2) = 0 /\ owner_at (fst r2) [[100]] = Some (1000, 100) /\ chowns (fst r2) = [(BChown, [[100]], 1000, 100)] /\
  ob_status (snd r3) = 0 /\ owner_at (fst r3) [[108]] = Some (1000, 100) /\ chowns (fst r3) = [(BLchown, [[108]], 1000, 100)].
Proof. vm_compute. repeat split; discriminate. Qed.

(* SETATTR uid=5 gid=6 mode=0600 by uid 1000 on its file: OK, the mode changes, no chown, the file stays 1000:100;
   the same request by root chowns to 5:6; root's CREATE with sattr3 ids 7:8 yields 7:8.
   (Oddity seen while choosing this example, outside C11: SETATTR compares the requested ids with the ids recorded in
   the handle's node, which LOOKUP/CREATE always record as 0:0 -- so root's SETATTR uid=0 gid=0 on this 1000:100 file
   answers OK without any Chown.) *)
Example C11_setattr_example :
  let s2 := fst (step ex_s1 ex_u1 (RCreate 1 [97] 0 sa_none)) in                     (* "a", handle 2 *)
  let sa := {| s_mode := Some 384; s_uid := Some 5; s_gid := Some 6; s_size := None;
               s_atime := 0; s_atime_v := 0; s_mtime := 0; s_mtime_v := 0 |} in
  let r := step s2 ex_u1 (RSetattr 2 sa None) in
  ob_status (snd r) = 0 /\ owner_at (fst r) [[97]] = Some (1000, 100) /\ chowns (fst r) = [] /\
  (match fs_get (fs (fst r)) [[97]] with Some o => o_perm o | None => 0 end) = 384 /\
  (let r' := step s2 ex_root (RSetattr 2 sa None) in
   ob_status (snd r') = 0 /\ owner_at (fst r') [[97]] = Some (5, 6) /\ chowns (fst r') = [(BChown, [[97]], 5, 6)]) /\
  (let r'' := step s2 ex_root (RCreate 1 [98] 1 (sa_ids 7 8)) in
   ob_status (snd r'') = 0 /\ owner_at (fst r'') [[98]] = Some (7, 8) /\ chowns (fst r'') = [(BChown, [[98]], 7, 8)]).
Proof. vm_compute. repeat split. Qed.

Print Assumptions C11_calls.
Print Assumptions C11_setattr_no_chown.
Print Assumptions C11_chown_only.
Print Assumptions C11_chown_args.
Print Assumptions C11_root_override.
Print Assumptions C11_setattr_ignored.
Print Assumptions C11_owner_create.
Print Assumptions C11_owner_mkdir.
Print Assumptions C11_owner_symlink.
Print Assumptions C11_new_objects_create.
Print Assumptions C11_new_objects_mkdir.
Print Assumptions C11_new_objects_symlink.
Print Assumptions C11_backend_chown.
Print Assumptions C11_backend_lchown.
Print Assumptions C11_backend_others.
Print Assumptions C11_backend_rename.
