(* Properties/C04.v — reported attributes are consistent across procedures and with the backend.
   Model: Model/Srv.v over Model/Backend.v.  Every attribute block of a reply is [sf a] for an [a : nattrs]; it has
   one of two origins: (1) a fresh Lstat (GetAttr / encodeCurrentAttrs / the READDIRPLUS refresh) or (2) AbsfsNFS.Lookup,
   which may answer from the attribute cache.  This file covers origin (1) completely (type, permission bits, size,
   fileid against the backend's Lstat, for ALL server states, credentials and requests), the fileid of BOTH origins
   (invariant AcFid, all histories), the wire type as a function of the Lstat kind (symlinks are NF3LNK, dangling or
   not), and SETATTR (any mode value).  Type/size/permission coherence of cache-served LOOKUP blocks is a separate
   obligation (cache coherence); C04_statement_refuted shows it needs a hypothesis: it fails through a stale directory
   handle whose ancestor directory was renamed away and replaced by a symlink (two path names for one object).

   fattr_ok f p b   := exists fi, be_stat f p false = Ok fi /\ type b = ftype_of (kind fi) /\ perm, size = fi's /\ fileid b = fileid_of p
   opt_ok f p x     := x = Some b -> fattr_ok f p b                       (error replies carry None)
   post_ok f0 d s' x := x = Some (fattr_of a) -> backend_block (fs s') d a, or Lstat of d fails in fs s' and a is the
                       pre-op block (backend_block f0 d a) — the fallback of nfsErrorReplyWithWcc-style replies. *)
From Coq Require Import List NArith ZArith Bool.
From Verif Require Import Gen.Facts Model.Handles Model.Backend Model.Srv Proofs.SrvPaths Proofs.SrvAttrs.
Import ListNotations.
Open Scope N_scope.

(* ---------- the constants and the type on the wire ---------- *)
Theorem C04_facts : (c_NF3REG =? 1)%Z && (c_NF3DIR =? 2)%Z && (c_NF3LNK =? 5)%Z = true.
Proof. vm_compute. reflexivity. Qed.

Theorem C04_type_from_kind : forall a,
  fa_type (fattr_of a) = match na_kind a with KFile => 1 | KDir => 2 | KLink => 5 end.
Proof. exact type_from_kind_num. Qed.

(* ---------- origin (1): a block read by GetAttr agrees with the backend ---------- *)
Theorem C04_getattr_block : forall s p u g s1 a, srv_getattr s p u g = (s1, Ok a) -> backend_block (fs s) p a /\ fs s1 = fs s.
Proof. exact srv_getattr_ok. Qed.
Theorem C04_getattr_h_block : forall s h p s1 a, getattr_h s h p = (s1, Ok a) -> backend_block (fs s) p a /\ fs s1 = fs s.
Proof. exact getattr_h_ok. Qed.
Theorem C04_current_attrs_block : forall s h p s1 b, current_attrs s h p = (s1, Some b) ->
  (exists a, b = fattr_of a /\ backend_block (fs s) p a) /\ fs s1 = fs s.
Proof. exact current_attrs_ok. Qed.
(* READDIRPLUS refresh: path and fileid kept, type/perm/size re-read for every entry whose Lstat succeeds *)
Theorem C04_refresh_blocks : forall s l, (forall e, In e l -> na_fileid (snd e) = fileid_of (fst e)) ->
  fs (fst (refresh_all s l)) = fs s /\
  forall e', In e' (snd (refresh_all s l)) ->
    (exists e, In e l /\ fst e' = fst e /\ na_fileid (snd e') = na_fileid (snd e)) /\
    ((exists fi, be_stat (fs s) (fst e') false = Ok fi) -> backend_block (fs s) (fst e') (snd e')).
Proof. exact refresh_all_blocks. Qed.

(* GETATTR, ACCESS, READLINK, READ, FSSTAT, FSINFO, PATHCONF, COMMIT, READDIR, READDIRPLUS (directory block):
   the tree is untouched and every block of the reply is the backend's view of the handle's path *)
Theorem C04_getattr_family : forall s c r h p n0, family_req r = Some h -> lookup_node s h = Some (p, n0) ->
  fs (fst (step s c r)) = fs s /\ Forall (opt_ok (fs s) p) (ob_attrs (snd (step s c r))).
Proof. exact step_family. Qed.
(* LOOKUP: the directory block (last block of the reply) in the NOTDIR, error and success branches *)
Theorem C04_lookup_dir : forall s c h n p n0, lookup_node s h = Some (p, n0) ->
  fs (fst (step s c (RLookup h n))) = fs s /\ opt_ok (fs s) p (last (ob_attrs (snd (step s c (RLookup h n)))) None).
Proof. exact step_lookup_dir. Qed.
(* READDIRPLUS entries: named children of the directory, fileid of the child path; backend blocks exactly for the
   entries whose re-Lstat succeeds (the others are passed on as Lookup returned them) *)
Theorem C04_readdirplus_entries : forall s c h ck dc_ mc d da, lookup_node s h = Some (d, da) -> AcFid s ->
  forall de, In de (ob_entries (snd (step s c (RReaddirplus h ck dc_ mc)))) ->
     exists a, de_attr de = sf a /\ de_fileid de = na_fileid a /\ na_fileid a = fileid_of (d ++ [de_name de]) /\
       ((exists fi, be_stat (fs s) (d ++ [de_name de]) false = Ok fi) -> backend_block (fs s) (d ++ [de_name de]) a).
Proof. exact step_readdirplus_entries. Qed.

(* ---------- post-op blocks are read from the post-state tree ---------- *)
Theorem C04_post_op : forall s c r h d n0, post1_req r = Some h -> lookup_node s h = Some (d, n0) ->
  Forall (post_ok (fs s) d (fst (step s c r))) (ob_attrs (snd (step s c r))).
Proof. exact step_post1. Qed.
Theorem C04_post_op_dir : forall s c r h n d n0, create_req r = Some (h, n) -> lookup_node s h = Some (d, n0) ->
  post_ok (fs s) d (fst (step s c r)) (last (ob_attrs (snd (step s c r))) None).
Proof. exact step_post_dir. Qed.
Theorem C04_post_op_rename : forall s c h1 n1 h2 n2 d1 a1 d2 a2,
  lookup_node s h1 = Some (d1, a1) -> lookup_node s h2 = Some (d2, a2) ->
  let so := step s c (RRename h1 n1 h2 n2) in
  post_ok (fs s) d1 (fst so) (nth 0 (ob_attrs (snd so)) None) /\ post_ok (fs s) d2 (fst so) (nth 1 (ob_attrs (snd so)) None).
Proof. exact step_post_rename. Qed.

(* the pre-op fallback is confined to the case where the directory no longer resolves: otherwise the block is the
   backend's view of the directory in the tree the request leaves behind *)
Theorem C04_post_op_live : forall f0 d s' x, post_ok f0 d s' x -> (exists fi, be_stat (fs s') d false = Ok fi) -> opt_ok (fs s') d x.
Proof. exact post_ok_live. Qed.

(* ---------- symlinks are links ---------- *)
Theorem C04_symlink : forall f p a fi, backend_block f p a -> be_stat f p false = Ok fi -> fi_kind fi = KLink ->
  fa_type (fattr_of a) = 5 /\ na_kind a = KLink.
Proof. exact block_symlink_num. Qed.
(* Lstat returns the directory entry named by the last component itself, never what it points to *)
Theorem C04_lstat_last_component : forall fs d c fi, is_dotdot c = false -> be_stat fs (d ++ [c]) false = Ok fi ->
  exists q o, fs_get fs (q ++ [c]) = Some o /\ fi = info_of o.
Proof. exact lstat_last_component. Qed.
(* ... and succeeds on a symlink reached through real directories whatever its target is (dangling or not) *)
Theorem C04_lstat_symlink : forall fs p o, dirs_only fs [] p -> fs_get fs p = Some o -> o_kind o = KLink ->
  exists fi, be_stat fs p false = Ok fi /\ fi_kind fi = KLink /\ fi_size fi = N.of_nat (length (o_target o)).
Proof. exact lstat_symlink. Qed.

(* ---------- the fileid is a function of the path, for both origins ---------- *)
Theorem C04_AcFid_step : forall s c r, AcFid s -> AcFid (fst (step s c r)).
Proof. exact step_AcFid. Qed.
Theorem C04_AcFid_reachable : forall f c mx t l, AcFid (hfinal (srv_init_fs f c mx t) l).
Proof. exact reachable_AcFid. Qed.
Theorem C04_lookup_fileid : forall s p s1 a, AcFid s -> srv_lookup s p = (s1, Ok a) -> na_fileid a = fileid_of p.
Proof. exact srv_lookup_fid. Qed.
(* every block of every reply (and every READDIR/READDIRPLUS entry) carries the fileid of the path it describes *)
Theorem C04_fileid_function_of_path : forall s c r, AcFid s -> fileids_ok s r (snd (step s c r)).
Proof. exact step_fileids. Qed.
Theorem C04_history_fileids : forall f c mx t l x,
  let s := hfinal (srv_init_fs f c mx t) l in fileids_ok s (hs_req x) (snd (hrun1 s x)).
Proof. exact history_fileids. Qed.
(* two blocks read for the same path from the same tree: same type, permission bits, size and fileid *)
Theorem C04_consistent : forall f p a a', backend_block f p a -> backend_block f p a' ->
  fa_type (fattr_of a) = fa_type (fattr_of a') /\ na_perm a = na_perm a' /\ na_size a = na_size a' /\ na_fileid a = na_fileid a'.
Proof. exact blocks_agree_same. Qed.

(* ---------- SETATTR (any mode, uid, gid, size, times; any guard) changes no kind and no fileid ---------- *)
Theorem C04_backend_keeps_kind :
  (forall f p m, KP f (fst (be_chmod f p m))) /\ (forall f p u g, KP f (fst (be_chown f p u g))) /\
  (forall f p t, KP f (fst (be_chtimes f p t))) /\ (forall f p sz t, KP f (fst (be_truncate f p sz t))).
Proof. exact backend_keeps_kind. Qed.
Theorem C04_setattr_preserves : forall s c h sa g,
  let s' := fst (step s c (RSetattr h sa g)) in
  (forall q, option_map o_kind (fs_get (fs s') q) = option_map o_kind (fs_get (fs s) q)) /\
  (forall q fl, stat_kind (fs s') q fl = stat_kind (fs s) q fl) /\
  hm s' = hm s /\
  (forall h' p a, lookup_node s h' = Some (p, a) ->
     exists a', lookup_node s' h' = Some (p, a') /\ na_kind a' = na_kind a /\ na_fileid a' = na_fileid a) /\
  (forall q a a', backend_block (fs s) q a -> backend_block (fs s') q a' ->
     fa_type (fattr_of a') = fa_type (fattr_of a) /\ na_fileid a' = na_fileid a) /\
  (forall q fi, be_stat (fs s) q false = Ok fi -> exists fi', be_stat (fs s') q false = Ok fi' /\ fi_kind fi' = fi_kind fi).
Proof. exact step_setattr_preserves. Qed.

(* ---------- full strength, and the witness against it ---------- *)
(* in every history every block (cache-served ones included) agrees with the Lstat of its path in the post-state tree *)
Definition C04_statement : Prop := full_statement.
(* proved here: everything above (origin (1), fileids of both origins, SETATTR).  Missing: type/perm/size of the
   cache-served object blocks of LOOKUP/CREATE/MKDIR/SYMLINK and of READDIRPLUS entries whose re-Lstat fails — and
   that part is false without a no-aliasing hypothesis: *)
Theorem C04_statement_refuted : ~ C04_statement.
Proof. exact full_statement_refuted. Qed.

(* ---------- examples (non-vacuity and the concrete scenarios of the property text) ---------- *)
(* tree: "/" with file f (3 bytes, 0644), directory d, symlink l -> "f", dangling symlink x -> "nope";
   handles 1 = /, 2 = /f, 3 = /d, 4 = /l, 5 = /x; blocks shown as (type, perm, size, fileid) *)
Example C04_ex_hyps :
  (exists a, lookup_node c04_s1 1 = Some ([], a)) /\ (exists a, lookup_node c04_s1 4 = Some ([[108]], a)) /\
  AcFid c04_s1 /\ length (ac c04_s1) = 5%nat /\
  family_req (RGetattr 4) = Some 4 /\ post1_req (RSetattr 3 (c04_sattr 2541) None) = Some 3 /\
  create_req (RMkdir 1 [110] (c04_sattr 493)) = Some (1, [110]).
Proof.
  split; [eexists; vm_compute; reflexivity|]. split; [eexists; vm_compute; reflexivity|].
  split; [apply reachable_AcFid|]. vm_compute. auto.
Qed.
Example C04_ex_lstat_dangling :
  dirs_only c04_fs [] [[120]] /\ fs_get c04_fs [[120]] = Some (mk_link [110; 111; 112; 101] 7) /\
  be_stat c04_fs [[120]] true = Err ENOENT /\ (exists fi, be_stat c04_fs [[120]] false = Ok fi /\ fi_kind fi = KLink).
Proof.
  split; [split; [eexists; split; vm_compute; reflexivity|split; [reflexivity|exact I]]|].
  split; [vm_compute; reflexivity|]. split; [vm_compute; reflexivity|]. eexists. split; vm_compute; reflexivity.
Qed.
(* GETATTR of /, f, d, l, x *)
Example C04_ex_getattr :
  map (fun h => c04_blocks c04_s1 (RGetattr h)) [1; 2; 3; 4; 5] =
  [[Some (2, 493, 4096, fileid_of [])]; [Some (1, 420, 3, fileid_of [[102]])]; [Some (2, 493, 4096, fileid_of [[100]])];
   [Some (5, 511, 1, fileid_of [[108]])]; [Some (5, 511, 4, fileid_of [[120]])]].
Proof. vm_compute. reflexivity. Qed.
(* LOOKUP of the same objects (served from the attribute cache): same type, size, perm and fileid; then the directory *)
Example C04_ex_lookup :
  map (fun n => c04_blocks c04_s1 (RLookup 1 n)) [[102]; [100]; [108]; [120]] =
  [[Some (1, 420, 3, fileid_of [[102]]); Some (2, 493, 4096, fileid_of [])];
   [Some (2, 493, 4096, fileid_of [[100]]); Some (2, 493, 4096, fileid_of [])];
   [Some (5, 511, 1, fileid_of [[108]]); Some (2, 493, 4096, fileid_of [])];
   [Some (5, 511, 4, fileid_of [[120]]); Some (2, 493, 4096, fileid_of [])]].
Proof. vm_compute. reflexivity. Qed.
(* READDIRPLUS of "/": both links are NF3LNK (5), fileids equal to GETATTR's and LOOKUP's *)
Example C04_ex_readdirplus :
  c04_entries c04_s1 (RReaddirplus 1 0 4096 4096) =
  [([100], fileid_of [[100]], Some (2, 493, 4096, fileid_of [[100]])); ([102], fileid_of [[102]], Some (1, 420, 3, fileid_of [[102]]));
   ([108], fileid_of [[108]], Some (5, 511, 1, fileid_of [[108]])); ([120], fileid_of [[120]], Some (5, 511, 4, fileid_of [[120]]))].
Proof. vm_compute. reflexivity. Qed.
(* SETATTR mode 04755 and mode 0x4000 on the directory: it stays a directory with the same fileid, in the reply, in a
   later GETATTR and LOOKUP, and LOOKUP through its handle still works (NOENT = 2, not NOTDIR = 20) *)
Example C04_ex_setattr_dir :
  forallb (fun m =>
    let so := step c04_s1 ex_cred (RSetattr 3 (c04_sattr m) None) in
    (ob_status (snd so) =? 0) &&
    match c04_blocks c04_s1 (RSetattr 3 (c04_sattr m) None), c04_blocks (fst so) (RGetattr 3), c04_blocks (fst so) (RLookup 1 [100]) with
    | [Some (t1, p1, _, i1)], [Some (t2, p2, _, i2)], [Some (t3, p3, _, i3); _] =>
        (t1 =? 2) && (t2 =? 2) && (t3 =? 2) && (i1 =? fileid_of [[100]]) && (i2 =? i1) && (i3 =? i1) &&
        (p1 =? N.land m 511) && (p2 =? p1) && (p3 =? p1)
    | _, _, _ => false
    end && (ob_status (snd (step (fst so) ex_cred (RLookup 3 [97]))) =? 2)) [2541; 16384; 134217728; 4294934527] = true
  /\ ob_status (snd (step c04_s1 ex_cred (RSetattr 3 (c04_sattr 32768) None))) = 22.
Proof. vm_compute. auto. Qed.

Print Assumptions C04_facts.
Print Assumptions C04_type_from_kind.
Print Assumptions C04_getattr_block.
Print Assumptions C04_getattr_h_block.
Print Assumptions C04_current_attrs_block.
Print Assumptions C04_refresh_blocks.
Print Assumptions C04_getattr_family.
Print Assumptions C04_lookup_dir.
Print Assumptions C04_readdirplus_entries.
Print Assumptions C04_post_op.
Print Assumptions C04_post_op_dir.
Print Assumptions C04_post_op_rename.
Print Assumptions C04_post_op_live.
Print Assumptions C04_symlink.
Print Assumptions C04_lstat_last_component.
Print Assumptions C04_lstat_symlink.
Print Assumptions C04_AcFid_step.
Print Assumptions C04_AcFid_reachable.
Print Assumptions C04_lookup_fileid.
Print Assumptions C04_fileid_function_of_path.
Print Assumptions C04_history_fileids.
Print Assumptions C04_consistent.
Print Assumptions C04_backend_keeps_kind.
Print Assumptions C04_setattr_preserves.
Print Assumptions C04_statement_refuted.
