(* Properties/C08.v — A read-only export is never modified.
   Model: Model/Srv.v (all 22 NFSv3 procedures + MOUNT MNT over Model/Backend.v), decoded requests.
   Every theorem is for ALL server states (any tree, any cache contents, any handle table), all
   credentials and all requests; the history theorem is for histories of any length with arbitrary
   clock advances.  Byte-level (undecodable) arguments: the model answers GARBAGE without touching the
   backend for strings that do not decode; the remaining malformed encodings are covered by the C08g
   stream on the implementation and by the astfacts fact that the read-only guard is the first
   statement of every mutating handler (C08_facts). *)
From Coq Require Import List NArith ZArith Bool.
From Verif Require Import Gen.Facts Model.Handles Model.Backend Model.Srv Proofs.SrvRO.
Import ListNotations.
Open Scope N_scope.

(* no request issues a mutating backend call or changes the tree while ReadOnly is in force
   (administrative steps other than "switch ReadOnly off" included) *)
Theorem C08_no_mutation : forall s c r, ro (conf s) = true -> keeps_ro r = true ->
  let s' := fst (step s c r) in
  fs s' = fs s /\ ro (conf s') = true /\ (forall b, In b (blog s') -> mutating b = false).
Proof. exact step_ro. Qed.

(* the eleven mutating procedures fail (with a regular accepted RPC reply) *)
Theorem C08_fail : forall s c r, ro (conf s) = true -> mutating_req r = true ->
  ob_rpc (snd (step s c r)) = 0 /\ ob_status (snd (step s c r)) <> 0.
Proof. exact step_ro_fails. Qed.

(* ACCESS never grants MODIFY, EXTEND or DELETE *)
Theorem C08_access : forall s c h m, ro (conf s) = true ->
  forall w, In w (ob_nums (snd (step s c (RAccess h m)))) -> N.land w (ACCESS_MODIFY + ACCESS_EXTEND + ACCESS_DELETE) = 0.
Proof. exact step_ro_access. Qed.

(* histories of any length: read-only at construction or switched on at runtime (start from the
   state right after the switch), until ReadOnly is switched off again *)
Theorem C08_history : forall l s, ro (conf s) = true -> (forall x, In x l -> keeps_ro (hs_req x) = true) ->
  forall so, In so (hrun s l) -> fs (fst so) = fs s /\ (forall b, In b (blog (fst so)) -> mutating b = false).
Proof. exact hrun_ro. Qed.

(* the constants the statement relies on, as the source has them now *)
Theorem C08_facts : (c_NFSERR_ROFS =? 30)%Z && (c_ACCESS3_MODIFY =? 4)%Z && (c_ACCESS3_EXTEND =? 8)%Z && (c_ACCESS3_DELETE =? 16)%Z
                    && forallb (fun g => g) ro_guard_first = true.
Proof. vm_compute. reflexivity. Qed.

(* non-vacuity: a read-only server with a file, a WRITE to it fails with ROFS and logs nothing *)
Example C08_nontrivial :
  let c0 := {| tsize := 65536; ro := true; maxfile := 0; attr_ttl := 5; attr_cap := 10; neg_on := true; neg_ttl := 5;
               dir_on := true; dir_ttl := 5; dir_cap := 10; dir_maxsize := 10 |} in
  let s0 := srv_init_fs (fs_set fs_init [[97]] (mk_file 420 7)) c0 0 100 in
  let cr := {| c_uid := 0; c_gid := 0; c_aux := [] |} in
  let s1 := fst (step s0 cr (RMnt [47])) in
  let s2 := fst (step s1 cr (RLookup 1 [97])) in
  ob_status (snd (step s2 cr (RLookup 1 [97]))) = 0 /\
  ob_status (snd (step s2 cr (RWrite 2 0 1 0 [65]))) = 30 /\ blog (fst (step s2 cr (RWrite 2 0 1 0 [65]))) = [].
Proof. vm_compute. auto. Qed.

Print Assumptions C08_no_mutation.
Print Assumptions C08_fail.
Print Assumptions C08_access.
Print Assumptions C08_history.
Print Assumptions C08_facts.
