(* Properties/C17.v — Connections are bounded, accounted, reaped when idle, and fully shut down.
   Statements over ALL traces of Model/ConnLTS.v (any number of connections and Stop callers, any interleaving of
   the accept loop, connection goroutines, the idle reaper and Stop, any clock advances, any MaxConnections and
   IdleTimeout), each closed by [exact lemma].

   Modelled rather than verified: Go's scheduler, sync.Mutex / sync.Once / sync.WaitGroup / context semantics (given
   as the definitions in the header of Model/ConnLTS.v), sockets and real timers.  PARTIAL for timing: the model's
   Tick may fire at any moment (the Go ticker fires every IdleTimeout/2), and Stop's 5 s timer is the StopTimeout
   step, enabled at any moment; C17_stop is about a Stop that returned nil, C17_stop_partial about the others. *)
From Coq Require Import List NArith ZArith Bool.
From Verif Require Import Gen.Facts Model.ConnLTS Proofs.ConnProofs.
Import ListNotations.
Open Scope N_scope.

(* reachable s := exists mx idl tr, run (init mx idl) tr = Some s
   served s c  := connection c has its goroutine in the serve loop and nobody has closed its socket *)

(* connCount = |activeConns| (no duplicates) in every reachable state; with a positive MaxConnections the count never
   exceeds it, and neither does any set of simultaneously served connections *)
Theorem C17_bounded : forall mx idl tr s, run (init mx idl) tr = Some s ->
  NoDup (active s) /\ count s = Z.of_nat (length (active s)) /\
  ((0 < mx)%Z -> (count s <= mx)%Z /\
                 forall l, NoDup l -> (forall c, In c l -> served s c) -> (Z.of_nat (length l) <= mx)%Z).
Proof. exact bounded_lemma. Qed.

(* every accepted connection is counted at most once and uncounted at most once, never uncounted without having been
   counted; it is in activeConns exactly while counted and not yet uncounted; a rejected connection was never counted;
   a served one is counted; one whose goroutine has passed unregisterConnection has been counted once and uncounted
   once - whichever of the three racing callers (goroutine, reaper, closeAllConnections) did it *)
Theorem C17_once : forall s, reachable s -> forall c k, conns s c = Some k ->
  k_cnt k <= 1 /\ k_uncnt k <= k_cnt k /\ (In c (active s) <-> k_cnt k = 1 /\ k_uncnt k = 0) /\
  (k_pc k = KRejected -> k_cnt k = 0) /\
  (k_pc k = KServing \/ (exists u, k_pc k = KUnreg u) -> k_cnt k = 1) /\
  (k_pc k = KFin \/ k_pc k = KDone -> k_cnt k = 1 /\ k_uncnt k = 1).
Proof. exact once_lemma. Qed.

(* after a reaper tick no registered connection was idle for more than IdleTimeout at the tick's scan time: tickT is
   the scan time of the last completed tick; activity times only grow, so this stays true until the next tick *)
Theorem C17_reap : forall s, reachable s ->
  tickT s <= now s /\
  forall c k, In c (active s) -> conns s c = Some k -> tickT s <= k_last k + idle s /\ k_last k <= now s.
Proof. exact reap_lemma. Qed.
(* ... stated at the step that completes a tick whose scan ran at time T *)
Theorem C17_reap_tick : forall s s' T, reachable s -> reaper s = RWork T [] None -> step s RTickDone = Some s' ->
  tickT s' = T /\ active s' = active s /\
  forall c k, In c (active s') -> conns s' c = Some k -> T - k_last k <= idle s'.
Proof. exact reap_tick_lemma. Qed.

(* after Stop has returned nil: nothing is registered, the accept loop, the reaper and every connection goroutine
   have finished, the WaitGroup is at zero, the context is cancelled and the listener closed - and this holds in
   every later state too, since the statement is about all reachable states *)
Theorem C17_stop : forall s j sn, reachable s -> stops s j = Some (SRetOk sn) ->
  active s = [] /\ count s = 0%Z /\ acc s = AExited /\ reaper_live s = false /\ live s = [] /\ wg s = 0 /\
  (forall c k, conns s c = Some k -> k_live k = false) /\ cancelled s = true /\ lclosed s = true.
Proof. exact stop_lemma. Qed.
(* a Stop that is past closeAllConnections (waiting, timed out or done): every connection that was registered when it
   took its snapshot has been closed and unregistered, whatever the goroutines are doing *)
Theorem C17_stop_partial : forall s j sn, reachable s ->
  stops s j = Some (SWaiting sn) \/ stops s j = Some (SRetTimeout sn) \/ stops s j = Some (SRetOk sn) ->
  cancelled s = true /\ lclosed s = true /\ forall c, In c sn -> ~ In c (active s) /\ closed_c s c.
Proof. exact stop_partial_lemma. Qed.
(* Stop o Stop = Stop: a second Stop runs to completion without waiting and changes nothing but its own record *)
Theorem C17_stop_twice : forall s j sn k, reachable s -> stops s j = Some (SRetOk sn) -> stops s k = None ->
  exists s', run s [StopCall k; StopCancel k; StopCloseL k; StopCollect k; StopCollected k; StopWait k] = Some s' /\
    stops s' k = Some (SRetOk []) /\ (forall x, x <> k -> stops s' x = stops s x) /\
    active s' = active s /\ count s' = count s /\ conns s' = conns s /\ acc s' = acc s /\ reaper s' = reaper s /\
    live s' = live s /\ wg s' = wg s /\ cancelled s' = cancelled s /\ lclosed s' = lclosed s /\ now s' = now s.
Proof. exact stop_twice_lemma. Qed.

(* Close / Unexport: handle table and both caches empty, server stopped; Close o Close = Close, and the same mixed
   with Unexport; over any history before and any number of repetitions after *)
Theorem C17_close : forall n, n_handles (nfs_close n) = [] /\ n_attr (nfs_close n) = [] /\ n_dir (nfs_close n) = [] /\
  n_server (nfs_close n) = false /\ n_pool (nfs_close n) = false /\ nfs_close (nfs_close n) = nfs_close n.
Proof. exact nfs_close_lemma. Qed.
Theorem C17_unexport : forall n, n_handles (nfs_unexport n) = [] /\ n_attr (nfs_unexport n) = [] /\ n_dir (nfs_unexport n) = [] /\
  n_server (nfs_unexport n) = false /\ nfs_unexport (nfs_unexport n) = nfs_unexport n /\
  nfs_close (nfs_unexport n) = nfs_close n /\ nfs_unexport (nfs_close n) = nfs_close n.
Proof. exact nfs_unexport_lemma. Qed.
Theorem C17_close_history : forall ops reps,
  let n := fold_left nfs_apply (ops ++ [NClose] ++ repeat NClose reps) nfs_init in
  n_handles n = [] /\ n_attr n = [] /\ n_dir n = [] /\ n_server n = false /\ n_pool n = false.
Proof. exact nfs_history_lemma. Qed.

(* what the model assumes about the source, re-read from /repo on every run (harness/tools/astfacts/x_lts.go):
   registerConnection takes connMutex, defers its release, then tests connCount >= MaxConnections, inserts into
   activeConns and increments connCount (one critical section = the Register step); unregisterConnection runs
   "if still registered { delete; connCount-- }" inside unregisterOnce.Do and decrements nowhere else; Stop performs
   cancel, listener.Close, closeAllConnections, wg.Wait in this order and gives up after 5 s *)
Theorem C17_facts :
  f_lts_register_order = [1; 2; 3; 4; 5]%Z /\ f_lts_unregister_guarded = true /\
  f_lts_stop_order = [1; 2; 3; 4]%Z /\ f_lts_stop_timeout_s = 5%Z.
Proof. repeat split; vm_compute; reflexivity. Qed.

(* ---------- non-vacuity ---------- *)
(* MaxConnections 1, IdleTimeout 50: connection 1 is served, connection 2 is refused at the limit, connection 3 fails
   the IP filter; 1 goes idle, the reaper and the connection goroutine race on unregisterConnection (the goroutine
   finds the Once running and later done); Stop; a second Stop. *)
Definition demo : list label :=
  [Accept 1 true; Filter; Register; Spawn; Activity 1;
   Accept 2 true; Filter; Register; Accept 3 false; Filter;
   Advance 100; Tick; RClose; Exit 1; UnregConn 1; UnregReaper; UnregReaper; UnregReaper; RTickDone;
   UnregConn 1; ConnDone 1;
   StopCall 9; StopCancel 9; StopCloseL 9; StopCollect 9; StopCollected 9; AcceptExit; ReaperExit; StopWait 9].
Definition demo_state := run (init 1 50) demo.
Example C17_nontrivial :
  match demo_state with
  | Some s => reachable s /\ stops s 9 = Some (SRetOk []) /\ tickT s = 100 /\
              (exists k, conns s 1 = Some k /\ k_pc k = KDone /\ k_cnt k = 1 /\ k_uncnt k = 1 /\ k_once k = ODone) /\
              (exists k, conns s 2 = Some k /\ k_pc k = KRejected /\ k_ok k = true /\ k_cnt k = 0) /\
              (exists k, conns s 3 = Some k /\ k_pc k = KRejected /\ k_ok k = false)
  | None => False
  end.
Proof.
  unfold demo_state. vm_compute. split; [exists 1%Z, 50, demo; vm_compute; reflexivity|].
  repeat split; try reflexivity; eexists; repeat split; reflexivity.
Qed.
(* the limit is reached, a connection is being served, and the Once really blocks a racing caller *)
Example C17_nontrivial_mid :
  match run (init 1 50) [Accept 1 true; Filter; Register; Spawn; Advance 100; Tick; RClose; Exit 1; UnregConn 1;
                         UnregReaper; UnregReaper] with
  | Some s => count s = 1%Z /\ active s = [1] /\ step s (UnregConn 1) = None /\
              (exists k, conns s 1 = Some k /\ k_once k = ORunning /\ k_pc k = KUnreg U2)
  | None => False
  end.
Proof. vm_compute. repeat split; eexists; repeat split; reflexivity. Qed.
Example C17_served_nontrivial :
  match run (init 2 0) [Accept 1 true; Filter; Register; Spawn; Accept 2 true; Filter; Register; Spawn] with
  | Some s => served s 1 /\ served s 2 /\ count s = 2%Z
  | None => False
  end.
Proof. vm_compute. repeat split; eexists; repeat split; reflexivity. Qed.
(* the accept race: a connection accepted before listener.Close is registered after closeAllConnections took its
   snapshot; Stop still only returns nil once that connection's goroutine has unregistered it *)
Example C17_accept_race :
  match run (init 5 0) [Accept 1 true; StopCall 9; StopCancel 9; StopCloseL 9; StopCollect 9; StopCollected 9;
                        Filter; Register; Spawn] with
  | Some s => active s = [1] /\ step s (StopWait 9) = None /\ step s AcceptExit <> None
  | None => False
  end.
Proof. vm_compute. repeat split; discriminate. Qed.

(* hypotheses of C17_reap_tick (a tick about to complete), C17_stop_partial (a Stop that is waiting) and
   C17_stop_twice (a Stop that returned nil, a fresh caller) *)
Example C17_more_nontrivial :
  (match run (init 1 50) [Accept 1 true; Filter; Register; Spawn; Advance 100; Tick; RClose; UnregReaper; UnregReaper; UnregReaper] with
   | Some s => reaper s = RWork 100 [] None /\ step s RTickDone <> None
   | None => False end) /\
  (match run (init 5 0) [Accept 1 true; Filter; Register; Spawn; StopCall 9; StopCancel 9; StopCloseL 9; StopCollect 9;
                         StopClose 9; UnregStop 9; UnregStop 9; UnregStop 9; StopCollected 9] with
   | Some s => stops s 9 = Some (SWaiting [1]) /\ wg s = 2
   | None => False end) /\
  (match demo_state with
   | Some s => stops s 9 = Some (SRetOk []) /\ stops s 10 = None
   | None => False end).
Proof. vm_compute. repeat split; discriminate. Qed.

Print Assumptions C17_bounded.
Print Assumptions C17_once.
Print Assumptions C17_reap.
Print Assumptions C17_reap_tick.
Print Assumptions C17_stop.
Print Assumptions C17_stop_partial.
Print Assumptions C17_stop_twice.
Print Assumptions C17_close.
Print Assumptions C17_unexport.
Print Assumptions C17_close_history.
Print Assumptions C17_facts.
