(* Properties/C02.v — Namespace operations refine a POSIX tree model; caches are transparent.
   Only statements closed by [exact lemma], Examples and Print Assumptions live here; the proofs are in
   Proofs/BackendWF.v (tree well-formedness, fuel-free path resolution, exact specs + frames of every backend
   operation) and Proofs/SrvCoh.v (coherence invariant, two-run lockstep, outcomes of the procedures).

   Model: Model/Srv.v over Model/Backend.v.  Vocabulary:
     Good s          WF (fs s) /\ nolinks (fs s) /\ HOK s /\ Coh s
       WF            no duplicate keys, root present and a directory, every other key's parent a directory
       nolinks       THE SIDE CONDITION: the tree holds no symbolic link (see below)
       HOK           every handle path is a list of good components (Proofs/SrvPaths.v; an invariant of all requests)
       Coh           every attribute-cache entry (expired or not): positive => kind/perm/size = the object's at that
                     path and fileid = fileid_of path; negative => Lstat of the path is ENOENT; every dir-cache entry
                     (when the dir cache is on) => the path is a directory and the names are exactly its listing
     sim s t         same tree, handle table, clock, same NON-CACHE configuration (TransferSize, ReadOnly, MaxFileSize);
                     node attributes equal on kind/perm/size/fileid; caches, cache configuration (TTLs, capacities,
                     negative caching on/off, dir cache on/off) and call log are NOT compared
     proj o          (ob_rpc, ob_status, ob_fh, type/perm/nlink/size/fileid of every attribute block, ob_bytes,
                      fileid/name/cookie/attribute projection/handle of every entry, ob_eof); times, uid, gid, wcc excluded
     strip t         t with both caches emptied;  hrun_ref = the run that strips before every request (cache-free reference)
     c02_req r       every request except SYMLINK (the side condition) and SETATTR (it compares the uid/gid/times held in
                     the node - unprojected fields a cache hit may fill differently - to decide whether to call
                     Chown/Chtimes, so the two runs may differ in o_uid/o_gid/o_mtime; SETATTR still preserves the
                     invariant: C02_good_step_all).  WRITE, READ, ACCESS, COMMIT, FSSTAT/FSINFO/PATHCONF, NULL, MKNOD,
                     LINK and the administrative actions are all included.

   Why the side condition cannot be dropped (kernel-checked: C02_transparent_unrestricted_refuted).  The caches are keyed
   by path; a symbolic link to a directory makes two paths name one object.  MNT refuses paths through a link, but a STALE
   handle's path can come to pass through one:  MNT "/" (h1); MKDIR e (h2); MKDIR e/s (h3); MKDIR d (h4); MKDIR d/s (h5);
   RMDIR d/s; RMDIR d; SYMLINK d -> "e"; LOOKUP h5 "a" (NOENT through the link, cached under [d;s;a]); CREATE h3 "a"
   (invalidates [e;s;a] only); LOOKUP h5 "a": the cached server answers NOENT, the cache-free one OK.
   Stronger variants (symlinks present but no cached / handle path with a link as a proper prefix component) are NOT
   proved here; [C02_statement] below keeps the unrestricted text of the property as a Definition only.

   Found while proving Coh (reported, repaired in /repo and the model before these proofs were closed): a negative entry
   below a removed directory survived and turned a later NOTDIR into NOENT (histories neg_hist1/neg_hist2 of
   Proofs/SrvCoh.v: REMOVE/RMDIR now invalidate the subtree, object creation invalidates the subtree of the new path). *)
From Coq Require Import List NArith ZArith Bool.
From Verif Require Import Gen.Facts Model.Handles Model.Backend Model.Srv Proofs.BackendWF Proofs.SrvPaths Proofs.SrvCoh.
Import ListNotations.
Open Scope N_scope.

(* the status words the statements below mention, and the XDR string limit the name check relies on *)
Theorem C02_facts :
  ((c_NFSERR_NOENT =? 2) && (c_NFSERR_EXIST =? 17) && (c_NFSERR_NOTDIR =? 20) && (c_NFSERR_FBIG =? 27) &&
   (255 <=? c_MAX_XDR_STRING_LENGTH))%Z = true.
Proof. vm_compute. reflexivity. Qed.

(* ---------- the unrestricted text of the property (a Definition, NOT a theorem) ---------- *)
Definition C02_statement : Prop :=
  (* caches never change a reply or the tree, for all histories incl. SYMLINK *)
  transparent_unrestricted_statement /\
  (* a failed namespace request leaves the tree unchanged *)
  (forall s c r, Good s -> ns_req r = true -> ob_status (snd (step s c r)) <> 0 -> fs (fst (step s c r)) = fs s).
Theorem C02_transparent_unrestricted_refuted : ~ transparent_unrestricted_statement.
Proof. exact transparent_unrestricted_refuted. Qed.
Theorem C02_statement_refuted : ~ C02_statement.
Proof. exact (fun H => transparent_unrestricted_refuted (proj1 H)). Qed.

(* ---------- resolution on well-formed link-free trees needs no fuel ---------- *)
Theorem C02_resolve_closed_form : forall fs p fl, WF fs -> nolinks fs -> nodd p -> resolve_case fs p fl.
Proof. exact (fun fs p fl W NL => resolve_cases fs W NL p fl). Qed.

(* ---------- the invariant ---------- *)
Theorem C02_good_init : forall f c mx t, WF f -> nolinks f -> Good (srv_init_fs f c mx t).
Proof. exact Good_init. Qed.
Theorem C02_good_step : forall s c r, Good s -> c02_req r = true -> Good (fst (step s c r)).
Proof. exact Good_step. Qed.
Theorem C02_good_step_all : forall s c r, Good s -> inv_req r = true -> Good (fst (step s c r)).
Proof. exact Good_step_all. Qed.
Theorem C02_good_hist : forall l s, Good s -> c02_hist l -> Forall (fun so => Good (fst so)) (hrun s l).
Proof. exact Good_hist. Qed.

(* ---------- cache transparency ---------- *)
(* one request: the cached server s against the cache-free reference (strip t) *)
Theorem C02_transparent_step : forall s t c r, Good s -> sim s t -> c02_req r = true ->
  proj (snd (step s c r)) = proj (snd (step (strip t) c r)) /\
  sim (fst (step s c r)) (fst (step (strip t) c r)) /\ Good (fst (step s c r)).
Proof. exact transparent_step. Qed.
(* histories of any length, arbitrary clock advances, ANY cache configuration: every projected reply and the whole
   backend tree after every step equal those of the cache-free run *)
Theorem C02_transparent : forall l s t, Good s -> sim s t -> c02_hist l -> Forall2 same_step (hrun s l) (hrun_ref t l).
Proof. exact transparent_hist. Qed.
(* from the initial state of any well-formed link-free tree *)
Theorem C02_transparent_init : forall f c mx t0 l, WF f -> nolinks f -> c02_hist l ->
  Forall2 same_step (hrun (srv_init_fs f c mx t0) l) (hrun_ref (srv_init_fs f c mx t0) l).
Proof. exact (fun f c mx t0 l W NL HL => transparent_hist l _ _ (Good_init f c mx t0 W NL) (sim_refl _) HL). Qed.
(* the symmetric form: two servers whose cache contents AND cache configurations differ arbitrarily *)
Theorem C02_config_independent : forall l s t, SIM s t -> c02_hist l -> Forall2 same_step (hrun s l) (hrun t l).
Proof. exact config_independent. Qed.

(* ---------- a failed request leaves the tree unchanged (literally: mtimes included) ---------- *)
Theorem C02_failed_no_change : forall s c r, Good s -> ns_req r = true ->
  ob_status (snd (step s c r)) <> 0 -> fs (fst (step s c r)) = fs s.
Proof. exact failed_no_change. Qed.

(* ---------- success / failure and the resulting tree, against tree predicates ---------- *)
(* d: the path of a directory handle h (node kind KDir); for the mutating procedures d is a directory of the tree *)
Theorem C02_posix_lookup : forall s c h n d da, Good s -> vname n -> lookup_node s h = Some (d, da) -> na_kind da = KDir ->
  let so := step s c (RLookup h n) in
  (ob_status (snd so) = 0 <-> In n (listing (fs s) d)) /\ fs (fst so) = fs s.
Proof. exact posix_lookup. Qed.
Theorem C02_posix_mkdir : forall s c h n d da, Good s -> vname n -> lookup_node s h = Some (d, da) -> na_kind da = KDir ->
  ro (conf s) = false -> kd (fs s) d = true -> forall sa,
  validate_mode (match s_mode sa with Some m => m | None => 493 end) = st_ok ->
  let so := step s c (RMkdir h n sa) in
  let mode := match s_mode sa with Some m => m | None => 493 end in
  (ob_status (snd so) = 0 <-> fs_get (fs s) (d ++ [n]) = None) /\
  (ob_status (snd so) = 0 ->
     fst (be_mkdir (fs s) (d ++ [n]) mode (now s)) = fs_add (fs s) (d ++ [n]) (mk_dir (N.land mode 511) (now s)) (now s) /\
     exists u g, fs (fst so) = fst (be_chown (fst (be_mkdir (fs s) (d ++ [n]) mode (now s))) (d ++ [n]) u g)) /\
  (ob_status (snd so) <> 0 -> fs (fst so) = fs s).
Proof. exact posix_mkdir. Qed.
Theorem C02_posix_create : forall s c h n d da, Good s -> vname n -> lookup_node s h = Some (d, da) -> na_kind da = KDir ->
  ro (conf s) = false -> kd (fs s) d = true -> forall how sa,
  validate_mode (if (how =? 0) || (how =? 1) then match s_mode sa with Some m => m | None => 420 end else 420) = st_ok ->
  sanitize_ok d n = true ->
  let so := step s c (RCreate h n how sa) in
  (how = 1 -> (ob_status (snd so) = 0 <-> fs_get (fs s) (d ++ [n]) = None)) /\
  (how = 0 -> (ob_status (snd so) = 0 <->
               match fs_get (fs s) (d ++ [n]) with
               | None => True
               | Some x => o_kind x = KFile /\
                           match s_size sa with
                           | Some sz => two63N <=? sz = true \/ (0 <? maxfile (conf s)) && (maxfile (conf s) <? sz) = false
                           | None => True end
               end)) /\
  (ob_status (snd so) <> 0 -> fs (fst so) = fs s) /\
  (ob_status (snd so) = 0 -> fs_get (fs s) (d ++ [n]) = None ->
     fst (be_create (fs s) (d ++ [n]) (now s)) = fs_add (fs s) (d ++ [n]) (mk_file 438 (now s)) (now s) /\
     exists m u g, fs (fst so) =
       fst (be_chown (fst (be_chmod (fst (be_create (fs s) (d ++ [n]) (now s))) (d ++ [n]) m)) (d ++ [n]) u g)).
Proof. exact posix_create. Qed.
Theorem C02_posix_remove : forall s c h n d da, Good s -> vname n -> lookup_node s h = Some (d, da) -> na_kind da = KDir ->
  ro (conf s) = false -> kd (fs s) d = true -> sanitize_ok d n = true ->
  let so := step s c (RRemove h n) in
  (ob_status (snd so) = 0 <-> removable (fs s) (d ++ [n]) = true) /\
  (ob_status (snd so) = 0 -> fs (fst so) = fs_rm (fs s) (d ++ [n]) (now s)) /\
  (ob_status (snd so) <> 0 -> fs (fst so) = fs s).
Proof. exact posix_remove. Qed.
(* removable = present and not a non-empty directory *)
Theorem C02_removable_iff : forall f p, removable f p = true <->
  exists x, fs_get f p = Some x /\ p <> [] /\ ~ (o_kind x = KDir /\ has_children f p = true).
Proof. exact removable_iff. Qed.
Theorem C02_posix_rmdir : forall s c h n d da, Good s -> vname n -> lookup_node s h = Some (d, da) -> na_kind da = KDir ->
  ro (conf s) = false -> kd (fs s) d = true ->
  let so := step s c (RRmdir h n) in
  (ob_status (snd so) = 0 <->
   exists x, fs_get (fs s) (d ++ [n]) = Some x /\ o_kind x = KDir /\ has_children (fs s) (d ++ [n]) = false) /\
  (ob_status (snd so) = 0 -> fs (fst so) = fs_rm (fs s) (d ++ [n]) (now s)) /\
  (ob_status (snd so) <> 0 -> fs (fst so) = fs s).
Proof. exact posix_rmdir. Qed.
Theorem C02_posix_rename : forall s c h1 n1 h2 n2 d1 d2 da1 da2, Good s -> ro (conf s) = false -> vname n1 -> vname n2 ->
  lookup_node s h1 = Some (d1, da1) -> lookup_node s h2 = Some (d2, da2) -> na_kind da1 = KDir -> na_kind da2 = KDir ->
  kd (fs s) d1 = true -> kd (fs s) d2 = true -> sanitize_ok d1 n1 = true -> sanitize_ok d2 n2 = true ->
  let so := step s c (RRename h1 n1 h2 n2) in let op := d1 ++ [n1] in let np := d2 ++ [n2] in
  (ob_status (snd so) = 0 <-> rename_ok (fs s) op np = true) /\
  (ob_status (snd so) = 0 -> fs (fst so) = if path_eqb op np then fs s else renamed (fs s) op np (now s)) /\
  (ob_status (snd so) <> 0 -> fs (fst so) = fs s).
Proof. exact posix_rename. Qed.
Theorem C02_posix_getattr : forall s c h p a, Good s -> lookup_node s h = Some (p, a) ->
  let so := step s c (RGetattr h) in
  (ob_status (snd so) = 0 <-> fs_get (fs s) p <> None) /\ fs (fst so) = fs s.
Proof. exact posix_getattr. Qed.
Theorem C02_posix_readdir : forall s c h ck cnt d da, Good s -> lookup_node s h = Some (d, da) -> na_kind da = KDir ->
  let so := step s c (RReaddir h ck cnt) in
  (ob_status (snd so) = 0 <-> kd (fs s) d = true) /\ fs (fst so) = fs s.
Proof. exact posix_readdir. Qed.
(* the trees named above are the backend operations' results, exactly *)
Theorem C02_backend_specs : forall f, WF f -> nolinks f ->
  (forall p perm t, nodd p -> exists e, be_mkdir f p perm t =
     if creatable f p then (fs_add f p (mk_dir (N.land perm 511) t) t, Ok tt) else (f, Err e)) /\
  (forall p t, nodd p -> exists e, be_remove f p t = if removable f p then (fs_rm f p t, Ok tt) else (f, Err e)) /\
  (forall oc nc t, nodd oc -> nodd nc -> exists e, be_rename f oc nc t =
     if rename_ok f oc nc then ((if path_eqb oc nc then f else renamed f oc nc t), Ok tt) else (f, Err e)).
Proof.
  exact (fun f W NL => conj (fun p perm t => be_mkdir_spec f W NL p perm t)
                      (conj (fun p t => be_remove_spec f W NL p t) (fun oc nc t => be_rename_spec f oc nc t W NL))).
Qed.

(* ---------- corollary for C04 (re-exported by its own file): the object block of LOOKUP / MKDIR / CREATE ---------- *)
(* block_ok f p fa: the object x at p exists, be_stat f p false = Ok (info_of x), and fa carries
   type = ftype_of (kind x), fileid = fileid_of p, size = stat_size x, perm = o_perm x.  The block may come from a cache hit. *)
Theorem C04_lookup_blocks_lookup : forall s c h n d da, Good s -> vname n -> lookup_node s h = Some (d, da) -> na_kind da = KDir ->
  let so := step s c (RLookup h n) in
  ob_status (snd so) = 0 ->
  exists a rest x, ob_attrs (snd so) = Some (fattr_of a) :: rest /\ fs_get (fs (fst so)) (d ++ [n]) = Some x /\
    be_stat (fs (fst so)) (d ++ [n]) false = Ok (info_of x) /\
    fa_type (fattr_of a) = ftype_of (o_kind x) /\ fa_fileid (fattr_of a) = fileid_of (d ++ [n]) /\
    fa_size (fattr_of a) = stat_size x /\ fa_perm (fattr_of a) = o_perm x.
Proof. exact lookup_block. Qed.
Theorem C04_lookup_blocks_mkdir : forall s c h n sa d da, Good s -> vname n -> lookup_node s h = Some (d, da) -> na_kind da = KDir ->
  ro (conf s) = false -> kd (fs s) d = true -> validate_mode (match s_mode sa with Some m => m | None => 493 end) = st_ok ->
  let so := step s c (RMkdir h n sa) in
  ob_status (snd so) = 0 ->
  exists a rest, ob_attrs (snd so) = Some (fattr_of a) :: rest /\ block_ok (fs (fst so)) (d ++ [n]) (fattr_of a).
Proof. exact mkdir_block. Qed.
Theorem C04_lookup_blocks_create : forall s c h n how sa d da, Good s -> vname n -> lookup_node s h = Some (d, da) -> na_kind da = KDir ->
  ro (conf s) = false -> kd (fs s) d = true ->
  validate_mode (if (how =? 0) || (how =? 1) then match s_mode sa with Some m => m | None => 420 end else 420) = st_ok ->
  let so := step s c (RCreate h n how sa) in
  ob_status (snd so) = 0 ->
  exists a rest, ob_attrs (snd so) = Some (fattr_of a) :: rest /\ block_ok (fs (fst so)) (d ++ [n]) (fattr_of a).
Proof. exact create_block. Qed.

(* ---------- non-vacuity ---------- *)
(* a concrete Good state with warm caches: a negative entry, positive entries, and a cached listing of /d *)
Example C02_warm_state : Good warm_state /\
  existsb (fun e => match ac_attrs e with None => true | Some _ => false end) (ac warm_state) = true /\
  existsb (fun e => match ac_attrs e with None => false | Some _ => true end) (ac warm_state) = true /\
  map dc_path (dc warm_state) = [[[100]]] /\ map dc_names (dc warm_state) = [[[102]]].
Proof. exact (conj warm_state_good warm_state_warm). Qed.
(* the hypotheses of the transparency theorems are met by it, with a different cache configuration on the other side *)
Example C02_warm_sim : sim warm_state (strip warm_state) /\ c02_hist warm_hist /\ c02_hist neg_hist2.
Proof.
  split; [apply sim_strip, sim_refl|]. split; apply c02_hist_b_spec; vm_compute; reflexivity.
Qed.
(* the hypotheses of the POSIX theorems: handle 2 of the warm state is the live directory /d; "f" is present, "zz" absent *)
Example C02_posix_hyps :
  exists da, lookup_node warm_state 2 = Some ([[100]], da) /\ na_kind da = KDir /\ ro (conf warm_state) = false /\
             kd (fs warm_state) [[100]] = true /\ vname [102] /\ vname [122; 122] /\
             sanitize_ok [[100]] [102] = true /\ removable (fs warm_state) [[100]; [102]] = true /\
             fs_get (fs warm_state) [[100]; [122; 122]] = None /\
             ob_status (snd (step warm_state ex_cred2 (RLookup 2 [102]))) = 0 /\
             ob_status (snd (step warm_state ex_cred2 (RLookup 2 [122; 122]))) = 2 /\
             ob_status (snd (step warm_state ex_cred2 (RRemove 2 [102]))) = 0 /\
             ob_status (snd (step warm_state ex_cred2 (RMkdir 2 [102] ex_sattr2))) = 17.
Proof. eexists. vm_compute. repeat split; reflexivity. Qed.
(* a failing request on it (RMDIR of a regular file), to which C02_failed_no_change applies *)
Example C02_failed_example :
  ns_req (RRmdir 2 [102]) = true /\ ob_status (snd (step warm_state ex_cred2 (RRmdir 2 [102]))) = 20 /\
  fs (fst (step warm_state ex_cred2 (RRmdir 2 [102]))) = fs warm_state.
Proof. vm_compute. repeat split; reflexivity. Qed.
(* regression: the two histories that exposed stale negative entries now give equal projected replies in both runs,
   and the last LOOKUP of the second one answers NOTDIR (20) in both *)
Example C02_negative_entries_regression :
  map (fun so => proj (snd so)) (hrun ex_init neg_hist1) = map (fun so => proj (snd so)) (hrun_ref ex_init neg_hist1) /\
  map (fun so => proj (snd so)) (hrun ex_init neg_hist2) = map (fun so => proj (snd so)) (hrun_ref ex_init neg_hist2) /\
  statuses_of (hrun ex_init neg_hist2) = [0; 0; 0; 2; 0; 0; 2; 0; 20].
Proof. exact neg_hists_agree. Qed.

Print Assumptions C02_facts.
Print Assumptions C02_transparent_unrestricted_refuted.
Print Assumptions C02_statement_refuted.
Print Assumptions C02_resolve_closed_form.
Print Assumptions C02_good_init.
Print Assumptions C02_good_step.
Print Assumptions C02_good_step_all.
Print Assumptions C02_good_hist.
Print Assumptions C02_transparent_step.
Print Assumptions C02_transparent.
Print Assumptions C02_transparent_init.
Print Assumptions C02_config_independent.
Print Assumptions C02_failed_no_change.
Print Assumptions C02_posix_lookup.
Print Assumptions C02_posix_mkdir.
Print Assumptions C02_posix_create.
Print Assumptions C02_posix_remove.
Print Assumptions C02_removable_iff.
Print Assumptions C02_posix_rmdir.
Print Assumptions C02_posix_rename.
Print Assumptions C02_posix_getattr.
Print Assumptions C02_posix_readdir.
Print Assumptions C02_backend_specs.
Print Assumptions C04_lookup_blocks_lookup.
Print Assumptions C04_lookup_blocks_mkdir.
Print Assumptions C04_lookup_blocks_create.
Print Assumptions C02_warm_state.
Print Assumptions C02_posix_hyps.
Print Assumptions C02_negative_entries_regression.
