(* Properties/C18.v — Rate limiters never admit more than burst + rate x elapsed; a request that finds a token in
   every limiter it consults is never refused; periodic cleanup of idle limiters changes no decision.
   Only statements closed by [exact lemma], Examples (non-vacuity) and Print Assumptions live here.

   Vocabulary (Model/TokenBucket.v, Model/RateLimit.v): a limiter is a token bucket over exact rationals written in
   the order of the Go statements; a RateLimiter is the map  key -> bucket  (KGlobal | KIP ip | KConn c | KOp ip op),
   driven by timed events  Req ip conn (AllowRequest) | Op ip op (AllowOperation) | Close conn (CleanupConnection);
   [run e lim ord t0 evs] returns, per event, the list of (limiter, decision) consultations.  The environment [e]
   decides when cleanup passes run and which full per-IP buckets a pass reaches ([env_go lim sel] = the Go trigger,
   [env_none] = no cleanup).  Time is any non-decreasing sequence of rationals (seconds).
   float64 rounding is modelled, not verified: the theorems are about ideal arithmetic. *)
From Coq Require Import List QArith ZArith NArith Bool String.
From Verif Require Import Gen.Facts Model.TokenBucket Model.RateLimit Proofs.TokenBucketProofs Proofs.RateLimitProofs.
Import ListNotations.
Open Scope Q_scope.

(* ---------- one token bucket ---------- *)
(* for every rate >= 0, burst >= 0 and every non-decreasing sequence of request times, at every prefix of the
   sequence:  admitted <= burst + rate * (time of the last request of the prefix - creation time) *)
Theorem C18_bound : forall (r burst t0 : Q) (ts : list Q) (n : nat),
  0 <= r -> 0 <= burst -> sorted_from t0 ts ->
  inject_Z (nadm (firstn n (fst (TokenBucket.run (mk r burst t0) ts)))) <= burst + r * (List.last (firstn n ts) t0 - t0).
Proof. exact (fun r burst t0 ts n => C18_bound_lemma r burst t0 ts n). Qed.

(* the invariant behind it, from any well-formed bucket:  admitted + tokens <= tokens_0 + rate * elapsed /\ tokens >= 0 *)
Theorem C18_bound_invariant : forall (ts : list Q) (b : tb) (ds : list bool) (b' : tb),
  TokenBucket.run b ts = (ds, b') -> wf b -> sorted_from (last b) ts ->
  inject_Z (nadm ds) + tokens b' <= tokens b + (List.last ts (last b) - last b) * rate b /\
  rate b' = rate b /\ maxT b' = maxT b /\ last b' = List.last ts (last b) /\ wf b'.
Proof. exact run_bound. Qed.

(* the decision of a bucket is exactly "a whole token is there after the refill" *)
Theorem C18_bucket_decision : forall (b : tb) (now : Q), fst (allow b now) = true <-> 1 <= tokens_at b now.
Proof. exact C18_bucket_decision_lemma. Qed.

(* ---------- every limiter of a RateLimiter (global, per-IP, per-connection, each operation type) ---------- *)
(* for every limits record with rates, bursts >= 0, every order of the limiter calls, every cleanup environment and
   every history: each limiter's account (created, count) obeys  count <= burst + rate * (now - created), where
   count is the number of requests admitted since the limiter's creation -- by the limiter itself (final = false)
   or by the whole chain (final = true).  [evs] is arbitrary, so this is the bound at every prefix of a history. *)
Theorem C18_bound_limiters : forall (e : env) (lim : limits) (ord : list rl_limiter) (t0 : Q) (evs : list (Q * event))
                                    (final : bool),
  lim_ok lim -> times_sorted t0 evs ->
  forall k en, lfind k (ledger_run final evs (fst (RateLimit.run e lim ord t0 evs)) (ledger_init t0)) = Some en ->
  inject_Z (count en) <= burst_of lim k + rate_of lim k * (end_time t0 evs - created en)
  /\ t0 <= created en <= end_time t0 evs.
Proof. exact (fun e lim ord t0 evs final => C18_bound_limiters_lemma e lim ord t0 evs final). Qed.

(* instantiation for the real configuration: non-negative fields give admissible limits, and the limiters get the
   documented rates and bursts (mount: per minute / 60; operation bursts 10, 5, 5, 2; global burst = global rate) *)
Theorem C18_config_limits : forall c : config, cfg_nonneg c -> lim_ok (limits_of c).
Proof. exact limits_of_ok. Qed.

Theorem C18_config_values : forall (c : config) (ip cn : N),
  rate_of (limits_of c) KGlobal = inject_Z (GlobalRequestsPerSecond c) /\
  burst_of (limits_of c) KGlobal = inject_Z (GlobalRequestsPerSecond c) /\
  rate_of (limits_of c) (KIP ip) = inject_Z (PerIPRequestsPerSecond c) /\
  burst_of (limits_of c) (KIP ip) = inject_Z (PerIPBurstSize c) /\
  rate_of (limits_of c) (KConn cn) = inject_Z (PerConnectionRequestsPerSecond c) /\
  burst_of (limits_of c) (KConn cn) = inject_Z (PerConnectionBurstSize c) /\
  conn_on (limits_of c) = (0 <? PerConnectionRequestsPerSecond c)%Z /\
  rate_of (limits_of c) (KOp ip ReadLarge) == inject_Z (ReadLargeOpsPerSecond c) /\
  burst_of (limits_of c) (KOp ip ReadLarge) = 10 /\
  rate_of (limits_of c) (KOp ip WriteLarge) == inject_Z (WriteLargeOpsPerSecond c) /\
  burst_of (limits_of c) (KOp ip WriteLarge) = 5 /\
  rate_of (limits_of c) (KOp ip Readdir) == inject_Z (ReaddirOpsPerSecond c) /\
  burst_of (limits_of c) (KOp ip Readdir) = 5 /\
  rate_of (limits_of c) (KOp ip Mount) == inject_Z (MountOpsPerMinute c) / 60 /\
  burst_of (limits_of c) (KOp ip Mount) = 2.
Proof. exact limits_of_values. Qed.

(* the Go RateLimiter: configuration c, limiter order read from the source, Go cleanup trigger, any reach [sel] *)
Theorem C18_bound_go : forall (c : config) (sel : nat -> N -> bool) (t0 : Q) (evs : list (Q * event)) (final : bool),
  cfg_nonneg c -> times_sorted t0 evs ->
  let lim := limits_of c in
  forall k en,
    lfind k (ledger_run final evs (fst (RateLimit.run (env_go lim sel) lim allow_request_order t0 evs)) (ledger_init t0))
      = Some en ->
    inject_Z (count en) <= burst_of lim k + rate_of lim k * (end_time t0 evs - created en)
    /\ t0 <= created en <= end_time t0 evs.
Proof.
  exact (fun c sel t0 evs final Hc Hs =>
           C18_bound_limiters_lemma (env_go (limits_of c) sel) (limits_of c) allow_request_order t0 evs final
                                    (limits_of_ok c Hc) Hs).
Qed.

(* ---------- never refused while every consulted limiter holds a token ---------- *)
(* in every reachable state (inv), a call whose consulted buckets all hold >= 1 token after the refill is admitted *)
Theorem C18_not_refused : forall (e : env) (lim : limits) (ord : list rl_limiter) (i : nat) (st : rl) (now : Q) (ev : event),
  lim_ok lim -> NoDup ord -> inv lim (buckets st) now ->
  (forall k, In k (keys_of lim ord ev) -> 1 <= level lim (buckets st) k now) ->
  admitted (fst (step e lim ord i st now ev)) = true.
Proof. exact C18_not_refused_lemma. Qed.

(* conversely a refusal is always due to a consulted bucket holding less than one token *)
Theorem C18_refused_only_if : forall (e : env) (lim : limits) (ord : list rl_limiter) (i : nat) (st : rl) (now : Q) (ev : event),
  lim_ok lim -> NoDup ord -> inv lim (buckets st) now ->
  admitted (fst (step e lim ord i st now ev)) = false ->
  exists k, In k (keys_of lim ord ev) /\ level lim (buckets st) k now < 1.
Proof. exact C18_refused_lemma. Qed.

(* the invariant [inv] holds initially and is kept by every step at any later time: it describes reachable states *)
Theorem C18_inv_reachable : forall (e : env) (lim : limits) (ord : list rl_limiter) (t0 : Q) (evs : list (Q * event)),
  lim_ok lim -> times_sorted t0 evs ->
  inv lim (buckets (snd (RateLimit.run e lim ord t0 evs))) (end_time t0 evs).
Proof.
  exact (fun e lim ord t0 evs Hok Hs =>
           proj2 (run_from_J e lim ord false Hok evs O (init lim t0) (ledger_init t0) t0 Hs
                             (inv_init lim t0 Hok) (J_init lim t0 Hok))).
Qed.

(* ---------- cleanup is invisible ---------- *)
(* with cleanup passes triggered at arbitrary points ([trig e]) and reaching arbitrary full per-IP buckets ([sel e]),
   every consultation and its outcome is the same as with no cleanup at all; in particular for the Go trigger *)
Theorem C18_cleanup_invisible : forall (e : env) (lim : limits) (ord : list rl_limiter) (t0 : Q) (evs : list (Q * event)),
  lim_ok lim -> times_sorted t0 evs ->
  fst (RateLimit.run e lim ord t0 evs) = fst (RateLimit.run env_none lim ord t0 evs).
Proof. exact C18_cleanup_invisible_lemma. Qed.

Theorem C18_cleanup_invisible_go : forall (c : config) (sel : nat -> N -> bool) (t0 : Q) (evs : list (Q * event)),
  cfg_nonneg c -> times_sorted t0 evs ->
  decisions (fst (RateLimit.run (env_go (limits_of c) sel) (limits_of c) allow_request_order t0 evs)) =
  decisions (fst (RateLimit.run env_none (limits_of c) allow_request_order t0 evs)).
Proof.
  exact (fun c sel t0 evs Hc Hs =>
           f_equal decisions (C18_cleanup_invisible_lemma (env_go (limits_of c) sel) (limits_of c) allow_request_order
                                                          t0 evs (limits_of_ok c Hc) Hs)).
Qed.

(* the idle condition: a pass deletes a bucket only when  Tokens() >= burst  (the deleted bucket is full, and the
   bucket created in its place on the next use is full) *)
Theorem C18_cleanup_deletes_only_full : forall (e : env) (lim : limits) (i : nat) (st : rl) (k : key) (now : Q) (k' : key) (b : tb),
  inv lim (buckets st) now ->
  find k' (buckets st) = Some b -> find k' (buckets (pre_cleanup e lim i st k now)) = None ->
  burst_of lim k' <= tokens_at b now.
Proof. exact cleanup_deletes_only_full. Qed.

(* ---------- the facts of the source the statements rely on ---------- *)
Theorem C18_facts :
  rl_global_fields = ["GlobalRequestsPerSecond"; "GlobalRequestsPerSecond"]%string /\
  rl_perip_fields = ["PerIPRequestsPerSecond"; "PerIPBurstSize"; "CleanupInterval"]%string /\
  rl_conn_fields = ["PerConnectionRequestsPerSecond"; "PerConnectionBurstSize"]%string /\
  rl_conn_guard_field = "PerConnectionRequestsPerSecond"%string /\
  rl_op_rate_read_large = ("ReadLargeOpsPerSecond"%string, 1%Z) /\ rl_op_burst_read_large = 10%Z /\
  rl_op_rate_write_large = ("WriteLargeOpsPerSecond"%string, 1%Z) /\ rl_op_burst_write_large = 5%Z /\
  rl_op_rate_readdir = ("ReaddirOpsPerSecond"%string, 1%Z) /\ rl_op_burst_readdir = 5%Z /\
  rl_op_rate_mount = ("MountOpsPerMinute"%string, 60%Z) /\ rl_op_burst_mount = 2%Z /\
  rl_op_cleanup_field = "CleanupInterval"%string /\
  rl_operation_sites = [("handleMountCall", "mount", 0%Z); ("handleRead", "read_large", 65536%Z);
                        ("handleReaddir", "readdir", 0%Z); ("handleReaddirplus", "readdir", 0%Z);
                        ("handleWrite", "write_large", 65536%Z)]%string /\
  rl_request_sites = ["handleConnectionLoop"]%string /\
  NoDup allow_request_order.
Proof.
  repeat (split; [reflexivity|]). repeat constructor; cbn; intuition discriminate.
Qed.

(* ---------- non-vacuity ---------- *)
(* the bound is attained: rate 1, burst 2, requests at 0,0,0,1,1 s -> admitted 3 = 2 + 1 * 1 *)
Example C18_bound_tight :
  let ts := [0; 0; 0; 1; 1] in
  sorted_from 0 ts /\ fst (TokenBucket.run (mk 1 2 0) ts) = [true; true; false; true; false] /\
  inject_Z (nadm (fst (TokenBucket.run (mk 1 2 0) ts))) == 2 + 1 * (List.last ts 0 - 0).
Proof. cbn zeta. split; [cbn; repeat split; discriminate|]. split; vm_compute; reflexivity. Qed.

(* a reachable RateLimiter state with admissions, refusals, a closed connection and a real cleanup pass:
   the default mount limiter (10/min = 1/6 per second, burst 2), per-IP 1/s burst 2, cleanup every second *)
Definition ex_cfg : config :=
  {| GlobalRequestsPerSecond := 5; PerIPRequestsPerSecond := 1; PerIPBurstSize := 2;
     PerConnectionRequestsPerSecond := 3; PerConnectionBurstSize := 1;
     ReadLargeOpsPerSecond := 1; WriteLargeOpsPerSecond := 1; ReaddirOpsPerSecond := 1;
     MountOpsPerMinute := 10; CleanupInterval := 1000000000 |}.
Definition ex_evs : list (Q * event) :=
  [(0, Req 1 1); (0, Req 1 1); (0, Req 2 2); (0, Op 1 Mount); (0, Op 1 Mount); (0, Op 1 Mount);
   (1 # 2, Close 1); (1 # 2, Req 1 1); (6, Op 1 Mount); (10, Req 2 2); (10, Op 2 Mount); (10, Req 1 1); (20, Req 2 2); (20, Op 2 Mount)].

Example C18_config_nontrivial : cfg_nonneg ex_cfg /\ times_sorted 0 ex_evs.
Proof. split; [unfold cfg_nonneg; cbn; intuition discriminate|cbn; intuition discriminate]. Qed.

(* the Go run and the cleanup-free run decide alike although the Go run has deleted buckets on the way *)
Example C18_cleanup_witness :
  let lim := limits_of ex_cfg in
  let go := RateLimit.run (env_go lim (fun _ _ => true)) lim allow_request_order 0 ex_evs in
  let nc := RateLimit.run env_none lim allow_request_order 0 ex_evs in
  decisions (fst go) = [true; false; true; true; true; false; true; false; true; true; true; true; true; true] /\
  decisions (fst nc) = decisions (fst go) /\
  (List.length (buckets (snd go)) < List.length (buckets (snd nc)))%nat.
Proof. vm_compute. repeat split. repeat constructor. Qed.

(* hypotheses of C18_not_refused met in a non-initial state, and a refusal explained by C18_refused_only_if *)
Example C18_not_refused_nontrivial :
  let lim := limits_of ex_cfg in
  let st := snd (RateLimit.run (env_go lim (fun _ _ => true)) lim allow_request_order 0 (firstn 3 ex_evs)) in
  (forall k, In k (keys_of lim allow_request_order (Req 2 2)) -> 1 <= level lim (buckets st) k (1 # 2)) /\
  admitted (fst (step (env_go lim (fun _ _ => true)) lim allow_request_order 3 st (1 # 2) (Req 2 2))) = true /\
  admitted (fst (step (env_go lim (fun _ _ => true)) lim allow_request_order 3 st (1 # 2) (Req 1 1))) = false /\
  level lim (buckets st) (KIP 1) (1 # 2) < 1.
Proof.
  cbn zeta. split.
  - intros k Hin. vm_compute in Hin. destruct Hin as [<-|[<-|[<-|[]]]]; vm_compute; discriminate.
  - repeat split; vm_compute; reflexivity.
Qed.

(* the accounts of the example history: every limiter type appears, the mount bound is 2 + (10/60) * elapsed *)
Example C18_ledger_nontrivial :
  let lim := limits_of ex_cfg in
  let trs := fst (RateLimit.run (env_go lim (fun _ _ => true)) lim allow_request_order 0 ex_evs) in
  let g := ledger_run true ex_evs trs (ledger_init 0) in
  lfind KGlobal g = Some {| created := 0; count := 5 |} /\ lfind (KIP 1) g = Some {| created := 0; count := 2 |} /\
  lfind (KConn 1) g = Some {| created := 10; count := 1 |} /\ lfind (KOp 1 Mount) g = Some {| created := 0; count := 3 |} /\
  burst_of lim (KOp 1 Mount) + rate_of lim (KOp 1 Mount) * (end_time 0 ex_evs - 0) == 2 + (10 # 60) * 20.
Proof. vm_compute. repeat split. Qed.

(* why rate >= 0 is a hypothesis: RateLimiterConfig is not validated, and with a negative rate the statement is false
   (one request admitted at creation, bound 1 + (-1) * 10 < 1 ten seconds later) *)
Example C18_negative_rate_excluded :
  let ts := [0; 10] in
  sorted_from 0 ts /\ ~ (inject_Z (nadm (fst (TokenBucket.run (mk (-1) 1 0) ts))) <= 1 + (-1) * (List.last ts 0 - 0)).
Proof. cbn zeta. split; [cbn; repeat split; discriminate|]. vm_compute. intros H. apply H. reflexivity. Qed.

Print Assumptions C18_bound.
Print Assumptions C18_bound_invariant.
Print Assumptions C18_bucket_decision.
Print Assumptions C18_bound_limiters.
Print Assumptions C18_config_limits.
Print Assumptions C18_config_values.
Print Assumptions C18_bound_go.
Print Assumptions C18_not_refused.
Print Assumptions C18_refused_only_if.
Print Assumptions C18_inv_reachable.
Print Assumptions C18_cleanup_invisible.
Print Assumptions C18_cleanup_invisible_go.
Print Assumptions C18_cleanup_deletes_only_full.
Print Assumptions C18_facts.
