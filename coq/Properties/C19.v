(* Properties/C19.v — Traffic refused to one client does not consume capacity shared with others.
   Only statements closed by [exact lemma], Examples (non-vacuity) and Print Assumptions live here.

   The model's AllowRequest consults the limiters in the order [ord]; the real order is the fact
   [Facts.allow_request_order], extracted from the body of RateLimiter.AllowRequest on every run.
   The theorems hold for EVERY order in which the global limiter comes last ([global_last ord = true]);
   [C19_facts] re-proves by computation that the current source satisfies that side condition, so moving the
   global check first breaks the named obligation C19_facts (and the correspondence run then exhibits a
   compliant client refused next to an abusive one). *)
From Coq Require Import List QArith ZArith NArith Bool.
From Verif Require Import Gen.Facts Model.TokenBucket Model.RateLimit Proofs.TokenBucketProofs Proofs.RateLimitProofs.
Import ListNotations.
Open Scope Q_scope.

(* ---------- the fact of the source ---------- *)
Theorem C19_facts :
  allow_request_order = [RL_PerIP; RL_PerConn; RL_Global] /\
  global_last allow_request_order = true /\ NoDup allow_request_order.
Proof. split; [reflexivity|]. split; [reflexivity|]. repeat constructor; cbn; intuition discriminate. Qed.

(* ---------- a refused request consumes no global capacity ---------- *)
(* in ANY state: if some limiter other than the global one refused the request, the global bucket is untouched
   (the same record), hence its token count after a refill to any time is unchanged *)
Theorem C19_no_consume : forall (e : env) (lim : limits) (ord : list rl_limiter) (i : nat) (st : rl) (now : Q) (ip c : N),
  global_last ord = true ->
  let tr := fst (step e lim ord i st now (Req ip c)) in
  let st' := snd (step e lim ord i st now (Req ip c)) in
  (exists k, In (k, false) tr /\ k <> KGlobal) ->
  find KGlobal (buckets st') = find KGlobal (buckets st) /\
  forall t, level lim (buckets st') KGlobal t = level lim (buckets st) KGlobal t.
Proof. exact C19_no_consume_lemma. Qed.

(* the same from the cause: in a reachable state, a request whose per-IP or per-connection bucket holds less than
   one token is refused and leaves the global bucket untouched *)
Theorem C19_own_limit_refusal : forall (e : env) (lim : limits) (ord : list rl_limiter) (i : nat) (st : rl) (now : Q)
                                       (ip c : N) (k : key),
  lim_ok lim -> global_last ord = true -> NoDup ord -> inv lim (buckets st) now ->
  In k (keys_of lim ord (Req ip c)) -> k <> KGlobal -> level lim (buckets st) k now < 1 ->
  admitted (fst (step e lim ord i st now (Req ip c))) = false /\
  find KGlobal (buckets (snd (step e lim ord i st now (Req ip c)))) = find KGlobal (buckets st).
Proof. exact C19_own_limit_lemma. Qed.

(* consequently, after ANY history the global bucket is exactly a stand-alone token bucket (global rate and burst,
   created with the limiter) charged with the ADMITTED requests only -- and that bucket admitted each of them *)
Theorem C19_global_tracks_admitted : forall (e : env) (lim : limits) (ord : list rl_limiter) (t0 : Q)
                                            (evs : list (Q * event)) (now : Q),
  lim_ok lim -> global_last ord = true -> times_sorted t0 evs -> end_time t0 evs <= now ->
  let trs := fst (RateLimit.run e lim ord t0 evs) in
  let st := snd (RateLimit.run e lim ord t0 evs) in
  let r := TokenBucket.run (mk (rate_of lim KGlobal) (burst_of lim KGlobal) t0) (admitted_req_times evs trs) in
  forallb (fun x : bool => x) (fst r) = true /\
  level lim (buckets st) KGlobal now == tokens_at (snd r) now /\
  inv lim (buckets st) now.
Proof. exact C19_global_tracks_lemma. Qed.

(* ---------- isolation ---------- *)
(* after ANY history (however much other clients sent beyond their limits), a request of a client whose own per-IP
   and per-connection buckets hold a token is admitted whenever the requests actually admitted so far leave a
   token in the global budget *)
Theorem C19_isolation : forall (e : env) (lim : limits) (ord : list rl_limiter) (t0 : Q) (evs : list (Q * event))
                               (i : nat) (now : Q) (ip c : N),
  lim_ok lim -> global_last ord = true -> NoDup ord -> times_sorted t0 evs -> end_time t0 evs <= now ->
  let trs := fst (RateLimit.run e lim ord t0 evs) in
  let st := snd (RateLimit.run e lim ord t0 evs) in
  let G := snd (TokenBucket.run (mk (rate_of lim KGlobal) (burst_of lim KGlobal) t0) (admitted_req_times evs trs)) in
  1 <= level lim (buckets st) (KIP ip) now ->
  (conn_on lim = true -> 1 <= level lim (buckets st) (KConn c) now) ->
  1 <= tokens_at G now ->
  admitted (fst (step e lim ord i st now (Req ip c))) = true.
Proof. exact C19_isolation_lemma. Qed.

(* ... for the Go RateLimiter: any non-negative configuration, the order read from the source, the Go cleanup *)
Theorem C19_isolation_go : forall (c : config) (sel : nat -> N -> bool) (t0 : Q) (evs : list (Q * event))
                                  (i : nat) (now : Q) (ip cn : N),
  cfg_nonneg c -> times_sorted t0 evs -> end_time t0 evs <= now ->
  let lim := limits_of c in
  let e := env_go lim sel in
  let trs := fst (RateLimit.run e lim allow_request_order t0 evs) in
  let st := snd (RateLimit.run e lim allow_request_order t0 evs) in
  let G := snd (TokenBucket.run (mk (rate_of lim KGlobal) (burst_of lim KGlobal) t0) (admitted_req_times evs trs)) in
  1 <= level lim (buckets st) (KIP ip) now ->
  (conn_on lim = true -> 1 <= level lim (buckets st) (KConn cn) now) ->
  1 <= tokens_at G now ->
  admitted (fst (step e lim allow_request_order i st now (Req ip cn))) = true.
Proof.
  exact (fun c sel t0 evs i now ip cn Hc Hs Hle =>
           C19_isolation_lemma (env_go (limits_of c) sel) (limits_of c) allow_request_order t0 evs i now ip cn
                               (limits_of_ok c Hc) (proj1 (proj2 C19_facts)) (proj2 (proj2 C19_facts)) Hs Hle).
Qed.

(* the same over whole histories, with "within its own limits" said about the client's traffic rather than about
   bucket levels: whatever the other clients sent, a client whose own request stream (this request included) is
   admitted in full by a reference bucket with its per-IP rate/burst, and likewise for its connection since the
   connection was opened, is admitted whenever the admitted traffic leaves a token in the global budget *)
Theorem C19_isolation_history : forall (e : env) (lim : limits) (ord : list rl_limiter) (t0 : Q) (evs : list (Q * event))
                                       (i : nat) (now : Q) (ip c : N),
  lim_ok lim -> global_last ord = true -> NoDup ord -> times_sorted t0 evs -> end_time t0 evs <= now ->
  let hist := evs ++ [(now, Req ip c)] in
  let trs := fst (RateLimit.run e lim ord t0 evs) in
  let st := snd (RateLimit.run e lim ord t0 evs) in
  let G := snd (TokenBucket.run (mk (rate_of lim KGlobal) (burst_of lim KGlobal) t0) (admitted_req_times evs trs)) in
  fst (ref_ip ip true (mk (rate_of lim (KIP ip)) (burst_of lim (KIP ip)) t0) hist) = true ->
  (conn_on lim = true ->
   fst (ref_conn lim c true (mk (rate_of lim (KConn c)) (burst_of lim (KConn c)) t0) hist) = true) ->
  1 <= tokens_at G now ->
  admitted (fst (step e lim ord i st now (Req ip c))) = true.
Proof. exact C19_isolation_history_lemma. Qed.

(* ---------- non-vacuity ---------- *)
(* global 10/s; an abusive client (per-IP burst 1) fires 20 requests at once: 1 admitted, 19 refused by its own
   limit; the global bucket still holds 9 tokens, so the compliant client is admitted *)
Definition ex_cfg : config :=
  {| GlobalRequestsPerSecond := 10; PerIPRequestsPerSecond := 1; PerIPBurstSize := 1;
     PerConnectionRequestsPerSecond := 0; PerConnectionBurstSize := 1;
     ReadLargeOpsPerSecond := 1; WriteLargeOpsPerSecond := 1; ReaddirOpsPerSecond := 1;
     MountOpsPerMinute := 60; CleanupInterval := 300000000000 |}.
Definition ex_abuse : list (Q * event) := repeat (0, Req 0 0) 20.

Example C19_isolation_nontrivial :
  let lim := limits_of ex_cfg in
  let e := env_go lim (fun _ _ => true) in
  let r := RateLimit.run e lim allow_request_order 0 ex_abuse in
  cfg_nonneg ex_cfg /\ times_sorted 0 ex_abuse /\
  nadm (decisions (fst r)) = 1%Z /\
  level lim (buckets (snd r)) KGlobal 0 == 9 /\
  1 <= level lim (buckets (snd r)) (KIP 1) 0 /\
  admitted (fst (step e lim allow_request_order 20 (snd r) 0 (Req 1 1))) = true.
Proof.
  cbn zeta. split; [unfold cfg_nonneg; cbn; intuition discriminate|].
  split; [cbn; intuition discriminate|]. repeat split; vm_compute; try reflexivity; discriminate.
Qed.

(* hypotheses of C19_no_consume met: the 2nd request of the abusive client is refused by its per-IP bucket *)
Example C19_no_consume_nontrivial :
  let lim := limits_of ex_cfg in
  let e := env_go lim (fun _ _ => true) in
  let st := snd (RateLimit.run e lim allow_request_order 0 (firstn 1 ex_abuse)) in
  In (KIP 0, false) (fst (step e lim allow_request_order 1 st 0 (Req 0 0))) /\
  level lim (buckets st) KGlobal 0 == 9 /\
  level lim (buckets (snd (step e lim allow_request_order 1 st 0 (Req 0 0)))) KGlobal 0 == 9.
Proof. cbn zeta. split; [vm_compute; left; reflexivity|]. split; vm_compute; reflexivity. Qed.

(* the side condition matters: with the global limiter consulted FIRST (the code before the repair) the same
   20 refused requests drain the global bucket and the compliant client is refused although its own bucket is full
   and only one request was admitted *)
Example C19_global_first_violates :
  let lim := limits_of ex_cfg in
  let e := env_go lim (fun _ _ => true) in
  let bad := [RL_Global; RL_PerIP; RL_PerConn] in
  let r := RateLimit.run e lim bad 0 ex_abuse in
  global_last bad = false /\
  nadm (decisions (fst r)) = 1%Z /\
  1 <= level lim (buckets (snd r)) (KIP 1) 0 /\
  admitted (fst (step e lim bad 20 (snd r) 0 (Req 1 1))) = false.
Proof. cbn zeta. repeat split; vm_compute; try reflexivity; discriminate. Qed.

(* hypotheses of C19_isolation_history met: a compliant client (address 1, one request per second, per-connection
   limit enabled) interleaved with an abusive one; its 3rd request comes after 40 abusive ones *)
Definition ex_cfg2 : config :=
  {| GlobalRequestsPerSecond := 3; PerIPRequestsPerSecond := 1; PerIPBurstSize := 1;
     PerConnectionRequestsPerSecond := 1; PerConnectionBurstSize := 1;
     ReadLargeOpsPerSecond := 1; WriteLargeOpsPerSecond := 1; ReaddirOpsPerSecond := 1;
     MountOpsPerMinute := 60; CleanupInterval := 1 |}.
Definition ex_mixed : list (Q * event) :=
  repeat (0, Req 0 0) 20 ++ [(0, Req 1 1)] ++ repeat (1, Req 0 0) 20 ++ [(1, Req 1 1)].

Example C19_isolation_history_nontrivial :
  let lim := limits_of ex_cfg2 in
  let e := env_go lim (fun _ _ => true) in
  let hist := ex_mixed ++ [(2, Req 1 1)] in
  let r := RateLimit.run e lim allow_request_order 0 ex_mixed in
  let G := snd (TokenBucket.run (mk (rate_of lim KGlobal) (burst_of lim KGlobal) 0) (admitted_req_times ex_mixed (fst r))) in
  conn_on lim = true /\
  fst (ref_ip 1 true (mk (rate_of lim (KIP 1)) (burst_of lim (KIP 1)) 0) hist) = true /\
  fst (ref_conn lim 1 true (mk (rate_of lim (KConn 1)) (burst_of lim (KConn 1)) 0) hist) = true /\
  fst (ref_ip 0 true (mk (rate_of lim (KIP 0)) (burst_of lim (KIP 0)) 0) ex_mixed) = false /\
  nadm (decisions (fst r)) = 4%Z /\ 1 <= tokens_at G 2 /\
  admitted (fst (step e lim allow_request_order 42 (snd r) 2 (Req 1 1))) = true.
Proof. cbn zeta. repeat split; vm_compute; try reflexivity; discriminate. Qed.

Print Assumptions C19_facts.
Print Assumptions C19_no_consume.
Print Assumptions C19_own_limit_refusal.
Print Assumptions C19_global_tracks_admitted.
Print Assumptions C19_isolation.
Print Assumptions C19_isolation_go.
Print Assumptions C19_isolation_history.
