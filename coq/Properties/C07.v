(* Properties/C07.v — The backend only sees clean in-export paths; symlink targets stay contained.
   Model: Model/Srv.v (all 22 NFSv3 procedures + MOUNT MNT over Model/Backend.v), decoded requests; the log
   [blog] of a step lists every backend call of the request with its path arguments (b_path: component
   list, rendered by [render]; b_path2: second path of Rename as a string / target of Symlink).
   Every theorem is for ALL server states satisfying the handle invariant HOK (C07_symlink_targets and
   C07_readlink: all states, whatever the backend holds), all credentials and all requests, the administrative
   pseudo-requests included; the history theorems are for histories of any length with arbitrary clock
   advances, starting from any tree.  Proofs: Proofs/SrvPaths.v. *)
From Coq Require Import List NArith ZArith Bool.
From Verif Require Import Gen.Facts Model.Handles Model.Backend Model.Srv Proofs.SrvPaths.
Import ListNotations.
Open Scope N_scope.

(* ---- what the words of the statement mean ---- *)
(* a validated component: non-empty, at most 255 bytes, free of NUL, '/' and '\', not "." and not ".." *)
Theorem C07_vname_spec : forall n, vname n <->
  n <> [] /\ N.of_nat (length n) <= 255 /\ ~ In 0 n /\ ~ In slash n /\ ~ In backslash n /\ n <> [dot] /\ n <> [dot; dot].
Proof. exact vname_spec. Qed.

(* a list of good components (non-empty, no '/', not "." / "..") IS an absolute normalized path string:
   its rendering is clean and splits back into exactly these components *)
Theorem C07_render_clean : forall p, gpath p -> clean_abs (render p) = true /\ comps_of (render p) = p.
Proof. exact render_clean. Qed.

(* a sane listing name (the only other kind of component joined to a handle path) is a good component *)
Theorem C07_name_sane_spec : forall c, name_sane c = true <->
  c <> [] /\ ~ In slash c /\ ~ In backslash c /\ c <> [dot] /\ c <> [dot; dot].
Proof. exact name_sane_spec. Qed.

(* the path a MNT asks a handle for is good whatever the request string is *)
Theorem C07_mnt_path : forall p, gpath (clean_comps [] (split_path p)).
Proof. exact mnt_path_gpath. Qed.

(* ---- the property ---- *)
(* one request: the handle invariant is kept, and every backend call is made on a handle path of the
   pre-state, or on one joined with a validated component (READDIR/READDIRPLUS: a sane name of the listing;
   MNT: the cleaned requested path); a Rename's second path is the rendering of such a path; all of them
   are good paths *)
Theorem C07_paths : forall s c r, HOK s ->
  let s' := fst (step s c r) in
  HOK s' /\ forall b, In b (blog s') -> call_ok s r b /\ gpath (b_path b).
Proof. exact step_paths. Qed.

(* no Symlink call has an absolute target or a target with a ".." component (no invariant needed) *)
Theorem C07_symlink_targets : forall s c r b, In b (blog (fst (step s c r))) -> b_op b = BSymlink ->
  is_abs (b_path2 b) = false /\ target_has_dotdot (b_path2 b) = false.
Proof. exact step_symlink_targets. Qed.

(* [target_has_dotdot t = false] says: however t is written as "/"-joined slash-free components, none is ".." *)
Theorem C07_no_dotdot_component : forall t, target_has_dotdot t = false <->
  forall l, l <> [] -> (forall c, In c l -> ~ In slash c) -> t = join l -> ~ In [dot; dot] l.
Proof. exact no_dotdot_component. Qed.

(* READLINK never returns a relative target with a ".." component, whatever the backend holds *)
Theorem C07_readlink : forall s c h, let o := snd (step s c (RReadlink h)) in
  ob_status o = 0 -> ob_rpc o = 0 -> is_abs (ob_bytes o) = true \/ target_has_dotdot (ob_bytes o) = false.
Proof. exact step_readlink. Qed.
(* ... and a successful reply does carry the backend's target (so the statement above is about it) *)
Theorem C07_readlink_ok : forall s c h, let o := snd (step s c (RReadlink h)) in
  ob_status o = 0 -> exists p t, get (hm s) h = Some p /\ be_readlink (fs s) p = Ok t /\ ob_bytes o = t.
Proof. exact step_readlink_ok. Qed.

(* strings the XDR decoder refuses (longer than MAX_XDR_STRING_LENGTH, or containing NUL) reach no backend call *)
Theorem C07_undecodable : forall s c r o, garbage_reply (clear_log s) r = Some o -> blog (fst (step s c r)) = [].
Proof. exact step_garbage. Qed.

(* ---- histories of any length ---- *)
(* the initial state of any tree satisfies the invariant; it holds after every history, and every call of
   the next step is allowed with respect to the state the step starts from *)
Theorem C07_reachable : forall f c mx t l,
  let s := hfinal (srv_init_fs f c mx t) l in
  HOK s /\ forall x, let s' := fst (hrun1 s x) in
           HOK s' /\ forall b, In b (blog s') -> call_ok s (hs_req x) b /\ gpath (b_path b).
Proof. exact reachable_paths. Qed.

(* the same on [hrun]: each element of the run is the step taken after a prefix l1 of the history, from the
   state reached after l1; invariant before and after, every call allowed *)
Theorem C07_history : forall l s, HOK s -> forall so, In so (hrun s l) ->
  HOK (fst so) /\
  exists l1 x l2, l = l1 ++ x :: l2 /\ so = hrun1 (hfinal s l1) x /\ HOK (hfinal s l1) /\
    forall b, In b (blog (fst so)) -> call_ok (hfinal s l1) (hs_req x) b /\ gpath (b_path b).
Proof. exact hrun_paths. Qed.

(* ---- the constants the statement documents, as the source has them now ---- *)
Theorem C07_facts : (c_MAX_XDR_STRING_LENGTH =? 8192)%Z = true.
Proof. vm_compute. reflexivity. Qed.
(* the name limit is 255: a 255-byte name is accepted, a 256-byte one gets NFS3ERR_NAMETOOLONG (63) *)
Example C07_facts_255 :
  validate_name (repeat 97 (N.to_nat 255)) = st_ok /\
  validate_name (repeat 97 (N.to_nat 256)) = NFSERR_NAMETOOLONG /\ NFSERR_NAMETOOLONG = 63.
Proof. vm_compute. auto. Qed.
(* the decoder limit: 8192 bytes pass, 8193 do not, NUL does not *)
Example C07_facts_8192 :
  str_ok (repeat 97 (N.to_nat 8192)) = true /\ str_ok (repeat 97 (N.to_nat 8193)) = false /\ str_ok [97; 0; 98] = false.
Proof. vm_compute. auto. Qed.

(* ---- non-vacuity ---- *)
(* witnesses (Proofs/SrvPaths.v): ex_state is the state after MNT "/", MKDIR d, CREATE d/f, SYMLINK d/l -> "f",
   LOOKUP d, READDIRPLUS d on the initial tree *)
(* a reachable state with four live handles: "/", "/d", "/d/f", "/d/l" *)
Example C07_nontrivial_state :
  map (fun h => get (hm ex_state) h) [1; 2; 3; 4; 5] =
  [Some []; Some [[100]]; Some [[100]; [102]]; Some [[100]; [108]]; None].
Proof. vm_compute. reflexivity. Qed.
(* ... which satisfies the hypothesis of C07_paths (checked by evaluation, independently of C07_reachable) *)
Example C07_nontrivial_HOK : hok_b ex_state = true /\ HOK ex_state.
Proof. split; [|apply hok_b_HOK]; vm_compute; reflexivity. Qed.
(* the calls of a RENAME d/f -> d/g from that state: paths below a handle path, second path rendered *)
Example C07_nontrivial_calls :
  let s' := fst (step ex_state ex_cred (RRename 2 [102] 2 [103])) in
  ob_status (snd (step ex_state ex_cred (RRename 2 [102] 2 [103]))) = 0 /\
  existsb (fun b => match b_op b with BRename => bytes_eqb (b_path2 b) [47; 100; 47; 103] | _ => false end) (blog s') = true /\
  length (blog s') = 5%nat.
Proof. vm_compute. auto. Qed.
(* traversal attempts reach no backend call for the name: "..", "a/b", a NUL, a 256-byte name *)
Example C07_nontrivial_rejects :
  forallb (fun n => match blog (fst (step ex_state ex_cred (RLookup 2 n))) with [] => true | _ => false end)
    [[46; 46]; [97; 47; 98]; [97; 0]; [46]; []; [97; 92; 98]; repeat 97 (N.to_nat 256)] = true.
Proof. vm_compute. reflexivity. Qed.
(* symlink targets: absolute and ".."-carrying targets are refused before any backend call; the stored
   relative target comes back through READLINK *)
Example C07_nontrivial_symlink :
  blog (fst (step ex_state ex_cred (RSymlink 2 [109] ex_sattr [47; 101; 116; 99]))) = [] /\
  blog (fst (step ex_state ex_cred (RSymlink 2 [109] ex_sattr [97; 47; 46; 46; 47; 98]))) = [] /\
  ob_bytes (snd (step ex_state ex_cred (RReadlink 4))) = [102] /\
  ob_status (snd (step ex_state ex_cred (RReadlink 4))) = 0.
Proof. vm_compute. auto. Qed.
(* an accepted SYMLINK does reach the backend with its (relative, ".."-free) target: C07_symlink_targets is not vacuous *)
Example C07_nontrivial_symlink_call :
  let s' := fst (step ex_state ex_cred (RSymlink 2 [109] ex_sattr [102; 47; 103])) in
  existsb (fun b => match b_op b with BSymlink => bytes_eqb (b_path2 b) [102; 47; 103] && path_eqb (b_path b) [[100]; [109]] | _ => false end)
          (blog s') = true.
Proof. vm_compute. reflexivity. Qed.
(* an over-long name is answered by the decoder's refusal: the hypothesis of C07_undecodable is met *)
Example C07_nontrivial_undecodable :
  match garbage_reply (clear_log ex_state) (RLookup 2 (repeat 97 (N.to_nat 8193))) with Some _ => true | None => false end = true /\
  match garbage_reply (clear_log ex_state) (RMkdir 2 [97; 0] ex_sattr) with Some _ => true | None => false end = true.
Proof. vm_compute. auto. Qed.
(* a backend that already holds a hostile relative target (planted outside the server): READLINK refuses it *)
Example C07_nontrivial_readlink_filter :
  let f := fs_set fs_init [[108]] (mk_link [46; 46; 47; 120] 7) in
  let s1 := fst (step (srv_init_fs f ex_cfg 0 100) ex_cred (RMnt [47])) in
  let s2 := fst (step s1 ex_cred (RLookup 1 [108])) in
  ob_status (snd (step s2 ex_cred (RLookup 1 [108]))) = 0 /\
  ob_status (snd (step s2 ex_cred (RReadlink 2))) = NFSERR_IO /\ ob_bytes (snd (step s2 ex_cred (RReadlink 2))) = [].
Proof. vm_compute. auto. Qed.

Print Assumptions C07_vname_spec.
Print Assumptions C07_render_clean.
Print Assumptions C07_name_sane_spec.
Print Assumptions C07_mnt_path.
Print Assumptions C07_paths.
Print Assumptions C07_symlink_targets.
Print Assumptions C07_no_dotdot_component.
Print Assumptions C07_readlink.
Print Assumptions C07_readlink_ok.
Print Assumptions C07_undecodable.
Print Assumptions C07_reachable.
Print Assumptions C07_history.
Print Assumptions C07_facts.
