(* Corr/C19.v — what a C19 correspondence shard evaluates (see Corr/RateLimitCorr.v). *)
From Coq Require Import List NArith.
From Verif Require Import Model.TokenBucket Model.RateLimit Corr.Common Corr.RateLimitCorr.
Import ListNotations.

Definition case := RateLimitCorr.case.
(* the isolation statement on the implementation's own bits, then model = implementation *)
Definition check (c : case) : list (N * N) := isolate_fail c ++ mismatch c.
Definition run (cs : list case) : result := run_cases check cs.
