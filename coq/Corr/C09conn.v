(* Corr/C09conn.v — C09 on LIVE TCP connections whose policy changes under them.
   A case is a history on a real listening server (absnfs.New over specfs, NewServer + Listen on
   127.0.0.1:0, record marking): policy updates (UpdatePolicyOptions / UpdateExportOptions with new
   AllowedIPs and Secure) interleaved with calls sent on long-lived connections opened BEFORE the
   update and on connections opened AFTER it.  For every call the driver records: accepted / denied
   (with reject_stat and auth_stat) / connection closed / no answer, the backend calls made while it
   was handled, and whether the connection had been opened just for this call.
   Oracle: the decision of Model/IpFilter.v for the client's address and port under the policy IN
   FORCE WHEN THE CALL IS SENT - not the one in force when the connection was opened.
   Step index of a result = index of the step inside the case. *)
From Coq Require Import List NArith ZArith Bool Uint63.
From Verif Require Import Model.Auth Model.IpFilter Corr.Common Corr.AuthInts Corr.C09.
Import ListNotations.
Open Scope N_scope.

Inductive cstep :=
  | SUpdate (entries : list ientry) (secure : bool)
  | SCall (fresh : bool)            (* the connection was opened for this call (after the last update) *)
          (client : option (list int)) (port : int) (flavor : int)   (* peer address of the connection as the server sees it *)
          (outcome : int)           (* 0 MSG_ACCEPTED, 1 MSG_DENIED, 2 connection closed by the server, 3 no answer in time *)
          (reject_stat auth_stat : int)   (* of a denied reply *)
          (backend_calls : int)     (* backend calls recorded while the call was outstanding *)
          (effect_visible : bool).  (* the call's effect exists in the backend afterwards (MKDIR: the directory) *)

Inductive ccase := CC (entries : list ientry) (secure : bool) (steps : list cstep).
Definition case := ccase.

Definition mkpol (entries : list ientry) (secure : bool) : policy :=
  {| pol_allowed := map entry_of entries; pol_secure := secure; pol_squash := [] |}.

(* (2) the property on the implementation's output: a request that the policy in force rejects is
   not processed (not MSG_ACCEPTED, no backend call, no visible effect); on an established
   connection it is answered MSG_DENIED.  (A connection refused by the accept-time filter - closed
   before any reply - is fine.)  The decision itself is [gate]: listed (when a list is configured)
   and privileged port (when Secure) - C09_gate_meaning / C09_exact relate it to membership. *)
Definition call_specfail (pol : policy) (s : cstep) : bool :=
  match s with
  | SUpdate _ _ => false
  | SCall fresh client port flavor outcome rs ast calls effect =>
      let rq := request_of client port flavor in
      let admitted := v_allowed (validate_request pol rq) in
      if admitted then false
      else negb ((negb (n_of outcome =? 0)) && (n_of calls =? 0) && negb effect &&
                 (fresh || (n_of outcome =? 1)))
  end.

(* (1) model vs implementation, exactly: admitted -> accepted; refused on a fresh connection whose
   address the accept-time filter rejects -> closed; refused otherwise -> MSG_DENIED / AUTH_ERROR *)
Definition call_mismatch (pol : policy) (s : cstep) : bool :=
  match s with
  | SUpdate _ _ => false
  | SCall fresh client port flavor outcome rs ast calls effect =>
      let rq := request_of client port flavor in
      let admitted := v_allowed (validate_request pol rq) in
      let accept_ok := server_is_ip_allowed true (rq_client rq) (pol_allowed pol) in
      let expected : N := if fresh && negb accept_ok then 2 else if admitted then 0 else 1 in
      negb ((n_of outcome =? expected) &&
            (if expected =? 1 then (n_of rs =? 1) && (n_of ast =? 1) else true))
  end.

Fixpoint walk (i : N) (pol : policy) (steps : list cstep) : list (N * N) :=
  match steps with
  | [] => []
  | s :: r =>
      (if call_specfail pol s then [(i, code_specfail)] else []) ++
      (if call_mismatch pol s then [(i, code_mismatch)] else []) ++
      walk (i + 1) (match s with SUpdate e sec => mkpol e sec | _ => pol end) r
  end.

Definition check (c : case) : list (N * N) :=
  match c with CC entries secure steps => walk 0 (mkpol entries secure) steps end.
Definition run (cs : list case) : result := run_cases check cs.
