(* Corr/C27.v — correspondence + spec oracle for the portmapper (C27).
   A case is a history of events (RPC call records with the caller's address, Go-API
   registrations) on a fresh Portmapper, with what the implementation did after each event:
   the reply bytes (None = handleCall returned an error, nothing is written), the registry,
   and whether a v2 SET from that address registers anything on a scratch Portmapper (the observable
   form of isLoopbackAddr). *)
From Coq Require Import List NArith ZArith Bool.
From Verif Require Import Gen.Facts Model.Portmap Corr.Common Corr.C27Bytes.
Import ListNotations.
Open Scope N_scope.

(* byte strings in the case files are written with Corr/C27Bytes.v: B (X0a (Xff E)) = [10; 255] *)
Definition B (b : bs) : list N := bytes_of b.

Record obs := { o_reply : option (list N); o_reg : list (N * N * N * N); o_allow : bool }.
Record case := { c_listen : list N; c_evs : list event; c_obs : list obs }.

(* ---- canonical forms: the registry as a sorted list, DUMP bodies as sorted entry lists ---- *)
Fixpoint lex_leb (a b : list N) : bool :=
  match a, b with
  | [], _ => true
  | _ :: _, [] => false
  | x :: a', y :: b' => if x <? y then true else if y <? x then false else lex_leb a' b'
  end.
Fixpoint insert (x : list N) (l : list (list N)) : list (list N) :=
  match l with [] => [x] | y :: r => if lex_leb x y then x :: l else y :: insert x r end.
Definition sort (l : list (list N)) : list (list N) := fold_right insert [] l.
Definition rows_eqb (a b : list (list N)) : bool := list_eqb bytes_eqb (sort a) (sort b).

Definition row_of_obs (e : N * N * N * N) : list N := let '(p, v, t, port) := e in [p; v; t; port].
Definition row_of_reg (e : key * N) : list N := let '((p, v, t), port) := e in [p; v; t; port].
Definition reg_of_obs (l : list (N * N * N * N)) : registry :=
  map (fun e => let '(p, v, t, port) := e in ((p, v, t), port)) l.
Definition row_of_rpcb (e : rpcb_entry) : list N :=
  let '(p, v, netid, addr, owner) := e in [p; v] ++ netid ++ [256] ++ addr ++ [256] ++ owner.
Definition reg_eqb (a b : registry) : bool := rows_eqb (map row_of_reg a) (map row_of_reg b).

Definition is_pmap (h : header) : bool := (h_prog h =? 100000) && supported (h_vers h).
Definition is_v2 (h : header) (proc : N) : bool := is_pmap h && (h_vers h =? 2) && (h_proc h =? proc).
Definition is_rpcb (h : header) (proc : N) : bool := is_pmap h && negb (h_vers h =? 2) && (h_proc h =? proc).

(* body of an accepted SUCCESS reply *)
Definition success_body (r : list N) : option (list N) :=
  if bytes_eqb (firstn 20 (skipn 4 r)) (enc32 1 ++ enc32 0 ++ enc32 0 ++ enc32 0 ++ enc32 0)
  then Some (skipn 24 r) else None.
Definition dump_rows (h : header) (r : list N) : option (list (list N)) :=
  match success_body r with
  | None => None
  | Some b =>
      if is_v2 h 4 then
        match p_pmaplist (S (length b)) b with Some (l, []) => Some (map row_of_reg l) | _ => None end
      else if is_rpcb h 4 then
        match p_rpcblist (S (length b)) b with Some (l, []) => Some (map row_of_rpcb l) | _ => None end
      else None
  end.
(* replies are compared byte for byte; two DUMP replies are also equal when they list the same
   entries in a different order (the order of the registry is not part of the property) *)
Definition reply_eqb (h : option header) (a b : list N) : bool :=
  bytes_eqb a b ||
  match h with
  | Some h => bytes_eqb (firstn 24 a) (firstn 24 b) &&
              match dump_rows h a, dump_rows h b with Some x, Some y => rows_eqb x y | _, _ => false end
  | None => false
  end.

(* ---- (1) model vs implementation ---- *)
Fixpoint walk_model (la : list N) (i : N) (reg : registry) (evs : list event) (os : list obs) : list (N * N) :=
  match evs, os with
  | e :: evs', o :: os' =>
      let '(reg', r) := step la reg e in
      let h := match e with Call _ d => option_map fst (decode_header d) | _ => None end in
      let allow_ok := match e with Call c _ => Bool.eqb (negb (v2_refused f_pm_v2_set_guarded c)) (o_allow o) | _ => true end in
      if option_eqb (reply_eqb h) r (o_reply o) && reg_eqb reg' (reg_of_obs (o_reg o)) && allow_ok
      then walk_model la (i + 1) reg' evs' os' else [(i, code_mismatch)]
  | [], [] => []
  | _, _ => [(i, code_mismatch)]
  end.
Definition mismatch (c : case) : list (N * N) := walk_model (c_listen c) 0 [] (c_evs c) (c_obs c).

(* ---- (2) the statement of C27 on the implementation's own output ----
   prev / cur are the implementation's registry before / after the event. *)
Definition spec_getaddr (la : list N) (prev : registry) (args : list N) : option (list N) :=
  match rpcb_head args with
  | Some (p, v, netid, _) =>
      match lookup (p, v, prot_getaddr netid) prev with
      | Some port => if 0 <? port
                     then Some (put_string (fmt_uaddr (if is_v6_netid netid then s_lo6 else listen_host la) port))
                     else Some (put_string [])
      | None => Some (put_string [])
      end
  | None => None
  end.
Definition call_ok (la : list N) (prev cur : registry) (c : caller) (data : list N) (o : obs) : bool :=
  (* a caller that is not local never changes the map *)
  (local_caller c || reg_eqb prev cur) &&
  match o_reply o with
  | None => reg_eqb prev cur
  | Some r =>
      match decode_header data with
      | None => false
      | Some (h, args) =>
          wellformed_reply h r && xid_echoed data r &&
          (* only SET / UNSET may change the map *)
          (is_v2 h 1 || is_v2 h 2 || is_rpcb h 1 || is_rpcb h 2 || reg_eqb prev cur) &&
          (* queries report the current registrations *)
          (if is_v2 h 3 then
             match args4 args with
             | Some (p, v, t, _) =>
                 option_eqb bytes_eqb (success_body r)
                            (Some (enc32 (match lookup (p, v, t) prev with Some x => x | None => 0 end)))
             | None => true
             end
           else if is_v2 h 4 then
             match dump_rows h r with Some rows => rows_eqb rows (map row_of_reg prev) | None => false end
           else if is_rpcb h 4 then
             match dump_rows h r with
             | Some rows => rows_eqb rows (map (fun e : key * N => let '((p, v, t), port) := e in
                               row_of_rpcb (p, v, netid_of t, fmt_uaddr (listen_host la) port, s_superuser)) prev)
             | None => false
             end
           else if is_rpcb h 3 then
             match spec_getaddr la prev args with
             | Some s => option_eqb bytes_eqb (success_body r) (Some s)
             | None => true
             end
           (* v2 SET / UNSET from a local caller update the map *)
           else if is_v2 h 1 && local_caller c then
             match args4 args with
             | Some (p, v, t, port) => reg_eqb cur (register (p, v, t) port prev)
                                       && option_eqb bytes_eqb (success_body r) (Some (enc32 1))
             | None => reg_eqb prev cur
             end
           else if is_v2 h 2 && local_caller c then
             match args4 args with
             | Some (p, v, t, _) => reg_eqb cur (unregister (p, v, t) prev)
                                    && option_eqb bytes_eqb (success_body r) (Some (enc32 1))
             | None => reg_eqb prev cur
             end
           else true)
      end
  end.
Definition event_spec_ok (la : list N) (prev cur : registry) (e : event) (o : obs) : bool :=
  nodupb key_eqb (map fst cur) &&
  match e with
  | Call c data => call_ok la prev cur c data o
  | ApiRegister p v t port => reg_eqb cur (register (p, v, t) port prev)
  | ApiUnregister p v t => reg_eqb cur (unregister (p, v, t) prev)
  end.
Fixpoint spec_walk (la : list N) (i : N) (prev : registry) (evs : list event) (os : list obs) : list (N * N) :=
  match evs, os with
  | e :: evs', o :: os' =>
      let cur := reg_of_obs (o_reg o) in
      if event_spec_ok la prev cur e o then spec_walk la (i + 1) cur evs' os' else [(i, code_specfail)]
  | _, _ => []
  end.
Definition specfail (c : case) : list (N * N) := spec_walk (c_listen c) 0 [] (c_evs c) (c_obs c).

Definition check (c : case) : list (N * N) := specfail c ++ mismatch c.
Definition run (cs : list case) : result := run_cases check cs.
