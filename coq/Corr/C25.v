(* Corr/C25.v — MaxFileSize is enforced.
   Oracle: while MaxFileSize = m > 0 is in force, no request makes a file larger than max(its size before,
   m); WRITE / SETATTR(size) requests that would exceed m answer NFS3ERR_FBIG and leave the tree unchanged.
   "Requests within the limit behave as without it" is the model comparison (the model's limit test is
   the only place MaxFileSize appears) plus, on the implementation side, the twin run of the driver. *)
From Coq Require Import List NArith ZArith Bool.
From Verif Require Import Model.Handles Model.Backend Model.Srv Corr.Common Corr.SrvCase.
Import ListNotations.
Open Scope N_scope.

Definition obs_proj_eqb (a b : obs) : bool :=
  (ob_rpc a =? ob_rpc b) && (ob_status a =? ob_status b) && list_eqb N.eqb (ob_nums a) (ob_nums b).
Definition mismatch (c : case) : list (N * N) := generic_mismatch obs_proj_eqb true false c.

Definition spec_step (x : octx) : list (N * N) :=
  let st := oc_step x in let prev := oc_prev x in let post := i_dump st in
  let m := maxfile (oc_cfg x) in
  let fail := [(oc_i x, code_specfail)] in
  if m =? 0 then [] else
  let sizes_ok := forallb (fun e : dump_entry =>
      match d_kind (snd e) with
      | KFile => d_size (snd e) <=? N.max m (match d_get prev (fst e) with Some e0 => d_size e0 | None => 0 end)
      | _ => true end) post in
  let over :=
    match hs_req (i_step st) with
    | RWrite h off cnt _ _ =>
        (* a well-formed WRITE (count within the transfer size, no 2^64 overflow) that would end beyond m *)
        (0 <? cnt) && (cnt <=? tsize (oc_cfg x)) && negb (two64 - 1 - cnt <? off) && (m <? off + cnt)
        && negb (ro (oc_cfg x)) && match g_get (oc_ghost x) h with Some _ => true | None => false end
    | RSetattr h sa g =>
        match s_size sa with
        | Some sz => (m <? sz) && (sz <? two63N) && negb (ro (oc_cfg x))
                     && match s_mode sa with Some md => negb (N.testbit md 15) | None => true end
                     && match g with None => true | Some _ => false end
                     && match g_get (oc_ghost x) h with Some p => match d_get prev p with Some _ => true | None => false end | None => false end
        | None => false end
    | _ => false
    end in
  if negb sizes_ok then fail
  else if over && negb ((ob_status (i_obs st) =? NFSERR_FBIG) && dump_same prev post) then fail
  else [].
Definition specfail (c : case) : list (N * N) := first_only (oracle spec_step c).
Definition check (c : case) : list (N * N) := specfail c ++ mismatch c.
Definition run (cs : list case) : result := run_cases check cs.
