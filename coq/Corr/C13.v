(* Corr/C13.v — in progress *)
