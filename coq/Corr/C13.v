(* Corr/C13.v — correspondence + spec oracle for the codecs (C13).

   Every case was produced by harness/cmd/drive_codec from the CURRENT /repo (built with -tags verif):
     - values are encoded by the Go encoders (xdrEncodeUint32/Uint64/String/FileHandle, EncodeRPCReply, WriteRecord)
       or, where the package has no encoder (call header, AUTH_SYS body, arbitrary fragmentations), by the harness's
       own RFC encoder; [mismatch] checks in both situations that the bytes equal the MODEL's encoding, so the bytes
       the Go decoder consumed are the model's encoding (model encodes -> Go decodes) and the bytes the model decodes
       are Go's (Go encodes -> model decodes);
     - every decoder runs under a recording reader: [ob_used] = bytes taken from the reader, [ob_reads] = size of the
       buffer of every Read call in order (io.ReadFull issues exactly one Read per buffer with this reader), and
       [ob_alloc] = runtime.MemStats.TotalAlloc delta across the call (all bytes allocated, size-class rounded).
   [mismatch] (code 1): model result / bytes used / read-buffer sizes = observed, model encoding = observed bytes, and
     sum(model trace) - 16 <= ob_alloc <= alloc_hi(model trace)  (the trace accounts for the allocation volume).
   [specfail] (code 2): the statement of C13 on the implementation's own outputs, without the model's codecs:
     round trips return the value and use exactly 4+n+pad bytes; no read buffer exceeds the documented limit; a declared
     length above the limit is an error with a small allocation volume; accepted values respect the limits and are
     the bytes of the input; fragmentations reassemble; writer output parses into fragments <= max and reads back. *)
From Coq Require Import PrimInt63.
From Coq Require Import List NArith ZArith Bool.
From Verif Require Import Gen.Facts Model.Bytes Model.Xdr Model.Rpc Model.RecordMark Corr.Common.
Import ListNotations.
Open Scope N_scope.

(* ---- compact literals.  Coq 8.16 spends ~2 ms on an N literal and ~0.1 ms per character of a string literal, but
   ~0.02 ms on a primitive-integer literal: the driver prints every number as an [int] and every byte string as a
   length plus 7-byte big-endian words; [n], [ns], [B] turn them into the model's N / bytes. ---- *)
Fixpoint i2n_rec (k : nat) (i : int) : N :=
  match k with
  | O => 0
  | S k' => if PrimInt63.eqb i 0%uint63 then 0
            else (if PrimInt63.eqb (PrimInt63.land i 1%uint63) 1%uint63 then 1 else 0) +
                 2 * i2n_rec k' (PrimInt63.lsr i 1%uint63)
  end.
Definition n (i : int) : N := i2n_rec 63 i.
Definition n2 (hi lo : int) : N := n hi * 4294967296 + n lo.        (* values from 2^62 up, as two 32-bit halves *)
Definition ns (l : list int) : list N := map n l.
Fixpoint wb (k : nat) (w : int) (acc : bytes) : bytes :=            (* the k low bytes of w, most significant first *)
  match k with
  | O => acc
  | S k' => wb k' (PrimInt63.lsr w 8%uint63) (n (PrimInt63.land w 255%uint63) :: acc)
  end.
Fixpoint unpack (len : N) (ws : list int) : bytes :=
  match ws with
  | [] => []
  | w :: r => if 7 <=? len then wb 7 w (unpack (len - 7) r) else wb (N.to_nat len) w []
  end.
Definition B (len : int) (ws : list int) : bytes := unpack (n len) ws.

(* large random contents are not printed: the driver and this file share a linear congruential generator *)
Fixpoint prg (nulfree : bool) (k : nat) (x : int) : bytes :=       (* x < 2^31, so the product stays below 2^63 *)
  match k with
  | O => []
  | S k' => let x' := PrimInt63.land (PrimInt63.add (PrimInt63.mul x 1103515245%uint63) 12345%uint63) 2147483647%uint63 in
            let hi := PrimInt63.lsr x' 16%uint63 in
            n (if nulfree then PrimInt63.add 1%uint63 (PrimInt63.mod hi 255%uint63) else PrimInt63.land hi 255%uint63)
              :: prg nulfree k' x'
  end.
Definition G (seed len : int) : bytes := prg false (N.to_nat (n len)) seed.
Definition Gn (seed len : int) : bytes := prg true (N.to_nat (n len)) seed.
Definition Sl (off len : int) (b : bytes) : bytes := take (n len) (drop (n off) b).
Definition cat (l : list bytes) : bytes := List.concat l.

Record obs (A : Type) := mkObs { ob_val : option A; ob_used : N; ob_reads : list N; ob_alloc : N }.
Arguments mkObs {A}.
Arguments ob_val {A}.
Arguments ob_used {A}.
Arguments ob_reads {A}.
Arguments ob_alloc {A}.

Inductive tkind := TU32 | TStr | TFh | TCall | TAuth.

Inductive case :=
| KU32 (v : N) (genc rest : bytes) (o : obs N)                   (* Go-encode v, Go-decode genc ++ rest *)
| KU64 (v : N) (genc : bytes)                                    (* Go-encode v *)
| KStr (s : bytes) (genc rest : bytes) (o : obs bytes)
| KFh (h : N) (genc rest : bytes) (o : obs N)
| KRawU32 (input : bytes) (o : obs N)                            (* arbitrary / malformed streams *)
| KRawStr (input : bytes) (o : obs bytes)
| KRawFh (input : bytes) (o : obs N)
| KCall (c : call) (input rest : bytes) (o : obs call)           (* input = harness encoding of c ++ rest *)
| KRawCall (input : bytes) (o : obs call)
| KAuth (a : authsys) (body trail : bytes) (o : obs authsys)     (* body = harness encoding of a ++ trail; used/reads unused *)
| KRawAuth (body : bytes) (o : obs authsys)
| KReply (r : reply) (gout : bytes)                              (* EncodeRPCReply *)
| KRecs (mx : Z) (recs : list (list bytes)) (tail : bytes) (input : bytes) (os : list (obs bytes))
                                                                 (* successive ReadRecord calls until the first error *)
| KWrite (mf mx : Z) (data gout : bytes) (back : obs bytes)      (* WriteRecord, then ReadRecord on the output *)
| KTrunc (k : tkind) (input : bytes) (os : list (bool * N))      (* Go decoder on every proper prefix: (ok, used) *)
| KBig (mx : Z) (lens : list N) (tail : N) (ok equal : bool) (outlen used : N) (reads : list N) (alloc : N)
       (* a large record given by its fragment lengths only; content compared on the Go side ([equal]) *)
| KBigW (mf mx : Z) (total : N) (lens : list N) (lastok backok : bool) (alloc : N).
       (* WriteRecord on a large record: fragment lengths parsed from Go's output, last-flag placement, read back *)

(* ---------- helpers ---------- *)
Definition sum (l : list N) : N := fold_left N.add l 0.
Definition all_le (L : N) (l : list N) : bool := forallb (fun x => x <=? L) l.
Definition opt_eqb {A} (e : A -> A -> bool) := @option_eqb A e.
Definition nlist_eqb : list N -> list N -> bool := bytes_eqb.

Definition res_opt {A} (r : res A) : option A := match r with Ok a => Some a | Err _ => None end.
Definition m_used {A} (s : bytes) (o : out A) : N := len s - len (o_rest o).
Definition m_reads {A} (o : out A) : list N := map ev_size (filter is_rd (o_trace o)).
Definition m_sum {A} (o : out A) : N := sum (map ev_size (o_trace o)).

(* allocation volume vs. the model trace.  Lower bound: everything in the trace is really allocated (16 = slack
   for Go's tiny allocator, which may place a < 16-byte object in a block opened earlier).  Upper bound: size-class
   rounding (<= 12.5% + a page for large objects), binary.Read scratch words, error values, result structs, the
   string copy of xdrDecodeString and bytes.Buffer's growth in ReadRecord (k = 2 for decoders, 8 for records). *)
Definition alloc_slack : N := 2048.
Definition alloc_within (k : N) (model_sum alloc : N) : bool :=
  (model_sum <=? alloc + 16) && (alloc <=? k * model_sum + alloc_slack).

(* model vs. observation for a stream decoder *)
Definition dec_agrees {A} (e : A -> A -> bool) (k : N) (s : bytes) (m : out A) (o : obs A) : bool :=
  opt_eqb e (res_opt (o_res m)) (ob_val o) && (m_used s m =? ob_used o) && nlist_eqb (m_reads m) (ob_reads o) &&
  alloc_within k (m_sum m) (ob_alloc o).

Definition flag (b : bool) (code : N) : list (N * N) := if b then [] else [(0, code)].
Definition flagi (i : N) (b : bool) (code : N) : list (N * N) := if b then [] else [(i, code)].

(* documented limits (the spec side uses the documented numbers, not Facts.v) *)
Definition L_string : N := 8192.
Definition L_auth : N := 400.
Definition L_fh : N := 64.
Definition L_gids : N := 16.
Definition L_record : N := 1048576.
Definition small_alloc : N := 1024.     (* "no allocation of that size": volume of a rejected decode *)

Definition padn (n : N) : N := (4 - n mod 4) mod 4.
Definition declared (s : bytes) : N := be_dec (take 4 s).
Definition sub (off n : N) (s : bytes) : bytes := take n (drop off s).

(* ---------- per-kind checks ---------- *)
(* strings *)
Definition spec_str_any (input : bytes) (o : obs bytes) : bool :=
  all_le L_string (ob_reads o) &&
  (if (4 <=? len input) && (L_string <? declared input)
   then match ob_val o with None => (ob_used o =? 4) && (ob_alloc o <=? small_alloc) | Some _ => false end
   else true) &&
  match ob_val o with
  | Some s => (len s <=? L_string) && (ob_used o =? 4 + len s + padn (len s)) && (declared input =? len s) &&
              bytes_eqb (sub 4 (len s) input) s && negb (has_byte 0 s)
  | None => true
  end.
Definition spec_str (s genc rest : bytes) (o : obs bytes) : bool :=
  spec_str_any (genc ++ rest) o &&
  (len genc =? 4 + len s + padn (len s)) &&
  (if len s <=? L_string
   then (ob_used o =? len genc) &&
        (if has_byte 0 s then match ob_val o with None => true | Some _ => false end
         else opt_eqb bytes_eqb (ob_val o) (Some s))
   else match ob_val o with None => true | Some _ => false end).

(* file handles *)
Definition spec_fh_any (input : bytes) (o : obs N) : bool :=
  all_le L_fh (ob_reads o) &&
  (if (4 <=? len input) && (L_fh <? declared input)
   then match ob_val o with None => (ob_used o =? 4) && (ob_alloc o <=? small_alloc) | Some _ => false end
   else true) &&
  match ob_val o with
  | Some h => (declared input =? 8) && (ob_used o =? 12) && (be_dec (sub 4 8 input) =? h)
  | None => true
  end.
Definition spec_fh (h : N) (genc rest : bytes) (o : obs N) : bool :=
  spec_fh_any (genc ++ rest) o && (len genc =? 12) && opt_eqb N.eqb (ob_val o) (Some h) && (ob_used o =? 12).

(* u32 *)
Definition spec_u32_any (input : bytes) (o : obs N) : bool :=
  all_le 4 (ob_reads o) &&
  match ob_val o with
  | Some v => (4 <=? len input) && (ob_used o =? 4) && (declared input =? v)
  | None => len input <? 4
  end.
Definition spec_u32 (v : N) (genc rest : bytes) (o : obs N) : bool :=
  spec_u32_any (genc ++ rest) o && (len genc =? 4) && opt_eqb N.eqb (ob_val o) (Some v).

(* call header *)
Definition call_len (c : call) : N :=
  40 + len (c_cred_body c) + padn (len (c_cred_body c)) + len (c_verf_body c) + padn (len (c_verf_body c)).
Definition spec_call_any (input : bytes) (o : obs call) : bool :=
  all_le L_auth (ob_reads o) && (ob_alloc o <=? 2 * (2 * L_auth) + alloc_slack) &&
  (* declared credential length above the limit, behind seven well-formed words *)
  (if (32 <=? len input) && (be_dec (sub 4 4 input) =? 0) && (L_auth <? be_dec (sub 28 4 input))
   then match ob_val o with None => (ob_used o =? 32) && (ob_alloc o <=? small_alloc) | Some _ => false end
   else true) &&
  match ob_val o with
  | Some c => (len (c_cred_body c) <=? L_auth) && (len (c_verf_body c) <=? L_auth) && (ob_used o =? call_len c) &&
              (be_dec (sub 0 4 input) =? c_xid c) && (be_dec (sub 4 4 input) =? 0) &&
              (be_dec (sub 8 4 input) =? c_rpcvers c) && (be_dec (sub 12 4 input) =? c_prog c) &&
              (be_dec (sub 16 4 input) =? c_vers c) && (be_dec (sub 20 4 input) =? c_proc c) &&
              (be_dec (sub 24 4 input) =? c_cred_flavor c) &&
              bytes_eqb (sub 32 (len (c_cred_body c)) input) (c_cred_body c)
  | None => true
  end.
Definition call_within (c : call) : bool :=
  (len (c_cred_body c) <=? L_auth) && (len (c_verf_body c) <=? L_auth).
Definition spec_call (c : call) (input rest : bytes) (o : obs call) : bool :=
  spec_call_any input o &&
  (if call_within c
   then opt_eqb call_eqb (ob_val o) (Some c) && (ob_used o + len rest =? len input)
   else match ob_val o with None => ob_alloc o <=? L_auth + small_alloc | Some _ => false end).

(* AUTH_SYS *)
Definition spec_auth_any (body : bytes) (o : obs authsys) : bool :=
  match ob_val o with
  | Some a => (len (a_gids a) <=? L_gids) && (len (a_machine a) <=? L_string) &&
              (4 + len (a_machine a) <=? len body) &&
              (ob_alloc o <=? 2 * (len (a_machine a) + 4 * len (a_gids a)) + alloc_slack)
  | None => ob_alloc o <=? 2 * N.min L_string (len body) + alloc_slack
  end.
Definition auth_within (a : authsys) : bool := (len (a_gids a) <=? L_gids) && (len (a_machine a) <=? L_string).
Definition spec_auth (a : authsys) (body : bytes) (o : obs authsys) : bool :=
  spec_auth_any body o &&
  (if auth_within a then opt_eqb authsys_eqb (ob_val o) (Some a)
   else match ob_val o with None => true | Some _ => false end).

(* records: an independent parser of fragment streams (spec side) *)
Fixpoint parse_frags (fuel : nat) (s : bytes) (acc : list bytes) : option (list bytes * bytes) :=
  match fuel with
  | O => None
  | S f =>
    if len s <? 4 then None else
    let h := declared s in
    let n := h mod 2147483648 in
    if len s - 4 <? n then None else
    let fr := sub 4 n s in
    if 2147483648 <=? h then Some (rev (fr :: acc), drop (4 + n) s)
    else parse_frags f (drop (4 + n) s) (fr :: acc)
  end.
Definition emax_doc (mx : Z) : N := if (mx <=? 0)%Z then L_record else Z.to_N mx.

(* one ReadRecord observation against the fragments the harness put on the wire *)
Definition spec_rec (mx : Z) (frs : list bytes) (o : obs bytes) : bool :=
  let r := concat frs in
  all_le (N.max 4 (emax_doc mx)) (ob_reads o) &&
  (if len r <=? emax_doc mx
   then opt_eqb bytes_eqb (ob_val o) (Some r) && (ob_used o =? 4 * N.of_nat (length frs) + len r)
   else match ob_val o with None => true | Some _ => false end).
Fixpoint spec_recs (mx : Z) (i : N) (recs : list (list bytes)) (os : list (obs bytes)) : list (N * N) :=
  match recs, os with
  | frs :: recs', o :: os' =>
      if spec_rec mx frs o
      then (if len (concat frs) <=? emax_doc mx then spec_recs mx (i + 1) recs' os' else [])
      else [(i, code_specfail)]
  | _ :: _, [] => [(i, code_specfail)]        (* a record the reader never delivered *)
  | [], _ => flagi i (forallb (fun o => all_le (N.max 4 (emax_doc mx)) (ob_reads o) &&
                                       match ob_val o with Some r => len r <=? emax_doc mx | None => true end) os)
                   code_specfail
  end.

(* model: successive read_record calls; returns the per-call (out, stream before the call) *)
Fixpoint model_recs (fuel : nat) (mx : Z) (s : bytes) : list (bytes * out bytes) :=
  match fuel with
  | O => []
  | S f => let o := read_record mx s in
           (s, o) :: (if is_ok (o_res o) then model_recs f mx (o_rest o) else [])
  end.
Fixpoint recs_agree (i : N) (ms : list (bytes * out bytes)) (os : list (obs bytes)) : list (N * N) :=
  match ms, os with
  | [], [] => []
  | (s, m) :: ms', o :: os' =>
      if dec_agrees bytes_eqb 8 s m o then recs_agree (i + 1) ms' os' else [(i, code_mismatch)]
  | _, _ => [(i, code_mismatch)]
  end.

Definition eff_frag_doc (mf : Z) : N :=
  if ((mf <=? 0) || (2147483647 <? mf))%Z then 1048576 else Z.to_N mf.

(* truncation *)
Definition trunc_model (k : tkind) (p : bytes) : bool * N :=
  match k with
  | TU32 => let m := dec_u32 p in (is_ok (o_res m), m_used p m)
  | TStr => let m := dec_string p in (is_ok (o_res m), m_used p m)
  | TFh => let m := dec_fh p in (is_ok (o_res m), m_used p m)
  | TCall => let m := dec_call p in (is_ok (o_res m), m_used p m)
  | TAuth => (is_ok (o_res (parse_authsys p)), 0)
  end.
Fixpoint prefixes (n : nat) (s : bytes) : list bytes :=   (* take 0 s, ..., take (n-1) s *)
  match n with O => [] | S k => prefixes k s ++ [take (N.of_nat k) s] end.
Definition pair_bn_eqb (a b : bool * N) : bool := Bool.eqb (fst a) (fst b) && (snd a =? snd b).

(* big records: the model runs on a stream with the same headers and zero payload *)
Definition big_stream (lens : list N) (tail : N) : bytes := enc_frags (map zeros lens) ++ zeros tail.
Definition expected_reads (mx : Z) (lens : list N) : list N :=   (* spec side: headers and non-empty fragments *)
  flat_map (fun l => 4 :: (if l =? 0 then [] else [l])) lens.

(* ---------- the two judgements ---------- *)
Definition mismatch (c : case) : list (N * N) :=
  match c with
  | KU32 v genc rest o =>
      flag (bytes_eqb (enc_u32 v) genc && dec_agrees N.eqb 2 (genc ++ rest) (dec_u32 (genc ++ rest)) o) code_mismatch
  | KU64 v genc => flag (bytes_eqb (enc_u64 v) genc) code_mismatch
  | KStr s genc rest o =>
      flag (bytes_eqb (enc_string s) genc && dec_agrees bytes_eqb 2 (genc ++ rest) (dec_string (genc ++ rest)) o)
           code_mismatch
  | KFh h genc rest o =>
      flag (bytes_eqb (enc_fh h) genc && dec_agrees N.eqb 2 (genc ++ rest) (dec_fh (genc ++ rest)) o) code_mismatch
  | KRawU32 input o => flag (dec_agrees N.eqb 2 input (dec_u32 input) o) code_mismatch
  | KRawStr input o => flag (dec_agrees bytes_eqb 2 input (dec_string input) o) code_mismatch
  | KRawFh input o => flag (dec_agrees N.eqb 2 input (dec_fh input) o) code_mismatch
  | KCall c input rest o =>
      flag (bytes_eqb (enc_call c ++ rest) input && dec_agrees call_eqb 2 input (dec_call input) o) code_mismatch
  | KRawCall input o => flag (dec_agrees call_eqb 2 input (dec_call input) o) code_mismatch
  | KAuth a body trail o =>
      let m := parse_authsys body in
      flag (bytes_eqb (enc_authsys a ++ trail) body && opt_eqb authsys_eqb (res_opt (o_res m)) (ob_val o) &&
            alloc_within 2 (m_sum m) (ob_alloc o)) code_mismatch
  | KRawAuth body o =>
      let m := parse_authsys body in
      flag (opt_eqb authsys_eqb (res_opt (o_res m)) (ob_val o) && alloc_within 2 (m_sum m) (ob_alloc o)) code_mismatch
  | KReply r gout => flag (bytes_eqb (enc_reply r) gout) code_mismatch
  | KRecs mx recs tail input os =>
      flag (bytes_eqb (concat (map enc_frags recs) ++ tail) input) code_mismatch ++
      recs_agree 0 (model_recs (S (length os)) mx input) os
  | KWrite mf mx data gout back =>
      flag (bytes_eqb (write_record mf data) gout && dec_agrees bytes_eqb 8 gout (read_record mx gout) back)
           code_mismatch
  | KTrunc k input os =>
      match first_diff pair_bn_eqb 0 (map (trunc_model k) (prefixes (length input) input)) os with
      | Some i => [(i, code_mismatch)] | None => [] end
  | KBig mx lens tail ok equal outlen used reads alloc =>
      let s := big_stream lens tail in
      let m := read_record mx s in
      flag (Bool.eqb (is_ok (o_res m)) ok && (m_used s m =? used) && nlist_eqb (m_reads m) reads &&
            (match o_res m with Ok r => len r =? outlen | Err _ => outlen =? 0 end) &&
            alloc_within 8 (m_sum m) alloc) code_mismatch
  | KBigW mf mx total lens lastok backok alloc =>
      match parse_frags (S (length lens)) (write_record mf (zeros total)) [] with
      | Some (frs, rest) => flag (nlist_eqb (map len frs) lens && (len rest =? 0) && lastok) code_mismatch
      | None => [(0, code_mismatch)]
      end
  end.

Definition specfail (c : case) : list (N * N) :=
  match c with
  | KU32 v genc rest o => flag (spec_u32 v genc rest o) code_specfail
  | KU64 v genc => flag ((len genc =? 8) && (be_dec genc =? v)) code_specfail
  | KStr s genc rest o => flag (spec_str s genc rest o) code_specfail
  | KFh h genc rest o => flag (spec_fh h genc rest o) code_specfail
  | KRawU32 input o => flag (spec_u32_any input o) code_specfail
  | KRawStr input o => flag (spec_str_any input o) code_specfail
  | KRawFh input o => flag (spec_fh_any input o) code_specfail
  | KCall c input rest o => flag (spec_call c input rest o) code_specfail
  | KRawCall input o => flag (spec_call_any input o) code_specfail
  | KAuth a body trail o => flag (spec_auth a body o) code_specfail
  | KRawAuth body o => flag (spec_auth_any body o) code_specfail
  | KReply r gout => []
  | KRecs mx recs tail input os => spec_recs mx 0 recs os
  | KWrite mf mx data gout back =>
      flag (match parse_frags (S (length gout)) gout [] with
            | Some (frs, rest) =>
                (len rest =? 0) && bytes_eqb (concat frs) data && forallb (fun f => len f <=? eff_frag_doc mf) frs &&
                ((len data =? 0) || forallb (fun f => 0 <? len f) frs)
            | None => false
            end &&
            (if len data <=? emax_doc mx
             then opt_eqb bytes_eqb (ob_val back) (Some data) && (ob_used back =? len gout)
             else match ob_val back with None => true | Some _ => false end)) code_specfail
  | KTrunc k input os => flag (forallb (fun x => negb (fst x)) os && (N.of_nat (length os) =? len input)) code_specfail
  | KBig mx lens tail ok equal outlen used reads alloc =>
      let total := sum lens in
      flag (all_le (N.max 4 (emax_doc mx)) reads &&
            (if total <=? emax_doc mx
             then ok && equal && (outlen =? total) && (used =? 4 * N.of_nat (length lens) + total) &&
                  nlist_eqb reads (expected_reads mx lens)
             else negb ok && (alloc <=? 8 * emax_doc mx + alloc_slack))) code_specfail
  | KBigW mf mx total lens lastok backok alloc =>
      flag ((sum lens =? total) && forallb (fun l => l <=? eff_frag_doc mf) lens && lastok &&
            ((total =? 0) || forallb (fun l => 0 <? l) lens) &&
            Bool.eqb backok (total <=? emax_doc mx)) code_specfail
  end.

Definition check (c : case) : list (N * N) := specfail c ++ mismatch c.
Definition run (cs : list case) : result := run_cases check cs.
