(* Corr/SrvCase.v — the case format and comparison helpers shared by the server-level correspondence
   files (C01..C04, C06..C08, C11, C25 ...).  A case is a configuration plus a history; each step
   carries the implementation's observation: RPC-level code, decoded reply, backend calls of the
   request (oldest first) and the backend tree afterwards. *)
From Coq Require Import List NArith ZArith Bool.
From Verif Require Import Model.Handles Model.Backend Model.Srv Corr.Common.
Import ListNotations.
Open Scope N_scope.

Definition dump_entry := (path * (kind * N * N * N * N * sdata * list N))%type.  (* kind perm uid gid size data target *)
Record istep := { i_step : hstep; i_rpc : N; i_obs : obs; i_calls : list bcall; i_dump : list dump_entry }.
Record case := { c_cfg : cfg; c_maxh : Z; c_steps : list istep }.

Definition clock0 : N := 1000000 * 1000000000.

(* ---- equality helpers ---- *)
Definition optN_eqb := option_eqb N.eqb.
Definition fattr_eqb (times : bool) (a b : fattr) : bool :=
  (fa_type a =? fa_type b) && (fa_perm a =? fa_perm b) && (fa_nlink a =? fa_nlink b) && (fa_uid a =? fa_uid b) &&
  (fa_gid a =? fa_gid b) && (fa_size a =? fa_size b) && (fa_fileid a =? fa_fileid b) &&
  (negb times || (fa_mtime a =? fa_mtime b)).
Definition dentry_eqb (times : bool) (a b : dentry) : bool :=
  (de_fileid a =? de_fileid b) && bytes_eqb (de_name a) (de_name b) && (de_cookie a =? de_cookie b) &&
  option_eqb (fattr_eqb times) (de_attr a) (de_attr b) && optN_eqb (de_fh a) (de_fh b).
Definition wcc_eqb (times : bool) (a b : N * N) : bool := (fst a =? fst b) && (negb times || (snd a =? snd b)).
Definition obs_eqb (times : bool) (a b : obs) : bool :=
  (ob_rpc a =? ob_rpc b) && (ob_status a =? ob_status b) && list_eqb (option_eqb (fattr_eqb times)) (ob_attrs a) (ob_attrs b) &&
  list_eqb (option_eqb (wcc_eqb times)) (ob_wcc a) (ob_wcc b) && optN_eqb (ob_fh a) (ob_fh b) &&
  list_eqb N.eqb (ob_nums a) (ob_nums b) && bytes_eqb (ob_bytes a) (ob_bytes b) &&
  list_eqb (dentry_eqb times) (ob_entries a) (ob_entries b) && Bool.eqb (ob_eof a) (ob_eof b).

(* sparse data as sets *)
Definition sdata_sub (a b : sdata) : bool := forallb (fun e => sd_get b (fst e) =? snd e) a.
Definition sdata_eqb (a b : sdata) : bool :=
  let nz := filter (fun e => negb (snd e =? 0)) in sdata_sub (nz a) b && sdata_sub (nz b) a.

(* the model's tree against the implementation's dump (volatile contents) *)
Definition dump_matches (fs : fsmap) (d : list dump_entry) : bool :=
  (N.of_nat (length fs) =? N.of_nat (length d)) &&
  forallb (fun e =>
    let '(p, (k, perm, uid, gid, size, data, target)) := e in
    match fs_get fs p with
    | Some o => kind_eqb (o_kind o) k && (o_perm o =? perm) && (o_uid o =? uid) && (o_gid o =? gid) &&
                (match k with KFile => (o_size o =? size) && sdata_eqb (o_data o) data | _ => true end) &&
                bytes_eqb (o_target o) target
    | None => false
    end) d.

Definition bop_eqb (a b : bop) : bool :=
  match a, b with
  | BLstat, BLstat | BStat, BStat | BOpenR, BOpenR | BOpenW, BOpenW | BCreate, BCreate | BMkdir, BMkdir
  | BRemove, BRemove | BRename, BRename | BSymlink, BSymlink | BReadlink, BReadlink | BChmod, BChmod
  | BChown, BChown | BLchown, BLchown | BChtimes, BChtimes | BTruncate, BTruncate | BReadAt, BReadAt
  | BWriteAt, BWriteAt | BSync, BSync | BReaddir, BReaddir => true
  | _, _ => false
  end.
(* mutating calls compared exactly (operation, path, second path; numbers except Chtimes' time) *)
Definition bcall_eqb (a b : bcall) : bool :=
  bop_eqb (b_op a) (b_op b) && path_eqb (b_path a) (b_path b) && bytes_eqb (b_path2 a) (b_path2 b) &&
  (match b_op a with BChtimes => true | _ => (b_a a =? b_a b) && (b_b a =? b_b b) end).
Definition mut_calls (l : list bcall) : list bcall := filter mutating l.

(* run the model over the history, pairing every step with the state before and after it *)
Fixpoint walk_case {A} (f : N -> srv -> srv -> obs -> istep -> list A) (i : N) (s : srv) (l : list istep) : list A :=
  match l with
  | [] => []
  | x :: r => let '(s', o) := hrun1 s (i_step x) in f i s s' o x ++ walk_case f (i + 1) s' r
  end.
Definition init_of (c : case) : srv := srv_init (c_cfg c) (c_maxh c) clock0.

(* generic mismatch check with a per-property observation equality *)
Definition generic_mismatch (obeq : obs -> obs -> bool) (check_tree check_mut : bool) (c : case) : list (N * N) :=
  match walk_case (fun i _ s' o x =>
          if negb (obeq o (i_obs x)) then [(i, code_mismatch)]
          else if check_tree && negb (dump_matches (fs s') (i_dump x)) then [(i, code_mismatch)]
          else if check_mut && negb (list_eqb bcall_eqb (mut_calls (rev (blog s'))) (mut_calls (i_calls x))) then [(i, code_mismatch)]
          else []) 0 (init_of c) (c_steps c) with
  | [] => []
  | x :: _ => [x]          (* first mismatch only: later ones are consequences *)
  end.

(* debugging aid: the model's observation, calls and tree at step i, and which comparison fails *)
Definition dbg (c : case) (k : N) :=
  walk_case (fun i _ s' o x =>
     if i =? k then [(o, rev (blog s'), fs s', ac s',
                      (obs_eqb true o (i_obs x), dump_matches (fs s') (i_dump x),
                       list_eqb bcall_eqb (mut_calls (rev (blog s'))) (mut_calls (i_calls x))))] else []) 0 (init_of c) (c_steps c).
