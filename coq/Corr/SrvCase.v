(* Corr/SrvCase.v — the case format and comparison helpers shared by the server-level correspondence
   files (C01..C04, C06..C08, C11, C25 ...).  A case is a configuration plus a history; each step
   carries the implementation's observation: RPC-level code, decoded reply, backend calls of the
   request (oldest first) and the backend tree afterwards. *)
From Coq Require Import List NArith ZArith Bool.
From Verif Require Import Model.Handles Model.Backend Model.Srv Corr.Common.
Import ListNotations.
Open Scope N_scope.

Definition dump_entry := (path * (kind * N * N * N * N * sdata * list N * N))%type.  (* kind perm uid gid size data target mtime *)
Record istep := { i_step : hstep; i_rpc : N; i_obs : obs; i_calls : list bcall;
                  i_raw : list (list N);        (* raw path strings of every backend call of the step (both paths of Rename) *)
                  i_nh : N;                     (* number of live handles after the step *)
                  i_reslen : N;                 (* length in bytes of the encoded result (after the RPC reply header) *)
                  i_dump : list dump_entry;
                  i_obs2 : option obs;          (* the same request on a twin server with minimal caches (C02) *)
                  i_crash : list (list dump_entry); (* C22: what a crash would leave, after each backend call of the step *)
                  i_verf : option N             (* write verifier carried by a WRITE / COMMIT reply *) }.
Record case := { c_cfg : cfg; c_maxh : Z; c_init : list dump_entry (* tree before the first request *); c_steps : list istep }.

(* the model's initial tree from the implementation's initial dump (all contents durable, mtime = clock0) *)
Definition obj_of_dump (now : N) (e : dump_entry) : path * obj :=
  let '(p, (k, perm, uid, gid, size, data, target, mtime)) := e in
  (p, {| o_kind := k; o_perm := perm; o_uid := uid; o_gid := gid; o_mtime := mtime;
         o_size := size; o_data := data; o_dsize := size; o_ddata := data; o_target := target |}).

Definition clock0 : N := 1000000 * 1000000000.

(* ---- equality helpers ---- *)
Definition optN_eqb := option_eqb N.eqb.
Definition fattr_eqb (times : bool) (a b : fattr) : bool :=
  (fa_type a =? fa_type b) && (fa_perm a =? fa_perm b) && (fa_nlink a =? fa_nlink b) && (fa_uid a =? fa_uid b) &&
  (fa_gid a =? fa_gid b) && (fa_size a =? fa_size b) && (fa_fileid a =? fa_fileid b) &&
  (negb times || (fa_mtime a =? fa_mtime b)).
Definition dentry_eqb (times : bool) (a b : dentry) : bool :=
  (de_fileid a =? de_fileid b) && bytes_eqb (de_name a) (de_name b) && (de_cookie a =? de_cookie b) &&
  option_eqb (fattr_eqb times) (de_attr a) (de_attr b) && optN_eqb (de_fh a) (de_fh b).
Definition wcc_eqb (times : bool) (a b : N * N) : bool := (fst a =? fst b) && (negb times || (snd a =? snd b)).
Definition obs_eqb (times : bool) (a b : obs) : bool :=
  (ob_rpc a =? ob_rpc b) && (ob_status a =? ob_status b) && list_eqb (option_eqb (fattr_eqb times)) (ob_attrs a) (ob_attrs b) &&
  list_eqb (option_eqb (wcc_eqb times)) (ob_wcc a) (ob_wcc b) && optN_eqb (ob_fh a) (ob_fh b) &&
  list_eqb N.eqb (ob_nums a) (ob_nums b) && bytes_eqb (ob_bytes a) (ob_bytes b) &&
  list_eqb (dentry_eqb times) (ob_entries a) (ob_entries b) && Bool.eqb (ob_eof a) (ob_eof b).

(* sparse data as sets *)
Definition sdata_sub (a b : sdata) : bool := forallb (fun e => sd_get b (fst e) =? snd e) a.
Definition sdata_eqb (a b : sdata) : bool :=
  let nz := filter (fun e => negb (snd e =? 0)) in sdata_sub (nz a) b && sdata_sub (nz b) a.

(* the model's tree against the implementation's dump (volatile contents) *)
Definition dump_matches (fs : fsmap) (d : list dump_entry) : bool :=
  (N.of_nat (length fs) =? N.of_nat (length d)) &&
  forallb (fun e =>
    let '(p, (k, perm, uid, gid, size, data, target, mtime)) := e in
    match fs_get fs p with
    | Some o => kind_eqb (o_kind o) k && (o_perm o =? perm) && (o_uid o =? uid) && (o_gid o =? gid) && (o_mtime o =? mtime) &&
                (match k with KFile => (o_size o =? size) && sdata_eqb (o_data o) data | _ => true end) &&
                bytes_eqb (o_target o) target
    | None => false
    end) d.

Definition bop_eqb (a b : bop) : bool :=
  match a, b with
  | BLstat, BLstat | BStat, BStat | BOpenR, BOpenR | BOpenW, BOpenW | BCreate, BCreate | BMkdir, BMkdir
  | BRemove, BRemove | BRename, BRename | BSymlink, BSymlink | BReadlink, BReadlink | BChmod, BChmod
  | BChown, BChown | BLchown, BLchown | BChtimes, BChtimes | BTruncate, BTruncate | BReadAt, BReadAt
  | BWriteAt, BWriteAt | BSync, BSync | BReaddir, BReaddir => true
  | _, _ => false
  end.
(* mutating calls compared exactly (operation, path, second path; numbers except Chtimes' time) *)
Definition bcall_eqb (a b : bcall) : bool :=
  bop_eqb (b_op a) (b_op b) && path_eqb (b_path a) (b_path b) && bytes_eqb (b_path2 a) (b_path2 b) &&
  (match b_op a with BChtimes => true | _ => (b_a a =? b_a b) && (b_b a =? b_b b) end).
Definition mut_calls (l : list bcall) : list bcall := filter mutating l.

(* run the model over the history, pairing every step with the state before and after it *)
Fixpoint walk_case {A} (f : N -> srv -> srv -> obs -> istep -> list A) (i : N) (s : srv) (l : list istep) : list A :=
  match l with
  | [] => []
  | x :: r => let '(s', o) := hrun1 s (i_step x) in f i s s' o x ++ walk_case f (i + 1) s' r
  end.
Definition init_of (c : case) : srv := srv_init_fs (map (obj_of_dump clock0) (c_init c)) (c_cfg c) (c_maxh c) clock0.

(* generic mismatch check with a per-property observation equality *)
Definition generic_mismatch (obeq : obs -> obs -> bool) (check_tree check_mut : bool) (c : case) : list (N * N) :=
  match walk_case (fun i _ s' o x =>
          if negb (obeq o (i_obs x)) then [(i, code_mismatch)]
          else if check_tree && negb (dump_matches (fs s') (i_dump x)) then [(i, code_mismatch)]
          else if check_mut && negb (list_eqb bcall_eqb (mut_calls (rev (blog s'))) (mut_calls (i_calls x))) then [(i, code_mismatch)]
          else []) 0 (init_of c) (c_steps c) with
  | [] => []
  | x :: _ => [x]          (* first mismatch only: later ones are consequences *)
  end.

(* debugging aid: the model's observation, calls and tree at step i, and which comparison fails *)
Definition dbg (c : case) (k : N) :=
  walk_case (fun i _ s' o x =>
     if i =? k then [(o, rev (blog s'), fs s', ac s',
                      (obs_eqb true o (i_obs x), dump_matches (fs s') (i_dump x),
                       list_eqb bcall_eqb (mut_calls (rev (blog s'))) (mut_calls (i_calls x))))] else []) 0 (init_of c) (c_steps c).

(* ================= spec-oracle infrastructure (uses the implementation's observations only) ================= *)

(* ghost handle map: which path each handle value was issued for, read off the implementation's replies *)
Definition ghost := list (N * path).
Definition g_get (g : ghost) (h : N) : option path :=
  match find (fun e => fst e =? h) g with Some e => Some (snd e) | None => None end.
Definition g_set (g : ghost) (h : N) (p : path) : ghost := (h, p) :: filter (fun e => negb (fst e =? h)) g.
Definition g_child (g : ghost) (h : N) (n : name) : option path :=
  match g_get g h with Some d => Some (d ++ [n]) | None => None end.

Definition ghost_update (g : ghost) (x : istep) : ghost :=
  let o := i_obs x in
  if negb ((ob_rpc o =? 0) && (ob_status o =? 0)) then g else
  match hs_req (i_step x), ob_fh o with
  | RMnt p, Some fh => g_set g fh (clean_comps [] (split_path p))
  | RLookup h n, Some fh | RCreate h n _ _, Some fh | RMkdir h n _, Some fh | RSymlink h n _ _, Some fh =>
      match g_child g h n with Some p => g_set g fh p | None => g end
  | RReaddirplus h _ _ _, _ =>
      match g_get g h with
      | Some d => fold_left (fun g e => match de_fh e with Some fh => g_set g fh (d ++ [de_name e]) | None => g end) (ob_entries o) g
      | None => g
      end
  | _, _ => g
  end.

(* configuration in force, tracked through the administrative steps *)
Definition cfg_update (c : cfg) (x : istep) : cfg :=
  match hs_req (i_step x) with
  | RSetRO b => set_ro c b | RSetMaxFile m => set_maxfile c m | RSetTsize t => set_tsize c t | _ => c
  end.

Record octx := { oc_i : N; oc_ghost : ghost; oc_first : ghost (* first path ever issued per handle value *);
                 oc_gkind : list (N * kind) (* kind of the object at the handle's path when the handle was last issued *);
                 oc_cfg : cfg; oc_prev : list dump_entry; oc_step : istep }.
Definition d_get0 (d : list (path * (kind * N * N * N * N * sdata * list N * N))) (p : path) :=
  match find (fun e => path_eqb p (fst e)) d with Some e => Some (snd e) | None => None end.
Fixpoint owalk {A} (f : octx -> list A) (i : N) (g first : ghost) (gk : list (N * kind)) (c : cfg) (prev : list dump_entry) (l : list istep) : list A :=
  match l with
  | [] => []
  | x :: r =>
    let g' := ghost_update g x in
    let first' := fold_left (fun acc e => match g_get acc (fst e) with Some _ => acc | None => acc ++ [e] end) g' first in
    (* handles whose binding is new or changed in this step get the kind their path has after the step *)
    let gk' := fold_left (fun acc e =>
                 let fresh := match g_get g (fst e) with Some p0 => negb (path_eqb p0 (snd e)) | None => true end in
                 let reissued := match hs_req (i_step x), ob_fh (i_obs x) with _, Some fh => fst e =? fh | _, None => false end in
                 if fresh || reissued then
                   match d_get0 (i_dump x) (snd e) with
                   | Some de => let '(k, _, _, _, _, _, _, _) := de in (fst e, k) :: filter (fun y => negb (fst y =? fst e)) acc
                   | None => acc end
                 else acc) g' gk in
    f {| oc_i := i; oc_ghost := g; oc_first := first; oc_gkind := gk; oc_cfg := c; oc_prev := prev; oc_step := x |}
      ++ owalk f (i + 1) g' first' gk' (cfg_update c x) (i_dump x) r
  end.
Definition oracle {A} (f : octx -> list A) (c : case) : list A := owalk f 0 [] [] [] (c_cfg c) (c_init c) (c_steps c).
Definition first_only {A} (l : list A) : list A := match l with [] => [] | x :: _ => [x] end.

(* dump lookups *)
Definition d_get (d : list dump_entry) (p : path) :=
  match find (fun e => path_eqb p (fst e)) d with Some e => Some (snd e) | None => None end.
Definition d_kind (e : kind * N * N * N * N * sdata * list N * N) : kind := let '(k, _, _, _, _, _, _, _) := e in k.
Definition d_perm (e : kind * N * N * N * N * sdata * list N * N) : N := let '(_, p, _, _, _, _, _, _) := e in p.
Definition d_uid (e : kind * N * N * N * N * sdata * list N * N) : N := let '(_, _, u, _, _, _, _, _) := e in u.
Definition d_gid (e : kind * N * N * N * N * sdata * list N * N) : N := let '(_, _, _, g, _, _, _, _) := e in g.
Definition d_size (e : kind * N * N * N * N * sdata * list N * N) : N := let '(_, _, _, _, s, _, _, _) := e in s.
Definition d_data (e : kind * N * N * N * N * sdata * list N * N) : sdata := let '(_, _, _, _, _, d, _, _) := e in d.
Definition d_target (e : kind * N * N * N * N * sdata * list N * N) : list N := let '(_, _, _, _, _, _, t, _) := e in t.
(* equality of two dump entries / dumps ignoring modification times *)
Definition dent_eqb (a b : dump_entry) : bool :=
  path_eqb (fst a) (fst b) && kind_eqb (d_kind (snd a)) (d_kind (snd b)) && (d_perm (snd a) =? d_perm (snd b)) &&
  (d_uid (snd a) =? d_uid (snd b)) && (d_gid (snd a) =? d_gid (snd b)) && (d_size (snd a) =? d_size (snd b)) &&
  sdata_eqb (d_data (snd a)) (d_data (snd b)) && bytes_eqb (d_target (snd a)) (d_target (snd b)).
Definition dump_same (a b : list dump_entry) : bool :=
  (N.of_nat (length a) =? N.of_nat (length b)) &&
  forallb (fun e => match find (fun e' => path_eqb (fst e) (fst e')) b with Some e' => dent_eqb e e' | None => false end) a.
(* ... except at the given paths *)
Definition dump_same_except (ps : list path) (a b : list dump_entry) : bool :=
  let keep := filter (fun e : dump_entry => negb (existsb (path_eqb (fst e)) ps)) in
  dump_same (keep a) (keep b).
Definition status_ok (x : istep) : bool := (ob_rpc (i_obs x) =? 0) && (ob_status (i_obs x) =? 0).
