(* Corr/RateLimitCorr.v — correspondence and spec oracles for the rate limiters (C18, C19).

   A case is one limiter object of the real code (a RateLimiter built from a RateLimiterConfig, a bare
   PerIPLimiter, or a bare TokenBucket) driven on the virtual clock by a list of (clock advance in ns, call);
   the observation is the admit/deny bit of every call.

   (1) mismatch: the code-level model (Model/RateLimit.v, limiter order from Facts) must produce the same bits.
       strict cases (timings on the 2^-9 s grid, dyadic rates): bit-for-bit.  Non-strict cases (arbitrary ns
       timings / non-dyadic rates): a disagreement is tolerated only when a consulted bucket's exact level is
       within 10^-6 of the threshold 1 (float64 rounding: modelled, not verified); comparison of that case stops there.
   (2) spec oracles, evaluated on the implementation's bits and using only the reference bucket of
       Model/TokenBucket.v and the configured rate/burst of each limiter (NOT the composite model, NOT the order):
       bound    — C18: for every limiter, admitted since its creation <= burst + rate * elapsed, at every prefix;
       within   — C18: where a single bucket decides (AllowOperation, PerIPLimiter.Allow, TokenBucket.Allow): a caller
                  whose whole call stream conforms to the limiter's (rate, burst) envelope is never refused;
       cleanup  — C18: the bits equal those of a second instance of the REAL code, given the same calls, whose cleanup
                  interval is 2^63-1 ns (no pass ever runs): cleanup is invisible;
       isolate  — C18/C19: a request of a client whose whole request stream conforms to its per-IP and per-connection
                  limits is admitted whenever a reference global bucket charged with the ADMITTED requests only
                  still holds a token. *)
From Coq Require Import List QArith ZArith NArith Bool Qabs.
From Verif Require Import Gen.Facts Model.TokenBucket Model.RateLimit Corr.Common.
Import ListNotations.
Open Scope Q_scope.

Inductive target :=
| TFull (c : config)                          (* NewRateLimiter(c) *)
| TPerIP (rate : Q) (burst : Z) (iv_ns : Z)   (* NewPerIPLimiter(rate, burst, iv); calls are Req ip 0 *)
| TBucket (rate : Q) (burst : Z).             (* NewTokenBucket(rate, burst);  calls are Req 0 0 *)

(* c_obs: the admit bits; c_obs_nc: the bits of the same calls on an instance whose cleanup never runs *)
Record case := { c_target : target; c_strict : bool; c_evs : list (Z * event); c_obs : list bool; c_obs_nc : list bool }.

Definition cfg (g ipr ipb cr cb rd wr rdir mo iv : Z) : config :=
  {| GlobalRequestsPerSecond := g; PerIPRequestsPerSecond := ipr; PerIPBurstSize := ipb;
     PerConnectionRequestsPerSecond := cr; PerConnectionBurstSize := cb;
     ReadLargeOpsPerSecond := rd; WriteLargeOpsPerSecond := wr; ReaddirOpsPerSecond := rdir;
     MountOpsPerMinute := mo; CleanupInterval := iv |}.

(* the limits of a target.  None of the three depends on the address / connection inside a key, so the values are
   computed once per case (limits_of looks fields up by name on every call) and shared by a closure. *)
Definition memo (lim : limits) : limits :=
  let g := (rate_of lim KGlobal, burst_of lim KGlobal) in
  let i := (rate_of lim (KIP 0), burst_of lim (KIP 0)) in
  let c := (rate_of lim (KConn 0), burst_of lim (KConn 0)) in
  let o1 := (rate_of lim (KOp 0 ReadLarge), burst_of lim (KOp 0 ReadLarge)) in
  let o2 := (rate_of lim (KOp 0 WriteLarge), burst_of lim (KOp 0 WriteLarge)) in
  let o3 := (rate_of lim (KOp 0 Readdir), burst_of lim (KOp 0 Readdir)) in
  let o4 := (rate_of lim (KOp 0 Mount), burst_of lim (KOp 0 Mount)) in
  let con := conn_on lim in let i1 := interval_ip lim in let i2 := interval_op lim in
  let pick := fun k => match k with
                       | KGlobal => g | KIP _ => i | KConn _ => c
                       | KOp _ ReadLarge => o1 | KOp _ WriteLarge => o2 | KOp _ Readdir => o3 | KOp _ Mount => o4
                       end in
  {| rate_of := fun k => fst (pick k); burst_of := fun k => snd (pick k); conn_on := con;
     interval_ip := i1; interval_op := i2 |}.
Definition lim_of (t : target) : limits :=
  memo match t with
  | TFull c => limits_of c
  | TPerIP r b iv => {| rate_of := fun _ => r; burst_of := fun _ => inject_Z b; conn_on := false;
                        interval_ip := ns_to_s iv; interval_op := 0 |}
  | TBucket r b => {| rate_of := fun _ => r; burst_of := fun _ => inject_Z b; conn_on := false;
                      interval_ip := 0; interval_op := 0 |}
  end.
Definition ord_of (t : target) : list rl_limiter :=
  match t with TFull _ => allow_request_order | TPerIP _ _ _ => [RL_PerIP] | TBucket _ _ => [RL_Global] end.

(* the drivers start the virtual clock at 1000 s *)
Definition t0_ns : Z := 1000000000000.
Fixpoint abs_times (t : Z) (evs : list (Z * event)) : list (Q * event) :=
  match evs with [] => [] | (dt, ev) :: r => (ns_to_s (t + dt), ev) :: abs_times (t + dt) r end.

Definition tol : Q := 1 # 1000000.
Definition near1 (x : Q) : bool := Qle_bool (Qabs (x - 1)) tol.

(* ---- (1) model vs implementation ---- *)
Fixpoint walk (strict : bool) (lim : limits) (ord : list rl_limiter) (e : env) (i : nat) (idx : N) (st : rl)
         (evs : list (Q * event)) (obs : list bool) : list (N * N) :=
  match evs, obs with
  | [], [] => []
  | (now, ev) :: r, o :: os =>
      let '(tr, st1) := step e lim ord i st now ev in
      if Bool.eqb (admitted tr) o then walk strict lim ord e (S i) (idx + 1)%N st1 r os
      else if strict then [(idx, code_mismatch)]
      else if existsb (fun k => near1 (level lim (buckets st) k now)) (keys_of lim ord ev) then []
      else [(idx, code_mismatch)]
  | _, _ => [(idx, code_mismatch)]
  end.
Definition mismatch (c : case) : list (N * N) :=
  let lim := lim_of (c_target c) in
  walk (c_strict c) lim (ord_of (c_target c)) (env_go lim (fun _ _ => true)) O 0%N
       (init lim (ns_to_s t0_ns)) (abs_times t0_ns (c_evs c)) (c_obs c).

(* ---- (2a) bound: admitted since creation <= burst + rate * elapsed, per limiter ---- *)
(* the limiters an admitted call is charged to (independent of the order in which they are consulted) *)
Definition charged (t : target) (lim : limits) (ev : event) : list key :=
  match t, ev with
  | TFull _, Req ip c => KGlobal :: KIP ip :: (if conn_on lim then [KConn c] else [])
  | TFull _, Op ip op => [KOp ip op]
  | TPerIP _ _ _, Req ip _ => [KIP ip]
  | TBucket _ _, Req _ _ => [KGlobal]
  | _, _ => []
  end.
Definition acct := list (key * (Q * Z)).    (* limiter -> (creation time, admitted so far) *)
Fixpoint afind (k : key) (a : acct) : option (Q * Z) :=
  match a with [] => None | (k', v) :: r => if key_eqb k k' then Some v else afind k r end.
Definition aset (k : key) (v : Q * Z) (a : acct) : acct :=
  (k, v) :: filter (fun e => negb (key_eqb k (fst e))) a.
Definition charge (lim : limits) (slack : Q) (now : Q) (o : bool) (st : acct * bool) (k : key) : acct * bool :=
  let '(tc, n) := match afind k (fst st) with Some v => v | None => (now, 0%Z) end in
  let n' := (n + if o then 1 else 0)%Z in
  (aset k (tc, n') (fst st),
   snd st && Qle_bool (inject_Z n') (burst_of lim k + rate_of lim k * (now - tc) + slack)).
Fixpoint bound_walk (t : target) (lim : limits) (slack : Q) (idx : N) (a : acct)
         (evs : list (Q * event)) (obs : list bool) : list (N * N) :=
  match evs, obs with
  | (now, ev) :: r, o :: os =>
      match ev with
      | Close c => bound_walk t lim slack (idx + 1)%N (filter (fun e => negb (key_eqb (KConn c) (fst e))) a) r os
      | _ =>
          let '(a', ok) := fold_left (charge lim slack now o) (charged t lim ev) (a, true) in
          if ok then bound_walk t lim slack (idx + 1)%N a' r os else [(idx, code_specfail)]
      end
  | _, _ => []
  end.
Definition bound_fail (c : case) : list (N * N) :=
  let lim := lim_of (c_target c) in
  let t0 := ns_to_s t0_ns in
  bound_walk (c_target c) lim (if c_strict c then 0 else tol) 0%N
             (match c_target c with TPerIP _ _ _ => [] | _ => [(KGlobal, (t0, 0%Z))] end)
             (abs_times t0_ns (c_evs c)) (c_obs c).

(* ---- (2b) within: a caller within the limiter's envelope is never refused (single deciding bucket) ---- *)
Definition single_key (t : target) (ev : event) : option key :=
  match t, ev with
  | TFull _, Op ip op => Some (KOp ip op)
  | TPerIP _ _ _, Req ip _ => Some (KIP ip)
  | TBucket _ _, Req _ _ => Some KGlobal
  | _, _ => None
  end.
(* reference bucket of a key fed with ALL calls on that key, and whether it admitted all of them so far *)
Definition kref := list (key * (tb * bool)).
Fixpoint kfind (k : key) (m : kref) : option (tb * bool) :=
  match m with [] => None | (k', v) :: r => if key_eqb k k' then Some v else kfind k r end.
Definition kset (k : key) (v : tb * bool) (m : kref) : kref :=
  (k, v) :: filter (fun e => negb (key_eqb k (fst e))) m.
Fixpoint within_walk (strict : bool) (t : target) (lim : limits) (idx : N) (m : kref)
         (evs : list (Q * event)) (obs : list bool) : list (N * N) :=
  match evs, obs with
  | (now, ev) :: r, o :: os =>
      match single_key t ev with
      | None => within_walk strict t lim (idx + 1)%N m r os
      | Some k =>
          let '(b, ok) := match kfind k m with Some v => v | None => (mk (rate_of lim k) (burst_of lim k) now, true) end in
          let '(a, b') := allow b now in
          if strict || negb (near1 (tokens_at b now)) then
            if ok && a && negb o then [(idx, code_specfail)]
            else within_walk strict t lim (idx + 1)%N (kset k (b', ok && a) m) r os
          else []
      end
  | _, _ => []
  end.
Definition within_fail (c : case) : list (N * N) :=
  let lim := lim_of (c_target c) in
  let t0 := ns_to_s t0_ns in
  within_walk (c_strict c) (c_target c) lim 0%N
              (match c_target c with TBucket r b => [(KGlobal, (mk r (inject_Z b) t0, true))] | _ => [] end)
              (abs_times t0_ns (c_evs c)) (c_obs c).

(* ---- (2d) cleanup: same bits as the real code without cleanup passes ---- *)
Definition cleanup_fail (c : case) : list (N * N) :=
  match first_diff Bool.eqb 0%N (c_obs c) (c_obs_nc c) with
  | Some i => [(i, code_specfail)]
  | None => []
  end.

(* ---- (2c) isolate: compliant clients are admitted while the admitted traffic leaves global room ---- *)
(* reference bucket of a client fed with ALL of its requests, and whether it admitted all of them so far *)
Definition cref := list (N * (tb * bool)).
Fixpoint cfind (x : N) (m : cref) : option (tb * bool) :=
  match m with [] => None | (y, v) :: r => if N.eqb x y then Some v else cfind x r end.
Definition cset (x : N) (v : tb * bool) (m : cref) : cref :=
  (x, v) :: filter (fun e => negb (N.eqb x (fst e))) m.
(* feed one request: (new table, compliant so far incl. this request, level seen by this request) *)
Definition feed (r burst now : Q) (x : N) (m : cref) : cref * bool * Q :=
  let '(b, ok) := match cfind x m with Some v => v | None => (mk r burst now, true) end in
  let '(a, b') := allow b now in
  (cset x (b', ok && a) m, ok && a, tokens_at b now).
Fixpoint isolate_walk (strict : bool) (lim : limits) (idx : N) (ips conns : cref) (g : tb)
         (evs : list (Q * event)) (obs : list bool) : list (N * N) :=
  match evs, obs with
  | (now, ev) :: r, o :: os =>
      match ev with
      | Close c => isolate_walk strict lim (idx + 1)%N ips (filter (fun e => negb (N.eqb c (fst e))) conns) g r os
      | Op _ _ => isolate_walk strict lim (idx + 1)%N ips conns g r os
      | Req ip c =>
          let '(ips', ok_ip, l_ip) := feed (rate_of lim (KIP ip)) (burst_of lim (KIP ip)) now ip ips in
          let '(conns', ok_c, l_c) :=
            if conn_on lim then feed (rate_of lim (KConn c)) (burst_of lim (KConn c)) now c conns
            else (conns, true, 2) in
          let l_g := tokens_at g now in
          let g' := if o then snd (allow g now) else g in
          if strict || negb (near1 l_ip || near1 l_c || near1 l_g) then
            if ok_ip && ok_c && Qle_bool 1 l_g && negb o then [(idx, code_specfail)]
            else isolate_walk strict lim (idx + 1)%N ips' conns' g' r os
          else []
      end
  | _, _ => []
  end.
Definition isolate_fail (c : case) : list (N * N) :=
  match c_target c with
  | TFull _ =>
      let lim := lim_of (c_target c) in
      isolate_walk (c_strict c) lim 0%N [] [] (mk (rate_of lim KGlobal) (burst_of lim KGlobal) (ns_to_s t0_ns))
                   (abs_times t0_ns (c_evs c)) (c_obs c)
  | _ => []
  end.
