(* Corr/SRV.v — full-fidelity correspondence of Model/Srv.v (development / model-validation stream):
   decoded replies including times, backend tree, mutating backend calls. *)
From Coq Require Import List NArith ZArith Bool.
From Verif Require Import Model.Handles Model.Backend Model.Srv Corr.Common Corr.SrvCase.
Import ListNotations.
Open Scope N_scope.
Definition check (c : case) : list (N * N) := generic_mismatch (obs_eqb true) true true c.
Definition run (cs : list case) : result := run_cases check cs.
