(* Corr/C20.v — correspondence + spec oracle for the worker pool (C20).

   A case is the event log of one enacted schedule on the real WorkerPool: the driver thread is the
   only writer of the log.  Driver actions (calls, gate releases) are logged when performed; things
   that happen by themselves inside the pool (a task starts, a submitter gets its answer, Stop/Resize
   return) are logged when the driver notices them, possibly late.  Hence
     (a) monitor: calls and gate releases are visible LTS labels; every other LTS label is internal
         (tau); a noticed fact is a FILTER on the set of model states compatible with the log so far
         ("by now t has started", "by now submitter t holds result v", ...).  The log is accepted iff
         the set never becomes empty.  Worker identity is not observable, so states are kept modulo
         permutation of the worker list (sorted) - workers are interchangeable in [step].
     (b) oracle: the statement of C20 evaluated on the log alone, without the model: peak concurrency within the
         size bound; every task accepted by the pool executed exactly once (events and the per-task execution
         counters of the real code), no task more than once overall, a task refused to ExecuteWithWorker executed
         exactly once in the caller; every answer is the task's own value - nil, typed nil and zero values
         included, since tasks of all three entry points return a mix of them; nobody left blocked; no panic. *)
From Coq Require Import List Arith Bool NArith.
From Verif Require Import Model.PoolLTS Model.PoolCfg Corr.Common.
Import ListNotations.
Local Open Scope nat_scope.

(* what a task body returns / what came back.  Half of the tasks return a value that names them (VOwn id); the
   others nil (untyped, or a nil error: the same nil interface value), a typed nil pointer, or a zero value -
   every one of them a legitimate result of an executed task. *)
Inductive val := VOwn (n : nat) | VNil | VNilPtr | VZero | VEmpty | VUnit | VOther.
Definition val_eqb (a b : val) : bool :=
  match a, b with
  | VOwn n, VOwn m => Nat.eqb n m
  | VNil, VNil | VNilPtr, VNilPtr | VZero, VZero | VEmpty, VEmpty | VUnit, VUnit => true
  | _, _ => false     (* VOther equals nothing *)
  end.

Inductive res :=
| RGot (v : val)         (* a value arrived on the result channel with ok = true (Submit+receive, SubmitWait) *)
| RNotExec               (* Submit accepted, channel closed: told "not executed" *)
| RRejected              (* Submit returned nil *)
| RFalse                 (* SubmitWait returned ok = false (rejected or not executed) *)
| REww (v : val) (d : nat) (* ExecuteWithWorker returned v; the body ran d times in the caller itself *)
| RPanic.                (* the Submit call panicked *)

Inductive ev :=
| ECall (t : nat)                 (* a goroutine calls Submit / SubmitWait / ExecuteWithWorker for task t *)
| ERet (t : nat) (acc : bool)     (* Submit returned a channel (true) or nil (false) *)
| EStart (t k : nat)              (* task t began executing on a pool worker; k bodies were executing then (itself included) *)
| EFinish (t : nat)               (* the driver opened t's gate and t's body returned *)
| ERes (t : nat) (r : res)        (* the submitter of t got its answer *)
| EStopCall | EStopRet
| ERzCall (n : nat) | ERzRet
| EQuiesce (blk : list nat).      (* nothing moved for the settle time; blk = submitters still without an answer *)

(* c_vals: each task's own value; c_counts: per task, how often its body ran on a pool goroutine and how often on
   the goroutine that called ExecuteWithWorker - counted on the real code, read at quiescence *)
Record case := { c_n : nat; c_vals : list (nat * val); c_evs : list ev; c_counts : list (nat * (nat * nat)) }.
Definition own_val (vals : list (nat * val)) (t : nat) : val :=
  match find (fun e => Nat.eqb (fst e) t) vals with Some e => snd e | None => VOther end.

(* ---------- state equality and canonical form ---------- *)
Definition bool_eqb (a b : bool) := Bool.eqb a b.
Definition listnat_eqb := list_eqb Nat.eqb.
Definition gen_eqb (a b : gen) : bool :=
  listnat_eqb (g_items a) (g_items b) && bool_eqb (g_closed a) (g_closed b) &&
  Nat.eqb (g_cap a) (g_cap b) && bool_eqb (g_cancel a) (g_cancel b).
Definition wst_eqb (a b : wst) : bool :=
  match a, b with WIdle g, WIdle h => Nat.eqb g h | WExec t, WExec u => Nat.eqb t u | WExit, WExit => true | _, _ => false end.
Definition sst_eqb (a b : sst) : bool :=
  match a, b with
  | SCalled, SCalled | SWait, SWait | SNotExec, SNotExec | SRejected, SRejected | SPanic, SPanic => true
  | SPending g, SPending h => Nat.eqb g h
  | SGot v, SGot w => option_eqb Nat.eqb v w
  | _, _ => false
  end.
Definition spc_eqb (a b : spc) : bool :=
  match a, b with
  | SpIdle, SpIdle | SpCalled, SpCalled | SpClose, SpClose | SpWait, SpWait => true
  | SpDrain g, SpDrain h => Nat.eqb g h
  | _, _ => false
  end.
Definition rpc_eqb (a b : rpc) : bool :=
  match a, b with
  | RpIdle, RpIdle => true
  | RpCalled n, RpCalled m => Nat.eqb n m
  | RpStop n w o, RpStop n' w' o' => Nat.eqb n n' && bool_eqb w w' && Nat.eqb o o'
  | RpClose n o, RpClose n' o' | RpWait n o, RpWait n' o' => Nat.eqb n n' && Nat.eqb o o'
  | RpDrain n w o p, RpDrain n' w' o' p' => Nat.eqb n n' && bool_eqb w w' && Nat.eqb o o' && listnat_eqb p p'
  | RpSwap n w p, RpSwap n' w' p' => Nat.eqb n n' && bool_eqb w w' && listnat_eqb p p'
  | RpReenq p, RpReenq p' | RpDrop p, RpDrop p' => listnat_eqb p p'
  | _, _ => false
  end.
Definition state_eqb (a b : state) : bool :=
  bool_eqb (running a) (running b) && Nat.eqb (maxw a) (maxw b) && Nat.eqb (cur a) (cur b) &&
  list_eqb gen_eqb (gens a) (gens b) && list_eqb wst_eqb (workers a) (workers b) &&
  list_eqb (pair_eqb Nat.eqb sst_eqb) (subs a) (subs b) && spc_eqb (stop a) (stop b) && rpc_eqb (rz a) (rz b) &&
  bool_eqb (resizing a) (resizing b) && listnat_eqb (executed a) (executed b) && bool_eqb (panicked a) (panicked b).

(* total order on worker states: exited < idle (by generation) < executing (by task) *)
Definition wleb (a b : wst) : bool :=
  match a, b with
  | WExit, _ => true
  | WIdle _, WExit => false
  | WIdle g, WIdle h => g <=? h
  | WIdle _, WExec _ => true
  | WExec _, (WExit | WIdle _) => false
  | WExec t, WExec u => t <=? u
  end.
Fixpoint winsert (w : wst) (l : list wst) : list wst :=
  match l with [] => [w] | x :: r => if wleb w x then w :: l else x :: winsert w r end.
Definition wsort (l : list wst) : list wst := fold_right winsert [] l.
(* executed is a multiset for every observation made here: keep it sorted as well *)
Fixpoint ninsert (n : nat) (l : list nat) : list nat :=
  match l with [] => [n] | x :: r => if n <=? x then n :: l else x :: ninsert n r end.
Definition canon (s : state) : state := set_executed (set_workers s (wsort (workers s))) (fold_right ninsert [] (executed s)).

(* ---------- the monitor ---------- *)
Definition mem (s : state) (l : list state) : bool := existsb (state_eqb s) l.
Definition add_new (seen acc : list state) (s : state) : list state :=
  if mem s seen || mem s acc then acc else s :: acc.
Definition is_finish (l : label) : bool := match l with Finish _ => true | _ => false end.
(* internal successors: every enabled internal label except Finish (a task body returns only when the
   driver opens its gate, which is logged) *)
Definition succs (c : cfg) (s : state) : list state :=
  flat_map (fun l => if is_finish l then [] else
                     match step c s l with Some s' => [canon s'] | None => [] end) (candidates s).
(* None = gave up: out of fuel, or more than [max_states] compatible states.  The driver keeps the
   unobservable part of a schedule small (one "dark" call at a time), so this is not expected to happen; if
   it does it is reported as a mismatch - loudly - rather than accepted or skipped. *)
Definition max_states : nat := 1500.
Fixpoint closure (fuel : nat) (c : cfg) (seen frontier : list state) : option (list state) :=
  match frontier with
  | [] => Some seen
  | _ => match fuel with
         | O => None
         | S f => let new := fold_left (add_new seen) (flat_map (succs c) frontier) [] in
                  if max_states <? length seen + length new then None
                  else closure f c (seen ++ new) new
         end
  end.
Definition tau (c : cfg) (S : list state) : option (list state) := closure 400 c S S.

Definition apply_label (c : cfg) (l : label) (S : list state) : list state :=
  fold_left (add_new []) (flat_map (fun s => match step c s l with Some s' => [canon s'] | None => [] end) S) [].

Fixpoint index_of_exec (t : nat) (i : nat) (ws : list wst) : option nat :=
  match ws with
  | [] => None
  | WExec u :: r => if Nat.eqb u t then Some i else index_of_exec t (S i) r
  | _ :: r => index_of_exec t (S i) r
  end.
Definition apply_finish (c : cfg) (t : nat) (S : list state) : list state :=
  fold_left (add_new [])
    (flat_map (fun s => match index_of_exec t 0 (workers s) with
                        | Some w => match step c s (Finish w) with Some s' => [canon s'] | None => [] end
                        | None => [] end) S) [].

Definition sub_is (t : nat) (p : sst -> bool) (s : state) : bool :=
  match sub_of t (subs s) with Some st => p st | None => false end.
Definition mem_nat (t : nat) (l : list nat) : bool := existsb (Nat.eqb t) l.
Definition same_set (a b : list nat) : bool := forallb (fun x => mem_nat x b) a && forallb (fun x => mem_nat x a) b.

(* SGot (Some t) = the submitter holds the result of its own task: the value must be the task's own value (nil
   included).  SGot None = a nil that is nobody's result (the overflow of the code before 9607c86).
   ExecuteWithWorker runs the task itself exactly when the pool refused it or told "not executed". *)
Definition res_matches (own : val) (t : nat) (r : res) (st : sst) : bool :=
  match r, st with
  | (RGot v | REww v O), SGot (Some u) => Nat.eqb u t && val_eqb v own
  | (RGot v | REww v O), SGot None => val_eqb v VNil
  | RNotExec, SNotExec => true
  | RRejected, SRejected => true
  | (RFalse | REww _ (S _)), (SNotExec | SRejected) => true
  | RPanic, SPanic => true
  | _, _ => false
  end.

(* one event.  Calls and gate releases are LTS labels: apply the label, then close under internal steps.
   Noticed facts are filters; each of them is stable under internal steps (answers are final, a started
   task stays started-or-executed, only a call leaves SpIdle/RpIdle, a quiescent state has no successor),
   so a filtered closed set is closed.  Some S' (possibly empty = rejected) or None (out of fuel). *)
Definition on_event (c : cfg) (vals : list (nat * val)) (e : ev) (T : list state) : option (list state) :=
  let after (S : list state) := tau c S in
  match e with
  | ECall t => after (apply_label c (SubmitCall t) T)
  | EStopCall => after (apply_label c StopCall T)
  | ERzCall n => after (apply_label c (RzCall n) T)
  | EFinish t => after (apply_finish c t T)
  | ERet t acc => Some (filter (sub_is t (fun st => if acc then match st with SWait | SGot _ | SNotExec => true | _ => false end
                                                    else match st with SRejected => true | _ => false end)) T)
  | EStart t _ => Some (filter (fun s => mem_nat t (exec_tasks (workers s)) || mem_nat t (executed s)) T)
  | ERes t r => Some (filter (sub_is t (res_matches (own_val vals t) t r)) T)
  | EStopRet => Some (filter (fun s => match stop s with SpIdle => true | _ => false end) T)
  | ERzRet => Some (filter (fun s => match rz s with RpIdle => true | _ => false end) T)
  | EQuiesce blk => Some (filter (fun s => quiescentb c s && same_set (blocked s) blk) T)
  end.

Definition is_panic_ev (e : ev) : bool := match e with ERes _ RPanic => true | _ => false end.

(* (a fold rather than a Fixpoint: the guard checker would otherwise unfold the fuel of [tau]) *)
Record mon := { m_i : N; m_S : list state; m_out : list (N * N); m_done : bool }.
Definition mon_step (c : cfg) (vals : list (nat * val)) (m : mon) (e : ev) : mon :=
  if m_done m then m else
  match on_event c vals e (m_S m) with
  | None | Some [] => {| m_i := m_i m; m_S := []; m_out := [(m_i m, code_mismatch)]; m_done := true |}
  | Some S' => {| m_i := (m_i m + 1)%N; m_S := S'; m_out := [];
                  m_done := is_panic_ev e (* the modelled process is dead; the oracle reports it *) |}
  end.
Definition monitor (c : cfg) (vals : list (nat * val)) (i : N) (S : list state) (evs : list ev) : list (N * N) :=
  m_out (fold_left (mon_step c vals) evs {| m_i := i; m_S := S; m_out := []; m_done := false |}).

Definition mismatch (c : case) : list (N * N) :=
  match tau current_cfg [canon (init (c_n c))] with
  | Some S0 => monitor current_cfg (c_vals c) 0%N S0 (c_evs c)
  | None => [(0%N, code_mismatch)]
  end.

(* ---------- the oracle: C20 on the log itself ---------- *)
Record ost := { o_size : nat; o_target : option nat; o_started : list nat; o_res : list (nat * res); o_called : list nat }.
(* the answers that say "the pool executed it" *)
Definition executed_res (r : res) : bool := match r with RGot _ | REww _ O => true | _ => false end.
Definition find_res (t : nat) (l : list (nat * res)) : option res :=
  match find (fun e => Nat.eqb (fst e) t) l with Some e => Some (snd e) | None => None end.
Definition find_counts (t : nat) (l : list (nat * (nat * nat))) : option (nat * nat) :=
  match find (fun e => Nat.eqb (fst e) t) l with Some e => Some (snd e) | None => None end.

(* the execution counts of one task against its answer: accepted by the pool => exactly one execution, on a
   worker; refused / told "not executed" => none by the pool, and exactly one in the caller for ExecuteWithWorker
   (none for Submit / SubmitWait, whose caller is the driver); never more than one overall *)
Definition counts_ok (k : case) (o_started : list nat) (o_res : list (nat * res)) (t : nat) : bool :=
  match find_counts t (c_counts k), find_res t o_res with
  | Some (p, d), Some r =>
      Nat.eqb p (if existsb (Nat.eqb t) o_started then 1 else 0) && (p + d <=? 1) &&
      match r with
      | RGot _ | REww _ O => Nat.eqb p 1 && Nat.eqb d 0
      | REww _ (S _) => Nat.eqb p 0 && Nat.eqb d 1
      | RNotExec | RRejected | RFalse => Nat.eqb p 0 && Nat.eqb d 0
      | RPanic => false
      end
  | _, _ => false
  end.

Definition ostep (k : case) (o : ost) (e : ev) : option ost :=
  match e with
  | ECall t => if mem_nat t (o_called o) then None
               else Some {| o_size := o_size o; o_target := o_target o; o_started := o_started o; o_res := o_res o; o_called := t :: o_called o |}
  | ERzCall n => Some {| o_size := o_size o; o_target := Some (Nat.max n 1); o_started := o_started o; o_res := o_res o; o_called := o_called o |}
  | ERzRet => Some {| o_size := match o_target o with Some n => n | None => o_size o end; o_target := None;
                      o_started := o_started o; o_res := o_res o; o_called := o_called o |}
  | EStart t b =>
      let bound := match o_target o with Some n => Nat.max (o_size o) n | None => o_size o end in
      (* bounded concurrency; at most once; not both executed by the pool and reported as not executed *)
      if (b <=? bound) && negb (mem_nat t (o_started o)) &&
         match find_res t (o_res o) with Some r => executed_res r | None => true end
      then Some {| o_size := o_size o; o_target := o_target o; o_started := t :: o_started o; o_res := o_res o; o_called := o_called o |}
      else None
  | ERes t r =>
      let own := own_val (c_vals k) t in
      if negb (mem_nat t (map fst (o_res o))) &&
         match r with
         | RGot v | REww v O => val_eqb v own && mem_nat t (o_started o)   (* its own value (nil included), and it did run *)
         | REww v (S d) => Nat.eqb d 0 && val_eqb v own && negb (mem_nat t (o_started o))
                                                      (* ran in the caller: once, with its own value, and not in the pool *)
         | RNotExec | RRejected | RFalse => negb (mem_nat t (o_started o))
         | RPanic => false                                                  (* crash *)
         end
      then Some {| o_size := o_size o; o_target := o_target o; o_started := o_started o; o_res := (t, r) :: o_res o; o_called := o_called o |}
      else None
  | EQuiesce blk =>
      if match blk with [] => true | _ => false end && forallb (fun t => mem_nat t (map fst (o_res o))) (o_called o) &&
         forallb (counts_ok k (o_started o) (o_res o)) (o_called o)
      then Some o else None
  | _ => Some o
  end.
Fixpoint oracle (k : case) (i : N) (o : ost) (evs : list ev) : list (N * N) :=
  match evs with
  | [] => []
  | e :: r => match ostep k o e with Some o' => oracle k (i + 1)%N o' r | None => [(i, code_specfail)] end
  end.
Definition specfail (c : case) : list (N * N) :=
  oracle c 0%N {| o_size := c_n c; o_target := None; o_started := []; o_res := []; o_called := [] |} (c_evs c).

Definition check (c : case) : list (N * N) := specfail c ++ mismatch c.
Definition run (cs : list case) : result := run_cases check cs.
