(* Corr/C28.v — TCP correspondence for the start paths (C28).
   The Go driver starts a real server through one public start path, connects a conformant ONC RPC client that uses
   RFC 1831 record marking (written against the RFCs, sharing no code with /repo), sends NULL, MOUNT3 MNT of the
   export path and NFS3 GETATTR of the returned handle, and records the bytes that came back for each call.  The
   client delivers its calls in varied TCP segmentations (whole, byte at a time, cut inside the record mark, at the
   mark/payload boundary, inside the RPC header, as multi-fragment records, as pipelined pairs); the expected
   outcome is the same for all of them.
   Here the replies are parsed independently of /repo's codecs:
   (1) mismatch: Model/Framing.v's prediction (Refused / Started RecordMarked / Started Raw) against what happened;
   (2) specfail: on a documented path the server starts and all three replies are well-formed accepted replies with
       the XIDs that were sent (RFC 1831 reply grammar, RFC 1813 MNT3res / GETATTR3res). *)
From Coq Require Import List ZArith NArith Bool String.
From Verif Require Import Gen.Facts Model.Framing Corr.Common.
Import ListNotations.
Open Scope N_scope.

Record exch := mkExch { x_xid : N; x_raw : list N; x_ioerr : bool }.
Record case := mkCase {
  c_path : start_path;
  c_mount : string;            (* path sent in MNT *)
  c_seg : string;              (* how the client cut its calls into TCP pieces / record fragments (informative:
                                  TCP is a byte stream, the expected outcome does not depend on it) *)
  c_unavailable : bool;        (* the environment could not run this path (port 111 taken): nothing is checked *)
  c_started : bool;            (* the start call returned nil *)
  c_null : exch; c_mnt : exch; c_getattr : exch;
  c_extra : list exch }.       (* further NULL calls: the second call of a pipelined pair *)

(* ---- byte-level parsing ---- *)
Definition bytes_ok (l : list N) : bool := forallb (fun b => b <? 256) l.
Definition be32 (l : list N) : option (N * list N) :=
  match l with
  | a :: b :: c :: d :: r => Some (a * 16777216 + b * 65536 + c * 256 + d, r)
  | _ => None
  end.
Fixpoint take {A} (n : nat) (l : list A) : option (list A * list A) :=
  match n, l with
  | O, _ => Some ([], l)
  | S k, x :: r => match take k r with Some (a, b) => Some (x :: a, b) | None => None end
  | S _, [] => None
  end.
(* RFC 1831 section 10: a record is a sequence of fragments, the last one flagged; nothing may follow it *)
Fixpoint unmark (fuel : nat) (l : list N) : option (list N) :=
  match fuel with
  | O => None
  | S k =>
      match be32 l with
      | None => None
      | Some (h, r) =>
          let last := 2147483648 <=? h in
          let n := if last then h - 2147483648 else h in
          match take (N.to_nat n) r with
          | None => None
          | Some (body, rest) =>
              if last then (match rest with [] => Some body | _ => None end)
              else match unmark k rest with Some more => Some (body ++ more) | None => None end
          end
      end
  end.
Definition pad4 (n : N) : N := (n + 3) / 4 * 4.
(* accepted reply with status SUCCESS and the expected xid: returns the procedure results *)
Definition accepted (xid : N) (raw : list N) : option (list N) :=
  if negb (bytes_ok raw) then None else
  match unmark 8 raw with
  | None => None
  | Some p =>
      match be32 p with Some (x, p1) =>
      match be32 p1 with Some (mtype, p2) =>
      match be32 p2 with Some (rstat, p3) =>
      match be32 p3 with Some (vflavor, p4) =>
      match be32 p4 with Some (vlen, p5) =>
        if negb ((x =? xid) && (mtype =? 1) && (rstat =? 0) && (vlen <=? 400)) then None else
        match take (N.to_nat (pad4 vlen)) p5 with
        | Some (_, p6) =>
            match be32 p6 with Some (astat, res) => if astat =? 0 then Some res else None | None => None end
        | None => None
        end
      | None => None end | None => None end | None => None end | None => None end | None => None end
  end.
Definition null_ok (e : exch) : bool :=
  negb (x_ioerr e) && match accepted (x_xid e) (x_raw e) with Some [] => true | _ => false end.
(* MNT3res: status 0, fhandle3 (1..64 bytes, padded), auth flavor list, nothing else *)
Definition mnt_ok (e : exch) : bool :=
  negb (x_ioerr e) &&
  match accepted (x_xid e) (x_raw e) with
  | Some r =>
      match be32 r with Some (st, r1) =>
      match be32 r1 with Some (fhlen, r2) =>
        if negb ((st =? 0) && (0 <? fhlen) && (fhlen <=? 64)) then false else
        match take (N.to_nat (pad4 fhlen)) r2 with
        | Some (_, r3) =>
            match be32 r3 with
            | Some (nfl, r4) => (N.of_nat (List.length r4) =? 4 * nfl) && (0 <? nfl)
            | None => false
            end
        | None => false
        end
      | None => false end | None => false end
  | None => false
  end.
(* GETATTR3res: status 0 + fattr3 (84 bytes) whose type is NF3DIR for the export root *)
Definition getattr_ok (e : exch) : bool :=
  negb (x_ioerr e) &&
  match accepted (x_xid e) (x_raw e) with
  | Some r =>
      match be32 r with Some (st, r1) =>
      match be32 r1 with Some (ftype, _) =>
        (st =? 0) && (N.of_nat (List.length r1) =? 84) && (ftype =? Z.to_N c_NF3DIR)
      | None => false end | None => false end
  | None => false
  end.
Definition all_ok (c : case) : bool :=
  null_ok (c_null c) && mnt_ok (c_mnt c) && getattr_ok (c_getattr c) && forallb null_ok (c_extra c).

Definition mismatch (c : case) : list (N * N) :=
  if c_unavailable c then [] else
  match start (c_path c) with
  | Refused => if c_started c then [(0, code_mismatch)] else []
  | Started RecordMarked => if c_started c && all_ok c then [] else [(0, code_mismatch)]
  | Started Raw =>
      (* a record-marked call is not understood by the raw loop: no well-formed reply comes back *)
      if c_started c && negb (null_ok (c_null c)) then [] else [(0, code_mismatch)]
  end.
Definition specfail (c : case) : list (N * N) :=
  if c_unavailable c then [] else
  if documented (c_path c) then
    (if c_started c then [] else [(0, code_specfail)]) ++
    (if null_ok (c_null c) then [] else [(1, code_specfail)]) ++
    (if mnt_ok (c_mnt c) then [] else [(2, code_specfail)]) ++
    (if getattr_ok (c_getattr c) then [] else [(3, code_specfail)]) ++
    (if forallb null_ok (c_extra c) then [] else [(4, code_specfail)])
  else [].
Definition check (c : case) : list (N * N) := specfail c ++ mismatch c.
Definition run (cs : list case) : result := run_cases check cs.
