(* Corr/C05w.v — C05 at the wire: a handle returned by MNT, LOOKUP, CREATE, MKDIR, SYMLINK or READDIRPLUS
   resolves to the object it names in an immediately following request; the table stays bounded.
   The driver follows every handle-returning reply with GETATTR on the returned handle(s). *)
From Coq Require Import List NArith ZArith Bool.
From Verif Require Import Model.Handles Model.Backend Model.Srv Corr.Common Corr.SrvCase.
Import ListNotations.
Open Scope N_scope.

Definition obs_proj_eqb (a b : obs) : bool :=
  (ob_rpc a =? ob_rpc b) && (ob_status a =? ob_status b) && option_eqb N.eqb (ob_fh a) (ob_fh b) &&
  list_eqb (fun x y => option_eqb N.eqb (de_fh x) (de_fh y)) (ob_entries a) (ob_entries b).
Definition mismatch (c : case) : list (N * N) :=
  first_only (walk_case (fun i _ s' o x =>
     if negb (obs_proj_eqb o (i_obs x)) then [(i, code_mismatch)]
     else if negb (count (hm s') =? i_nh x) then [(i, code_mismatch)]
     else []) 0 (init_of c) (c_steps c)).

Definition emax (mx : Z) : N := if (mx <=? 0)%Z then 100000 else Z.to_N mx.
(* state threaded by hand: the handles returned by the previous step with the paths they name *)
(* pending: (handle, path it names, is_last_of_its_reply) for the handles returned by the latest
   handle-returning reply; GETATTRs do not allocate, so the table is unchanged while they are probed *)
Fixpoint walk (mx : Z) (i : N) (g : ghost) (pending : list (N * path * bool)) (l : list istep) : list (N * N) :=
  match l with
  | [] => []
  | x :: r =>
    let o := i_obs x in
    let g' := ghost_update g x in
    let bad_bound := emax mx <? i_nh x in
    let verdict :=
      match hs_req (i_step x) with
      | RGetattr h =>
          match find (fun e => fst (fst e) =? h) pending with
          | Some (_, p, last) =>
              let dead := (ob_status o =? NFSERR_STALE) ||
                          ((ob_status o =? 0) && match nth 0%nat (ob_attrs o) None with Some a => negb (fa_fileid a =? fileid_of p) | None => true end) in
              if dead then (if last then [(i, code_specfail)] else [(i, 101)]) else []
          | None => []
          end
      | _ => []
      end in
    let is_get := match hs_req (i_step x) with RGetattr _ => true | _ => false end in
    let newly :=
      if is_get then pending
      else if (ob_rpc o =? 0) && (ob_status o =? 0) then
        match ob_fh o, hs_req (i_step x) with
        | Some fh, _ => match g_get g' fh with Some p => [(fh, p, true)] | None => [] end
        | None, RReaddirplus h _ _ _ =>
            match g_get g h with
            | Some d =>
                let es := ob_entries o in
                let n := length es in
                map (fun ke => (match de_fh (snd ke) with Some fh => fh | None => 0 end, d ++ [de_name (snd ke)],
                                Nat.eqb (S (fst ke)) n))
                    (combine (seq 0 n) es)
            | None => []
            end
        | None, _ => []
        end
      else [] in
    (if bad_bound then [(i, code_specfail)] else verdict) ++ walk mx (i + 1) g' newly r
  end.
Definition specfail (c : case) : list (N * N) := walk (c_maxh c) 0 [] [] (c_steps c).
Definition check (c : case) : list (N * N) := specfail c ++ mismatch c.
Definition run (cs : list case) : result := run_cases check cs.
