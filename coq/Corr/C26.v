(* Corr/C26.v — directory listings page completely and respect the client's size limit.
   (1) model projection: status, entries (fileid, name, cookie), eof, and the encoded result length bound
       implied by the model's paging arithmetic;
   (2) on the implementation's observations: following the returned cookies from 0 yields exactly the
       directory's entries (backend order), each once, with fileid = FNV-1a-64(path), ending with eof; the
       encoded READDIR3resok / READDIRPLUS3resok is at most count / maxcount bytes; a call with entries left
       returns at least one.  Known finding k=1: when count is smaller than the smallest reply holding one
       entry the server sends that one entry anyway instead of NFS3ERR_TOOSMALL (the suite demands OK). *)
From Coq Require Import List NArith ZArith Bool.
From Verif Require Import Model.Handles Model.Backend Model.Srv Corr.Common Corr.SrvCase.
Import ListNotations.
Open Scope N_scope.

Definition obs_proj_eqb (a b : obs) : bool :=
  (ob_rpc a =? ob_rpc b) && (ob_status a =? ob_status b) &&
  list_eqb (fun x y => (de_fileid x =? de_fileid y) && bytes_eqb (de_name x) (de_name y) && (de_cookie x =? de_cookie y))
           (ob_entries a) (ob_entries b) && Bool.eqb (ob_eof a) (ob_eof b).
Definition mismatch (c : case) : list (N * N) := generic_mismatch obs_proj_eqb false false c.

(* names of the children of directory p in a dump, in the backend's (bytewise) order *)
Fixpoint ins (n : name) (l : list name) : list name :=
  match l with [] => [n] | m :: r => if bytes_leb n m then n :: l else m :: ins n r end.
Definition listing (d : list dump_entry) (p : path) : list name :=
  fold_right ins [] (map (fun e : dump_entry => last (fst e) []) (filter (fun e : dump_entry => is_child p (fst e)) d)).

(* traversal state: handle, procedure flavour, names and fileids collected so far, next expected cookie *)
Record trav := { t_h : N; t_plus : bool; t_names : list name; t_ids : list N; t_next : N }.

Fixpoint walk (i : N) (g : ghost) (tr : option trav) (l : list istep) : list (N * N) :=
  match l with
  | [] => []
  | x :: r =>
    let o := i_obs x in
    let g' := ghost_update g x in
    let dirstep :=
      match hs_req (i_step x) with
      | RReaddir h ck cnt => Some (h, false, ck, cnt)
      | RReaddirplus h ck _ mc => Some (h, true, ck, mc)
      | _ => None
      end in
    match dirstep with
    | None => walk (i + 1) g' None r                      (* any other request ends a traversal *)
    | Some (h, plus, ck, limit) =>
      if negb ((ob_rpc o =? 0) && (ob_status o =? 0)) then walk (i + 1) g' None r else
      let ents := ob_entries o in
      let n := length ents in
      (* size limit *)
      let size_codes :=
        if i_reslen x <=? limit then []
        else if Nat.leb n 1 then [(i, 101)]              (* known finding k=1: below the one-entry minimum *)
        else [(i, code_specfail)] in
      (* progress *)
      let prog_codes := if Nat.eqb n 0 && negb (ob_eof o) then [(i, code_specfail)] else [] in
      (* traversal bookkeeping *)
      let cur := match tr with
                 | Some t => if (t_h t =? h) && Bool.eqb (t_plus t) plus && (t_next t =? ck) then Some t
                             else if ck =? 0 then Some {| t_h := h; t_plus := plus; t_names := []; t_ids := []; t_next := 0 |} else None
                 | None => if ck =? 0 then Some {| t_h := h; t_plus := plus; t_names := []; t_ids := []; t_next := 0 |} else None
                 end in
      match cur with
      | None => size_codes ++ prog_codes ++ walk (i + 1) g' None r
      | Some t =>
        let t' := {| t_h := h; t_plus := plus; t_names := t_names t ++ map de_name ents; t_ids := t_ids t ++ map de_fileid ents;
                     t_next := match rev ents with e :: _ => de_cookie e | [] => t_next t end |} in
        let done_codes :=
          if ob_eof o then
            match g_get g h with
            | Some p =>
                let want := listing (i_dump x) p in
                if list_eqb bytes_eqb (t_names t') want &&
                   list_eqb N.eqb (t_ids t') (map (fun nm => fileid_of (p ++ [nm])) want) then [] else [(i, code_specfail)]
            | None => []
            end
          else [] in
        size_codes ++ prog_codes ++ done_codes ++ walk (i + 1) g' (if ob_eof o then None else Some t') r
      end
    end
  end.
Definition specfail (c : case) : list (N * N) := walk 0 [] None (c_steps c).
Definition check (c : case) : list (N * N) := specfail c ++ mismatch c.
Definition run (cs : list case) : result := run_cases check cs.
