(* Corr/C18h.v — the rate limiters exercised THROUGH the server (stream C18h of drive_ratelimit).

   A case is a real AbsfsNFS with EnableRateLimiting and a RateLimiterConfig, driven on the virtual clock by NFS /
   MOUNT calls from several client addresses:
     h_tcp = false : each call goes through NFSProcedureHandler.HandleCall (only the per-operation limiters apply:
                     the request limiter sits in the connection loop);
     h_tcp = true  : each call is sent over a loopback TCP connection of the exported server (connection loop:
                     RateLimiter.AllowRequest for every call, then the procedure handler's AllowOperation).
   A call is (clock advance ns, address, connection, procedure, count); the cookie of READDIR(PLUS) and the other
   arguments vary in the driver but are NOT part of the case: no limiter may depend on them.
   Observation per call: 0 = the limiters let it through (whatever the procedure then answered),
                         1 = refused by the request limiter (MSG_DENIED),
                         2 = refused by an operation limiter (NFS3ERR_DELAY 10013 / MNT 10006).
   The case is translated into the limiter calls it stands for (Req ip conn, then Op ip op when the request limiter
   admitted it and the procedure belongs to a limited class) and handed to the oracles and the model comparison of
   Corr/RateLimitCorr.v:
     - spec translation: the operation classes as the property states them (READDIR and READDIRPLUS -> readdir,
       READ / WRITE of more than 64 KiB -> large read / large write, MNT -> mount); used by the oracles
       bound / within / isolate (code 2), which look at the implementation's observations only;
     - model translation: the classes as astfacts reads them off the call sites (Facts.rl_operation_sites);
       used by the model comparison (code 1). *)
From Coq Require Import List QArith ZArith NArith Bool String.
From Verif Require Import Gen.Facts Model.TokenBucket Model.RateLimit Corr.Common Corr.RateLimitCorr.
Import ListNotations.
Open Scope Z_scope.

Inductive hproc : Set := PPlain | PReaddir | PReaddirplus | PRead | PWrite | PMnt.
(* dt, address, connection, procedure, count *)
Definition hcall := (Z * N * N * hproc * Z)%type.
Record case := { h_cfg : config; h_tcp : bool; h_strict : bool; h_calls : list hcall;
                 h_obs : list N; h_obs_nc : list N }.

(* the property's classes *)
Definition op_spec (p : hproc) (count : Z) : option optype :=
  match p with
  | PReaddir | PReaddirplus => Some Readdir
  | PRead => if 65536 <? count then Some ReadLarge else None
  | PWrite => if 65536 <? count then Some WriteLarge else None
  | PMnt => Some Mount
  | PPlain => None
  end.

(* the classes of the source: handler function -> (operation type, `count > threshold` guard or 0) *)
Definition site_of (p : hproc) : option string :=
  match p with
  | PReaddir => Some "handleReaddir"%string | PReaddirplus => Some "handleReaddirplus"%string
  | PRead => Some "handleRead"%string | PWrite => Some "handleWrite"%string
  | PMnt => Some "handleMountCall"%string | PPlain => None
  end.
Definition optype_of_name (s : string) : option optype :=
  if String.eqb s "read_large" then Some ReadLarge
  else if String.eqb s "write_large" then Some WriteLarge
  else if String.eqb s "readdir" then Some Readdir
  else if String.eqb s "mount" then Some Mount
  else None.
Definition op_facts (p : hproc) (count : Z) : option optype :=
  match site_of p with
  | None => None
  | Some f =>
      match List.find (fun s => String.eqb (fst (fst s)) f) rl_operation_sites with
      | Some (_, name, thr) => if (thr =? 0) || (thr <? count) then optype_of_name name else None
      | None => None
      end
  end.

(* the limiter calls a server call stands for, with their outcomes; a refusal by the request limiter means the
   procedure handler never ran *)
Fixpoint translate (opf : hproc -> Z -> option optype) (tcp : bool) (carry : Z) (calls : list hcall) (obs : list N)
  : list (Z * event) * list bool :=
  match calls, obs with
  | (dt, ip, cn, p, cnt) :: r, o :: os =>
      let d := carry + dt in
      let opev := match opf p cnt with Some op => [((if tcp then 0 else d), Op ip op, negb (o =? 2)%N)] | None => [] end in
      let evs := if tcp then ((d, Req ip cn, negb (o =? 1)%N) :: (if (o =? 1)%N then [] else opev)) else opev in
      let carry' := match evs with [] => d | _ => 0 end in
      let '(es, bs) := translate opf tcp carry' r os in
      (map (fun x => (fst (fst x), snd (fst x))) evs ++ es, map snd evs ++ bs)
  | _, _ => ([], [])
  end.

Definition to_case (opf : hproc -> Z -> option optype) (c : case) : RateLimitCorr.case :=
  let '(es, bs) := translate opf (h_tcp c) 0 (h_calls c) (h_obs c) in
  {| c_target := TFull (h_cfg c); c_strict := h_strict c; c_evs := es; c_obs := bs; c_obs_nc := bs |}.

(* observations that no limiter explains: a refusal of a call of no limited class, a request-level refusal without
   a connection loop, an unknown code *)
Fixpoint shape_fail (tcp : bool) (idx : N) (calls : list hcall) (obs : list N) : list (N * N) :=
  match calls, obs with
  | (_, _, _, p, cnt) :: r, o :: os =>
      let ok := ((o =? 0) || ((o =? 1) && tcp) || ((o =? 2) && match op_spec p cnt with Some _ => true | None => false end))%N in
      if ok then shape_fail tcp (idx + 1)%N r os else [(idx, code_specfail)]
  | [], [] => []
  | _, _ => [(idx, code_specfail)]
  end.

(* cleanup invisible: the same calls on a second server whose cleanup interval never elapses *)
Definition hcleanup_fail (c : case) : list (N * N) :=
  match first_diff N.eqb 0%N (h_obs c) (h_obs_nc c) with
  | Some i => [(i, code_specfail)]
  | None => []
  end.

(* the indices reported by the reused walks count limiter calls, not server calls: map them back *)
Fixpoint call_index (opf : hproc -> Z -> option optype) (tcp : bool) (calls : list hcall) (obs : list N)
         (k : N) (j : N) : N :=
  match calls, obs with
  | (_, _, _, p, cnt) :: r, o :: os =>
      let nop := match opf p cnt with Some _ => 1%N | None => 0%N end in
      let n := if tcp then (if (o =? 1)%N then 1%N else 1 + nop)%N else nop in
      if (k <? n)%N then j else call_index opf tcp r os (k - n)%N (j + 1)%N
  | _, _ => j
  end.
Definition remap (opf : hproc -> Z -> option optype) (c : case) (l : list (N * N)) : list (N * N) :=
  map (fun x => (call_index opf (h_tcp c) (h_calls c) (h_obs c) (fst x) 0%N, snd x)) l.

Definition check (c : case) : list (N * N) :=
  let s := to_case op_spec c in
  shape_fail (h_tcp c) 0%N (h_calls c) (h_obs c) ++
  remap op_spec c (bound_fail s ++ within_fail s ++ isolate_fail s) ++
  hcleanup_fail c ++
  remap op_facts c (mismatch (to_case op_facts c)).
Definition run (cs : list case) : result := run_cases check cs.
