(* Corr/C23.v — READ and WRITE within the advertised FSINFO limits are served.
   A case = one TransferSize in force (set at construction or at runtime through UpdateTuningOptions), the numeric
   fields of the FSINFO reply, and READ / WRITE probes at chosen counts on a sparse regular file, made through the
   procedure handlers (nfsx.Env) and over a real loopback TCP connection with record marking to a server started
   with the public API.  Payloads are not part of the term: a probe carries kind, transport, count, offset, file
   size before and after, length of the call record sent, RPC-level code, status, returned count, and whether the
   connection still answered a NULL call afterwards.  The TCP part may continue with PHASES: TransferSize is changed
   at runtime (raised and lowered) while one connection stays open; after every change FSINFO, WRITE(wtmax),
   WRITE(wtpref), READ(rtmax) are made on that old connection (p_old = true: accepted before the change) and on a fresh
   one.  Every phase is compared and judged exactly like the case itself, with the TransferSize then in force.
   TCP calls are sent with varied fragmentation (one fragment; 64 KiB, 8 KiB, 1 KiB, 512-byte, 100-byte and smaller
   fragments; empty non-final fragments): the expected outcome does not depend on it, and a case with a TCP part must
   contain a WRITE of exactly wtmax bytes sent in fragments of at most 1 KiB.

   (1) mismatch (code 1): the implementation against the width-faithful model Model/Fsinfo32.v (FSINFO numbers, the
       WRITE count check, READ's clamp, "a call record above the record limit is dropped with the connection"); for
       TransferSize < 2^32 also against Model/Srv.v's fsinfo_nums and its [tsize <? cnt] check.
   (2) specfail (code 2): the property's statement on the implementation's own numbers: preferred sizes and
       multiples <= maxima; a WRITE call of wtmax bytes with the largest admitted credential and verifier fits the
       record limit; every WRITE probe with count <= the advertised wtmax is accepted (OK, 1 <= stored <= count, the file
       is at least offset + stored bytes long, the connection survives); every READ probe with 1 <= count <= rtmax
       before EOF returns at least one byte; probes at exactly wtmax and rtmax are present (advertised <= accepted
       is then observed, not assumed). *)
From Coq Require Import List NArith ZArith Bool.
From Verif Require Import Gen.Facts Model.Handles Model.Backend Model.Srv Model.Fsinfo32 Corr.Common.
Import ListNotations.
Open Scope N_scope.

Inductive pkind := PRead | PWrite.
Record probe := mkProbe {
  p_kind : pkind; p_tcp : bool; p_cnt : N; p_off : N; p_size : N;
  p_reclen : N;              (* bytes of the call record sent (TCP), 0 through the handler *)
  p_rpc : N;                 (* 0 accepted + success; 999 no reply (connection lost); 1000 + accept_stat; 2000 denied; 3000 handler error *)
  p_status : N; p_count : N;
  p_size2 : N;               (* file size afterwards *)
  p_alive : bool;            (* the connection answered a NULL call afterwards (handler level: true) *)
  p_old : bool;              (* made on a connection accepted before the last runtime change of TransferSize *)
  p_frag : N;                (* the call record was sent in fragments of at most this many bytes (0 = one fragment) ... *)
  p_nfrag : N }.             (* ... this many of them, empty non-final ones included.  The model does not look at these:
                                fragment markers are framing, the record limit applies to the reassembled payload p_reclen *)
(* after one more runtime change: the value now in force, the six numbers as read on the old and on a fresh
   connection, the probes *)
Record phase := mkPhase { ph_ts : N; ph_nums_old : list N; ph_nums_new : list N; ph_probes : list probe }.
Record case := mkCase {
  c_ts : N;                  (* TransferSize in force *)
  c_runtime : bool;          (* set through UpdateTuningOptions after construction with another value *)
  c_nums : list N;           (* rtmax rtpref rtmult wtmax wtpref wtmult as decoded from the reply *)
  c_all : list N;            (* every numeric field before the properties word: the six, dtpref, maxfilesize, time_delta *)
  c_tcp_nums : list N;       (* the six numbers as received over TCP ([] when the case has no TCP part) *)
  c_probes : list probe;
  c_phases : list phase }.

Definition pkind_eqb (a b : pkind) : bool := match a, b with PRead, PRead | PWrite, PWrite => true | _, _ => false end.
Definition nth0 (l : list N) (k : nat) : N := nth k l 0.

(* ---------- (1) model ---------- *)
Definition srv_cfg (ts : N) : cfg :=
  {| tsize := ts; ro := false; maxfile := 0; attr_ttl := 5; attr_cap := 10; neg_on := true; neg_ttl := 5;
     dir_on := true; dir_ttl := 5; dir_cap := 10; dir_maxsize := 10 |}.
Definition srv_nums (ts : N) : list N := fsinfo_nums (srv_init (srv_cfg ts) 0 0).

(* expected (rpc, status, count, size afterwards, alive) *)
Definition expect (ts : N) (p : probe) : N * N * N * N * bool :=
  if p_tcp p && negb (record_accepted (p_reclen p)) then (999, 0, 0, p_size p, false)
  else match p_kind p with
       | PWrite =>
           if go_write_refused ts (p_cnt p) then (0, Z.to_N f_write_bound_status, 0, p_size p, true)
           else (0, 0, p_cnt p, (if p_cnt p =? 0 then p_size p else N.max (p_size p) (p_off p + p_cnt p)), true)
       | PRead => (0, 0, go_read_count ts (p_cnt p) (p_size p) (p_off p), p_size p, true)
       end.
Definition probe_matches (ts : N) (p : probe) : bool :=
  let '(rpc, st_, cnt, sz, alive) := expect ts p in
  (p_rpc p =? rpc) && (p_status p =? st_) && (p_count p =? cnt) && (p_size2 p =? sz) && Bool.eqb (p_alive p) alive &&
  (* below 2^32 Model/Srv.v's count check says the same *)
  (match p_kind p with
   | PWrite => if ts <? two32 then Bool.eqb (tsize (srv_cfg ts) <? p_cnt p) (go_write_refused ts (p_cnt p)) else true
   | PRead => true end).

Definition probes_mismatch (base ts : N) (l : list probe) : list (N * N) :=
  flat_map (fun ip => if probe_matches ts (snd ip) then [] else [(base + fst ip + 1, code_mismatch)]) (index_from 0 l).
Definition nums_match (ts : N) (l : list N) : bool :=
  match l with [] => true | _ => list_eqb N.eqb l (go_fsinfo_nums ts) && (if ts <? two32 then list_eqb N.eqb l (srv_nums ts) else true) end.
(* phase k reports its steps as 1000 * (k + 1) + probe index (0 = the FSINFO numbers) *)
Definition phases_mismatch (l : list phase) : list (N * N) :=
  flat_map (fun ip : N * phase =>
    let base := 1000 * (fst ip + 1) in let ph := snd ip in
    (if nums_match (ph_ts ph) (ph_nums_old ph) && nums_match (ph_ts ph) (ph_nums_new ph) then [] else [(base, code_mismatch)]) ++
    probes_mismatch base (ph_ts ph) (ph_probes ph)) (index_from 0 l).
Definition mismatch (c : case) : list (N * N) :=
  let ts := c_ts c in
  (if list_eqb N.eqb (c_nums c) (go_fsinfo_nums ts) && list_eqb N.eqb (c_all c) (go_fsinfo_all ts) &&
      (match c_tcp_nums c with [] => true | l => list_eqb N.eqb l (go_fsinfo_nums ts) end) &&
      (if ts <? two32 then list_eqb N.eqb (c_nums c) (srv_nums ts) else true)
   then [] else [(0, code_mismatch)]) ++
  probes_mismatch 0 ts (c_probes c) ++ phases_mismatch (c_phases c).

(* ---------- (2) the property on the implementation's own numbers ---------- *)
Definition nums_ok (nums all : list N) : bool :=
  let rtmax := nth0 nums 0 in let wtmax := nth0 nums 3 in
  (N.of_nat (length nums) =? 6) &&
  (nth0 nums 1 <=? rtmax) && (nth0 nums 2 <=? rtmax) && (nth0 nums 4 <=? wtmax) && (nth0 nums 5 <=? wtmax) &&
  (* the largest advertised WRITE, with the largest credential and verifier the decoder admits, fits one record;
     so does the reply to the largest advertised READ *)
  record_accepted (write_record_len (Z.to_N f_cred_limit) (Z.to_N f_verf_limit) wtmax) &&
  record_accepted (read_reply_len (Z.to_N f_verf_limit) rtmax) &&
  (* dtpref (a READDIR count) is within the record limit as well *)
  (nth0 all 6 <=? record_limit).
Definition probe_ok (nums : list N) (p : probe) : bool :=
  let rtmax := nth0 nums 0 in let wtmax := nth0 nums 3 in
  match p_kind p with
  | PWrite =>
      if p_cnt p <=? wtmax then
        (p_rpc p =? 0) && (p_status p =? 0) && (p_count p <=? p_cnt p) && ((p_cnt p =? 0) || (1 <=? p_count p)) &&
        ((p_count p =? 0) || (p_off p + p_count p <=? p_size2 p)) && p_alive p
      else true
  | PRead =>
      if (1 <=? p_cnt p) && (p_cnt p <=? rtmax) && (p_off p <? p_size p) then
        (p_rpc p =? 0) && (p_status p =? 0) && (1 <=? p_count p) && (p_count p <=? p_cnt p) && p_alive p
      else true
  end.
(* the maxima themselves are probed (when positive) on every transport the case uses *)
Definition has_probe (k : pkind) (tcp : bool) (cnt : N) (l : list probe) : bool :=
  existsb (fun p => pkind_eqb (p_kind p) k && Bool.eqb (p_tcp p) tcp && (p_cnt p =? cnt)) l.
Definition maxima_probed (c : case) : bool :=
  let rtmax := nth0 (c_nums c) 0 in let wtmax := nth0 (c_nums c) 3 in
  let uses_tcp := existsb p_tcp (c_probes c) in
  ((rtmax =? 0) || (has_probe PRead false rtmax (c_probes c) && (negb uses_tcp || has_probe PRead true rtmax (c_probes c)))) &&
  ((wtmax =? 0) || (has_probe PWrite false wtmax (c_probes c) && (negb uses_tcp || has_probe PWrite true wtmax (c_probes c)))) &&
  (* ... and over TCP also in small fragments *)
  ((wtmax =? 0) || negb uses_tcp ||
   existsb (fun p => pkind_eqb (p_kind p) PWrite && p_tcp p && (p_cnt p =? wtmax) && (1 <=? p_frag p) && (p_frag p <=? 1024) &&
                     (p_reclen p <=? p_frag p * p_nfrag p)) (c_probes c)).

Definition probes_specfail (base : N) (nums : list N) (l : list probe) : list (N * N) :=
  flat_map (fun ip => if probe_ok nums (snd ip) then [] else [(base + fst ip + 1, code_specfail)]) (index_from 0 l).
(* a phase: both connections read the same numbers, they satisfy nums_ok, the maxima are probed on the old and
   on the fresh connection, and every probe is judged against the numbers advertised in this phase *)
Definition has_probe_on (k : pkind) (old : bool) (cnt : N) (l : list probe) : bool :=
  existsb (fun p => pkind_eqb (p_kind p) k && Bool.eqb (p_old p) old && (p_cnt p =? cnt)) l.
Definition phase_specfail (base : N) (ph : phase) : list (N * N) :=
  let nums := ph_nums_new ph in
  let rtmax := nth0 nums 0 in let wtmax := nth0 nums 3 in
  (if nums_ok nums [0; 0; 0; 0; 0; 0; 0] &&
      (match ph_nums_old ph with [] => true | l => list_eqb N.eqb l nums end) &&
      ((wtmax =? 0) || (has_probe_on PWrite false wtmax (ph_probes ph) &&
                        (match ph_nums_old ph with [] => true | _ => has_probe_on PWrite true wtmax (ph_probes ph) end))) &&
      ((rtmax =? 0) || has_probe_on PRead false rtmax (ph_probes ph))
   then [] else [(base, code_specfail)]) ++
  probes_specfail base nums (ph_probes ph).
Definition phases_specfail (l : list phase) : list (N * N) :=
  flat_map (fun ip : N * phase => phase_specfail (1000 * (fst ip + 1)) (snd ip)) (index_from 0 l).
Definition specfail (c : case) : list (N * N) :=
  (if nums_ok (c_nums c) (c_all c) && maxima_probed c &&
      (match c_tcp_nums c with [] => true | l => list_eqb N.eqb l (c_nums c) end)
   then [] else [(0, code_specfail)]) ++
  probes_specfail 0 (c_nums c) (c_probes c) ++ phases_specfail (c_phases c).

Definition check (c : case) : list (N * N) := specfail c ++ mismatch c.
Definition run (cs : list case) : result := run_cases check cs.
