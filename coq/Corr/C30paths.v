(* Corr/C30paths.v — correspondence + spec oracle for C30 when certificate / key / CA file PATHS are reused
   (stream "C30paths").  Within one driver process a case keeps ONE set of paths (server.crt, server.key, ca.crt) and
   runs a history over it: the files are overwritten with other contents (another CA, another server certificate),
   servers are started (a new AbsfsNFS + Export each time, ClientAuth 0..4, TLS 1.2..1.3) in two slots - so two
   configurations built at different times from the same paths can be alive together -, stopped, rotated with the
   documented step (ReloadCertificates on GetExportOptions().TLS), and probed by real clients with no certificate, a
   self-signed one and one signed by each CA that ever was in the file, at TLS 1.2 and at TLS 1.3.
   Expected behaviour (Model/Tls.v's handshake rule, instantiated per listener): a listener enforces what its
   configuration said when it was built - the CA that was in the file THEN - and presents the server certificate that
   was in the files at its last build / ReloadCertificates; nothing that happened to another listener or to the files
   before it was built matters.
   (1) mismatch: every start / reload verdict, every handshake outcome and presented leaf against that expectation;
   (2) specfail, the property's own clauses on the observations: a completed handshake is >= TLS 1.2 and the version the
       client offered; under RequireAndVerifyClientCert only clients signed by the CA configured at build time complete;
       under VerifyClientCertIfGiven only those and certificate-less clients; after the documented rotation step the
       new leaf is presented. *)
From Coq Require Import List ZArith NArith Bool String.
From Verif Require Import Gen.Facts Model.Tls Corr.Common.
Import ListNotations.
Open Scope N_scope.

(* client kinds: 0 no certificate, 1 self-signed, 10+k signed by CA k *)
Record attempt := mkAtt { a_client : N; a_version : Z; a_result : option Z }.
Inductive pstep :=
| PWriteCA (k : N)                       (* ca.crt := CA k *)
| PWriteCert (c : N)                     (* server.crt / server.key := leaf c *)
| PStart (slot : N) (auth : Z) (ok : bool)     (* New + Export with the shared paths; observed: came up *)
| PStop (slot : N)
| PReload (slot : N) (ok : bool)         (* GetExportOptions().TLS.ReloadCertificates(); observed: returned nil *)
| PProbe (slot : N) (leaf : option N) (atts : list attempt).
Record case := mkCase { c_steps : list pstep }.

Record lst := mkL { l_auth : Z; l_ca : option N; l_leaf : N }.       (* a live listener *)
Record pstate := mkP { p_ca : option N; p_cert : option N; p_slots : list (N * lst) }.

Fixpoint slot_get (s : N) (l : list (N * lst)) : option lst :=
  match l with [] => None | (k, v) :: r => if k =? s then Some v else slot_get s r end.
Definition slot_del (s : N) (l : list (N * lst)) := filter (fun kv => negb (fst kv =? s)) l.

(* the settings value of a listener started now *)
Definition settings_now (st : pstate) (auth : Z) : tls_settings :=
  mkTls true true true
        (match p_cert st with Some _ => true | None => false end) (match p_cert st with Some _ => true | None => false end)
        (match p_cert st with Some _ => true | None => false end)
        true (match p_ca st with Some _ => true | None => false end) (match p_ca st with Some _ => true | None => false end)
        auth TLS12 TLS13 true.
Definition settings_of (l : lst) : tls_settings :=
  mkTls true true true true true true true true true (l_auth l) TLS12 TLS13 true.
Definition kind_of (l : lst) (client : N) : client_cert :=
  if client =? 0 then NoCert else if client =? 1 then SelfSigned
  else match l_ca l with
       | Some k => if client =? 10 + k then CASigned else OtherCASigned
       | None => OtherCASigned
       end.
Definition expected (l : lst) (a : attempt) : option Z :=
  handshake TLS12 (settings_of l) (mkClient (a_version a) (a_version a) (kind_of l (a_client a))).

(* the property's clauses on one observed attempt *)
Definition attempt_spec_ok (l : lst) (a : attempt) : bool :=
  match a_result a with
  | None => true
  | Some v =>
      ((TLS12 <=? v)%Z && (v =? a_version a)%Z &&
       (if (l_auth l =? 4)%Z then is_ca_signed (kind_of l (a_client a)) else true) &&
       (if (l_auth l =? 3)%Z then (negb (has_cert (kind_of l (a_client a))) || is_ca_signed (kind_of l (a_client a))) else true) &&
       (if (l_auth l =? 2)%Z then has_cert (kind_of l (a_client a)) else true))%bool
  end.

Fixpoint walk (i : N) (st : pstate) (steps : list pstep) : list (N * N) :=
  match steps with
  | [] => []
  | s :: r =>
      match s with
      | PWriteCA k => walk (i + 1) (mkP (Some k) (p_cert st) (p_slots st)) r
      | PWriteCert c => walk (i + 1) (mkP (p_ca st) (Some c) (p_slots st)) r
      | PStart slot auth ok =>
          let t := settings_now st auth in
          let up := match build_config t with Some _ => true | None => false end in
          (if Bool.eqb up ok then [] else [(i, code_mismatch)]) ++
          (* a configuration Validate rejects must not listen *)
          (if (ok && match validate t with Some _ => true | None => false end)%bool then [(i, code_specfail)] else []) ++
          walk (i + 1)
               (if ok then mkP (p_ca st) (p_cert st)
                               ((slot, mkL auth (if (cfg_tls_ca_auth_threshold <=? auth)%Z then p_ca st else None)
                                           (match p_cert st with Some c => c | None => 0 end)) :: slot_del slot (p_slots st))
                else st) r
      | PStop slot => walk (i + 1) (mkP (p_ca st) (p_cert st) (slot_del slot (p_slots st))) r
      | PReload slot ok =>
          match slot_get slot (p_slots st), p_cert st with
          | Some l, Some c =>
              (if ok then [] else [(i, code_mismatch)]) ++
              walk (i + 1) (if ok then mkP (p_ca st) (p_cert st) ((slot, mkL (l_auth l) (l_ca l) c) :: slot_del slot (p_slots st)) else st) r
          | _, _ => (if ok then [(i, code_mismatch)] else []) ++ walk (i + 1) st r
          end
      | PProbe slot leaf atts =>
          match slot_get slot (p_slots st) with
          | None => (* nothing listens in this slot: the driver does not probe it *) [(i, code_mismatch)]
          | Some l =>
              let spec_bad := negb (forallb (attempt_spec_ok l) atts) ||
                              (* the leaf of the last build / documented rotation step is presented *)
                              negb (option_eqb N.eqb leaf (Some (l_leaf l))) in
              let model_bad := negb (forallb (fun a => option_eqb Z.eqb (expected l a) (a_result a)) atts) in
              (if spec_bad then [(i, code_specfail)] else if model_bad then [(i, code_mismatch)] else []) ++
              walk (i + 1) st r
          end
      end
  end.

Definition check (c : case) : list (N * N) := walk 0 (mkP None None []) (c_steps c).
Definition run (cs : list case) : result := run_cases check cs.
