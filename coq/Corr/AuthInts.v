(* Corr/AuthInts.v — case data of the auth group (C09, C10, C12) is written with primitive 63-bit
   integer literals: Coq elaborates a decimal N literal in time proportional to its bit length
   (a 32-bit id costs ~0.6 ms), a primitive literal in ~20 us.  The values are converted to N
   inside the evaluated term; nothing here is used by a theorem. *)
From Coq Require Import List NArith ZArith Uint63.
Import ListNotations.

Definition n_of (i : int) : N := Z.to_N (Uint63.to_Z i).
Definition ns_of (l : list int) : list N := map n_of l.
(* little-endian 32-bit limbs -> N  (for 128-bit addresses) *)
Fixpoint n_of_limbs (l : list int) : N :=
  match l with
  | [] => 0%N
  | x :: r => (n_of x + 4294967296 * n_of_limbs r)%N
  end.
