(* Corr/C27Bytes.v — compact rendering of byte strings in the C27 case files.
   A byte string is written as a chain of one-argument constructors, one per byte
   (X0a (Xff (... E))): no list notation, no implicit arguments, no number notation, so that
   Coq elaborates a case file several times faster than with [10; 255; ...].
   (Mechanical: 256 constructors and the obvious conversion.) *)
From Coq Require Import List NArith.
Import ListNotations.
Open Scope N_scope.
Inductive bs := E
| X00 (r : bs)
| X01 (r : bs)
| X02 (r : bs)
| X03 (r : bs)
| X04 (r : bs)
| X05 (r : bs)
| X06 (r : bs)
| X07 (r : bs)
| X08 (r : bs)
| X09 (r : bs)
| X0a (r : bs)
| X0b (r : bs)
| X0c (r : bs)
| X0d (r : bs)
| X0e (r : bs)
| X0f (r : bs)
| X10 (r : bs)
| X11 (r : bs)
| X12 (r : bs)
| X13 (r : bs)
| X14 (r : bs)
| X15 (r : bs)
| X16 (r : bs)
| X17 (r : bs)
| X18 (r : bs)
| X19 (r : bs)
| X1a (r : bs)
| X1b (r : bs)
| X1c (r : bs)
| X1d (r : bs)
| X1e (r : bs)
| X1f (r : bs)
| X20 (r : bs)
| X21 (r : bs)
| X22 (r : bs)
| X23 (r : bs)
| X24 (r : bs)
| X25 (r : bs)
| X26 (r : bs)
| X27 (r : bs)
| X28 (r : bs)
| X29 (r : bs)
| X2a (r : bs)
| X2b (r : bs)
| X2c (r : bs)
| X2d (r : bs)
| X2e (r : bs)
| X2f (r : bs)
| X30 (r : bs)
| X31 (r : bs)
| X32 (r : bs)
| X33 (r : bs)
| X34 (r : bs)
| X35 (r : bs)
| X36 (r : bs)
| X37 (r : bs)
| X38 (r : bs)
| X39 (r : bs)
| X3a (r : bs)
| X3b (r : bs)
| X3c (r : bs)
| X3d (r : bs)
| X3e (r : bs)
| X3f (r : bs)
| X40 (r : bs)
| X41 (r : bs)
| X42 (r : bs)
| X43 (r : bs)
| X44 (r : bs)
| X45 (r : bs)
| X46 (r : bs)
| X47 (r : bs)
| X48 (r : bs)
| X49 (r : bs)
| X4a (r : bs)
| X4b (r : bs)
| X4c (r : bs)
| X4d (r : bs)
| X4e (r : bs)
| X4f (r : bs)
| X50 (r : bs)
| X51 (r : bs)
| X52 (r : bs)
| X53 (r : bs)
| X54 (r : bs)
| X55 (r : bs)
| X56 (r : bs)
| X57 (r : bs)
| X58 (r : bs)
| X59 (r : bs)
| X5a (r : bs)
| X5b (r : bs)
| X5c (r : bs)
| X5d (r : bs)
| X5e (r : bs)
| X5f (r : bs)
| X60 (r : bs)
| X61 (r : bs)
| X62 (r : bs)
| X63 (r : bs)
| X64 (r : bs)
| X65 (r : bs)
| X66 (r : bs)
| X67 (r : bs)
| X68 (r : bs)
| X69 (r : bs)
| X6a (r : bs)
| X6b (r : bs)
| X6c (r : bs)
| X6d (r : bs)
| X6e (r : bs)
| X6f (r : bs)
| X70 (r : bs)
| X71 (r : bs)
| X72 (r : bs)
| X73 (r : bs)
| X74 (r : bs)
| X75 (r : bs)
| X76 (r : bs)
| X77 (r : bs)
| X78 (r : bs)
| X79 (r : bs)
| X7a (r : bs)
| X7b (r : bs)
| X7c (r : bs)
| X7d (r : bs)
| X7e (r : bs)
| X7f (r : bs)
| X80 (r : bs)
| X81 (r : bs)
| X82 (r : bs)
| X83 (r : bs)
| X84 (r : bs)
| X85 (r : bs)
| X86 (r : bs)
| X87 (r : bs)
| X88 (r : bs)
| X89 (r : bs)
| X8a (r : bs)
| X8b (r : bs)
| X8c (r : bs)
| X8d (r : bs)
| X8e (r : bs)
| X8f (r : bs)
| X90 (r : bs)
| X91 (r : bs)
| X92 (r : bs)
| X93 (r : bs)
| X94 (r : bs)
| X95 (r : bs)
| X96 (r : bs)
| X97 (r : bs)
| X98 (r : bs)
| X99 (r : bs)
| X9a (r : bs)
| X9b (r : bs)
| X9c (r : bs)
| X9d (r : bs)
| X9e (r : bs)
| X9f (r : bs)
| Xa0 (r : bs)
| Xa1 (r : bs)
| Xa2 (r : bs)
| Xa3 (r : bs)
| Xa4 (r : bs)
| Xa5 (r : bs)
| Xa6 (r : bs)
| Xa7 (r : bs)
| Xa8 (r : bs)
| Xa9 (r : bs)
| Xaa (r : bs)
| Xab (r : bs)
| Xac (r : bs)
| Xad (r : bs)
| Xae (r : bs)
| Xaf (r : bs)
| Xb0 (r : bs)
| Xb1 (r : bs)
| Xb2 (r : bs)
| Xb3 (r : bs)
| Xb4 (r : bs)
| Xb5 (r : bs)
| Xb6 (r : bs)
| Xb7 (r : bs)
| Xb8 (r : bs)
| Xb9 (r : bs)
| Xba (r : bs)
| Xbb (r : bs)
| Xbc (r : bs)
| Xbd (r : bs)
| Xbe (r : bs)
| Xbf (r : bs)
| Xc0 (r : bs)
| Xc1 (r : bs)
| Xc2 (r : bs)
| Xc3 (r : bs)
| Xc4 (r : bs)
| Xc5 (r : bs)
| Xc6 (r : bs)
| Xc7 (r : bs)
| Xc8 (r : bs)
| Xc9 (r : bs)
| Xca (r : bs)
| Xcb (r : bs)
| Xcc (r : bs)
| Xcd (r : bs)
| Xce (r : bs)
| Xcf (r : bs)
| Xd0 (r : bs)
| Xd1 (r : bs)
| Xd2 (r : bs)
| Xd3 (r : bs)
| Xd4 (r : bs)
| Xd5 (r : bs)
| Xd6 (r : bs)
| Xd7 (r : bs)
| Xd8 (r : bs)
| Xd9 (r : bs)
| Xda (r : bs)
| Xdb (r : bs)
| Xdc (r : bs)
| Xdd (r : bs)
| Xde (r : bs)
| Xdf (r : bs)
| Xe0 (r : bs)
| Xe1 (r : bs)
| Xe2 (r : bs)
| Xe3 (r : bs)
| Xe4 (r : bs)
| Xe5 (r : bs)
| Xe6 (r : bs)
| Xe7 (r : bs)
| Xe8 (r : bs)
| Xe9 (r : bs)
| Xea (r : bs)
| Xeb (r : bs)
| Xec (r : bs)
| Xed (r : bs)
| Xee (r : bs)
| Xef (r : bs)
| Xf0 (r : bs)
| Xf1 (r : bs)
| Xf2 (r : bs)
| Xf3 (r : bs)
| Xf4 (r : bs)
| Xf5 (r : bs)
| Xf6 (r : bs)
| Xf7 (r : bs)
| Xf8 (r : bs)
| Xf9 (r : bs)
| Xfa (r : bs)
| Xfb (r : bs)
| Xfc (r : bs)
| Xfd (r : bs)
| Xfe (r : bs)
| Xff (r : bs).
Fixpoint bytes_of (b : bs) : list N :=
  match b with
  | E => []
  | X00 r => 0 :: bytes_of r
  | X01 r => 1 :: bytes_of r
  | X02 r => 2 :: bytes_of r
  | X03 r => 3 :: bytes_of r
  | X04 r => 4 :: bytes_of r
  | X05 r => 5 :: bytes_of r
  | X06 r => 6 :: bytes_of r
  | X07 r => 7 :: bytes_of r
  | X08 r => 8 :: bytes_of r
  | X09 r => 9 :: bytes_of r
  | X0a r => 10 :: bytes_of r
  | X0b r => 11 :: bytes_of r
  | X0c r => 12 :: bytes_of r
  | X0d r => 13 :: bytes_of r
  | X0e r => 14 :: bytes_of r
  | X0f r => 15 :: bytes_of r
  | X10 r => 16 :: bytes_of r
  | X11 r => 17 :: bytes_of r
  | X12 r => 18 :: bytes_of r
  | X13 r => 19 :: bytes_of r
  | X14 r => 20 :: bytes_of r
  | X15 r => 21 :: bytes_of r
  | X16 r => 22 :: bytes_of r
  | X17 r => 23 :: bytes_of r
  | X18 r => 24 :: bytes_of r
  | X19 r => 25 :: bytes_of r
  | X1a r => 26 :: bytes_of r
  | X1b r => 27 :: bytes_of r
  | X1c r => 28 :: bytes_of r
  | X1d r => 29 :: bytes_of r
  | X1e r => 30 :: bytes_of r
  | X1f r => 31 :: bytes_of r
  | X20 r => 32 :: bytes_of r
  | X21 r => 33 :: bytes_of r
  | X22 r => 34 :: bytes_of r
  | X23 r => 35 :: bytes_of r
  | X24 r => 36 :: bytes_of r
  | X25 r => 37 :: bytes_of r
  | X26 r => 38 :: bytes_of r
  | X27 r => 39 :: bytes_of r
  | X28 r => 40 :: bytes_of r
  | X29 r => 41 :: bytes_of r
  | X2a r => 42 :: bytes_of r
  | X2b r => 43 :: bytes_of r
  | X2c r => 44 :: bytes_of r
  | X2d r => 45 :: bytes_of r
  | X2e r => 46 :: bytes_of r
  | X2f r => 47 :: bytes_of r
  | X30 r => 48 :: bytes_of r
  | X31 r => 49 :: bytes_of r
  | X32 r => 50 :: bytes_of r
  | X33 r => 51 :: bytes_of r
  | X34 r => 52 :: bytes_of r
  | X35 r => 53 :: bytes_of r
  | X36 r => 54 :: bytes_of r
  | X37 r => 55 :: bytes_of r
  | X38 r => 56 :: bytes_of r
  | X39 r => 57 :: bytes_of r
  | X3a r => 58 :: bytes_of r
  | X3b r => 59 :: bytes_of r
  | X3c r => 60 :: bytes_of r
  | X3d r => 61 :: bytes_of r
  | X3e r => 62 :: bytes_of r
  | X3f r => 63 :: bytes_of r
  | X40 r => 64 :: bytes_of r
  | X41 r => 65 :: bytes_of r
  | X42 r => 66 :: bytes_of r
  | X43 r => 67 :: bytes_of r
  | X44 r => 68 :: bytes_of r
  | X45 r => 69 :: bytes_of r
  | X46 r => 70 :: bytes_of r
  | X47 r => 71 :: bytes_of r
  | X48 r => 72 :: bytes_of r
  | X49 r => 73 :: bytes_of r
  | X4a r => 74 :: bytes_of r
  | X4b r => 75 :: bytes_of r
  | X4c r => 76 :: bytes_of r
  | X4d r => 77 :: bytes_of r
  | X4e r => 78 :: bytes_of r
  | X4f r => 79 :: bytes_of r
  | X50 r => 80 :: bytes_of r
  | X51 r => 81 :: bytes_of r
  | X52 r => 82 :: bytes_of r
  | X53 r => 83 :: bytes_of r
  | X54 r => 84 :: bytes_of r
  | X55 r => 85 :: bytes_of r
  | X56 r => 86 :: bytes_of r
  | X57 r => 87 :: bytes_of r
  | X58 r => 88 :: bytes_of r
  | X59 r => 89 :: bytes_of r
  | X5a r => 90 :: bytes_of r
  | X5b r => 91 :: bytes_of r
  | X5c r => 92 :: bytes_of r
  | X5d r => 93 :: bytes_of r
  | X5e r => 94 :: bytes_of r
  | X5f r => 95 :: bytes_of r
  | X60 r => 96 :: bytes_of r
  | X61 r => 97 :: bytes_of r
  | X62 r => 98 :: bytes_of r
  | X63 r => 99 :: bytes_of r
  | X64 r => 100 :: bytes_of r
  | X65 r => 101 :: bytes_of r
  | X66 r => 102 :: bytes_of r
  | X67 r => 103 :: bytes_of r
  | X68 r => 104 :: bytes_of r
  | X69 r => 105 :: bytes_of r
  | X6a r => 106 :: bytes_of r
  | X6b r => 107 :: bytes_of r
  | X6c r => 108 :: bytes_of r
  | X6d r => 109 :: bytes_of r
  | X6e r => 110 :: bytes_of r
  | X6f r => 111 :: bytes_of r
  | X70 r => 112 :: bytes_of r
  | X71 r => 113 :: bytes_of r
  | X72 r => 114 :: bytes_of r
  | X73 r => 115 :: bytes_of r
  | X74 r => 116 :: bytes_of r
  | X75 r => 117 :: bytes_of r
  | X76 r => 118 :: bytes_of r
  | X77 r => 119 :: bytes_of r
  | X78 r => 120 :: bytes_of r
  | X79 r => 121 :: bytes_of r
  | X7a r => 122 :: bytes_of r
  | X7b r => 123 :: bytes_of r
  | X7c r => 124 :: bytes_of r
  | X7d r => 125 :: bytes_of r
  | X7e r => 126 :: bytes_of r
  | X7f r => 127 :: bytes_of r
  | X80 r => 128 :: bytes_of r
  | X81 r => 129 :: bytes_of r
  | X82 r => 130 :: bytes_of r
  | X83 r => 131 :: bytes_of r
  | X84 r => 132 :: bytes_of r
  | X85 r => 133 :: bytes_of r
  | X86 r => 134 :: bytes_of r
  | X87 r => 135 :: bytes_of r
  | X88 r => 136 :: bytes_of r
  | X89 r => 137 :: bytes_of r
  | X8a r => 138 :: bytes_of r
  | X8b r => 139 :: bytes_of r
  | X8c r => 140 :: bytes_of r
  | X8d r => 141 :: bytes_of r
  | X8e r => 142 :: bytes_of r
  | X8f r => 143 :: bytes_of r
  | X90 r => 144 :: bytes_of r
  | X91 r => 145 :: bytes_of r
  | X92 r => 146 :: bytes_of r
  | X93 r => 147 :: bytes_of r
  | X94 r => 148 :: bytes_of r
  | X95 r => 149 :: bytes_of r
  | X96 r => 150 :: bytes_of r
  | X97 r => 151 :: bytes_of r
  | X98 r => 152 :: bytes_of r
  | X99 r => 153 :: bytes_of r
  | X9a r => 154 :: bytes_of r
  | X9b r => 155 :: bytes_of r
  | X9c r => 156 :: bytes_of r
  | X9d r => 157 :: bytes_of r
  | X9e r => 158 :: bytes_of r
  | X9f r => 159 :: bytes_of r
  | Xa0 r => 160 :: bytes_of r
  | Xa1 r => 161 :: bytes_of r
  | Xa2 r => 162 :: bytes_of r
  | Xa3 r => 163 :: bytes_of r
  | Xa4 r => 164 :: bytes_of r
  | Xa5 r => 165 :: bytes_of r
  | Xa6 r => 166 :: bytes_of r
  | Xa7 r => 167 :: bytes_of r
  | Xa8 r => 168 :: bytes_of r
  | Xa9 r => 169 :: bytes_of r
  | Xaa r => 170 :: bytes_of r
  | Xab r => 171 :: bytes_of r
  | Xac r => 172 :: bytes_of r
  | Xad r => 173 :: bytes_of r
  | Xae r => 174 :: bytes_of r
  | Xaf r => 175 :: bytes_of r
  | Xb0 r => 176 :: bytes_of r
  | Xb1 r => 177 :: bytes_of r
  | Xb2 r => 178 :: bytes_of r
  | Xb3 r => 179 :: bytes_of r
  | Xb4 r => 180 :: bytes_of r
  | Xb5 r => 181 :: bytes_of r
  | Xb6 r => 182 :: bytes_of r
  | Xb7 r => 183 :: bytes_of r
  | Xb8 r => 184 :: bytes_of r
  | Xb9 r => 185 :: bytes_of r
  | Xba r => 186 :: bytes_of r
  | Xbb r => 187 :: bytes_of r
  | Xbc r => 188 :: bytes_of r
  | Xbd r => 189 :: bytes_of r
  | Xbe r => 190 :: bytes_of r
  | Xbf r => 191 :: bytes_of r
  | Xc0 r => 192 :: bytes_of r
  | Xc1 r => 193 :: bytes_of r
  | Xc2 r => 194 :: bytes_of r
  | Xc3 r => 195 :: bytes_of r
  | Xc4 r => 196 :: bytes_of r
  | Xc5 r => 197 :: bytes_of r
  | Xc6 r => 198 :: bytes_of r
  | Xc7 r => 199 :: bytes_of r
  | Xc8 r => 200 :: bytes_of r
  | Xc9 r => 201 :: bytes_of r
  | Xca r => 202 :: bytes_of r
  | Xcb r => 203 :: bytes_of r
  | Xcc r => 204 :: bytes_of r
  | Xcd r => 205 :: bytes_of r
  | Xce r => 206 :: bytes_of r
  | Xcf r => 207 :: bytes_of r
  | Xd0 r => 208 :: bytes_of r
  | Xd1 r => 209 :: bytes_of r
  | Xd2 r => 210 :: bytes_of r
  | Xd3 r => 211 :: bytes_of r
  | Xd4 r => 212 :: bytes_of r
  | Xd5 r => 213 :: bytes_of r
  | Xd6 r => 214 :: bytes_of r
  | Xd7 r => 215 :: bytes_of r
  | Xd8 r => 216 :: bytes_of r
  | Xd9 r => 217 :: bytes_of r
  | Xda r => 218 :: bytes_of r
  | Xdb r => 219 :: bytes_of r
  | Xdc r => 220 :: bytes_of r
  | Xdd r => 221 :: bytes_of r
  | Xde r => 222 :: bytes_of r
  | Xdf r => 223 :: bytes_of r
  | Xe0 r => 224 :: bytes_of r
  | Xe1 r => 225 :: bytes_of r
  | Xe2 r => 226 :: bytes_of r
  | Xe3 r => 227 :: bytes_of r
  | Xe4 r => 228 :: bytes_of r
  | Xe5 r => 229 :: bytes_of r
  | Xe6 r => 230 :: bytes_of r
  | Xe7 r => 231 :: bytes_of r
  | Xe8 r => 232 :: bytes_of r
  | Xe9 r => 233 :: bytes_of r
  | Xea r => 234 :: bytes_of r
  | Xeb r => 235 :: bytes_of r
  | Xec r => 236 :: bytes_of r
  | Xed r => 237 :: bytes_of r
  | Xee r => 238 :: bytes_of r
  | Xef r => 239 :: bytes_of r
  | Xf0 r => 240 :: bytes_of r
  | Xf1 r => 241 :: bytes_of r
  | Xf2 r => 242 :: bytes_of r
  | Xf3 r => 243 :: bytes_of r
  | Xf4 r => 244 :: bytes_of r
  | Xf5 r => 245 :: bytes_of r
  | Xf6 r => 246 :: bytes_of r
  | Xf7 r => 247 :: bytes_of r
  | Xf8 r => 248 :: bytes_of r
  | Xf9 r => 249 :: bytes_of r
  | Xfa r => 250 :: bytes_of r
  | Xfb r => 251 :: bytes_of r
  | Xfc r => 252 :: bytes_of r
  | Xfd r => 253 :: bytes_of r
  | Xfe r => 254 :: bytes_of r
  | Xff r => 255 :: bytes_of r
  end.
