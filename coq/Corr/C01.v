(* Corr/C01.v — file data read back through the server equals the data written.
   (1) model projection: status, count/eof/committed numbers, data bytes, backend tree;
   (2) the byte-array specification applied to the implementation's observations: each READ of a
       regular file returns exactly the backend bytes (zeros in holes), count = min(requested, transfer
       size, size - offset), eof iff offset + count >= size; a WRITE replying OK with count n has
       stored exactly the first n payload bytes at its offset and changed nothing else; SETATTR(size)
       and CREATE(size) truncate/extend with zeros; a failed request leaves the tree unchanged. *)
From Coq Require Import List NArith ZArith Bool.
From Verif Require Import Model.Handles Model.Backend Model.Srv Corr.Common Corr.SrvCase.
Import ListNotations.
Open Scope N_scope.

Definition obs_proj_eqb (a b : obs) : bool :=
  (ob_rpc a =? ob_rpc b) && (ob_status a =? ob_status b) && list_eqb N.eqb (ob_nums a) (ob_nums b) &&
  bytes_eqb (ob_bytes a) (ob_bytes b) && Bool.eqb (ob_eof a) (ob_eof b) &&
  list_eqb (option_eqb (fun x y => fa_size x =? fa_size y)) (ob_attrs a) (ob_attrs b).
Definition mismatch (c : case) : list (N * N) := generic_mismatch obs_proj_eqb true false c.

Definition file_at (d : list dump_entry) (p : path) : option (N * sdata) :=
  match d_get d p with
  | Some e => match d_kind e with KFile => Some (d_size e, d_data e) | _ => None end
  | None => None
  end.
Fixpoint firstn_N (n : N) (l : list N) : list N := firstn (N.to_nat n) l.

Definition spec_step (x : octx) : list (N * N) :=
  let st := oc_step x in let r := hs_req (i_step st) in let o := i_obs st in
  let prev := oc_prev x in let post := i_dump st in
  let ts := tsize (oc_cfg x) in
  let fail := [(oc_i x, code_specfail)] in
  match r with
  | RRead h off cnt =>
      match g_get (oc_ghost x) h with
      | Some p =>
        match file_at prev p with
        | Some (size, data) =>
            if negb (dump_same prev post) then fail
            else if status_ok st then
              let want := if size <=? off then 0 else N.min (N.min cnt ts) (size - off) in
              if (match ob_nums o with [n] => n =? want | _ => false end)
                 && bytes_eqb (ob_bytes o) (sd_read data off (N.to_nat want))
                 && Bool.eqb (ob_eof o) (size <=? off + want) then [] else fail
            else
              (* documented rejections: offset+count overflows 2^64 (INVAL), offset >= 2^63 (IO) *)
              if (two64 - 1 - cnt <? off) || (two63N <=? off) then [] else fail
        | None => []
        end
      | None => []
      end
  | RWrite h off cnt _ payload =>
      match g_get (oc_ghost x) h with
      | Some p =>
        match file_at prev p with
        | Some (size, data) =>
            if status_ok st then
              match ob_nums o, file_at post p with
              | n :: _, Some (size', data') =>
                  if (n <=? N.of_nat (length payload)) &&
                     (size' =? (if n =? 0 then size else N.max size (off + n))) &&
                     sdata_eqb data' (sd_write data off (firstn_N n payload)) &&
                     dump_same_except [p] prev post then [] else fail
              | _, _ => fail
              end
            else if dump_same prev post then [] else fail
        | None => if status_ok st || dump_same prev post then [] else fail
        end
      | None => if dump_same prev post then [] else fail
      end
  | RSetattr h sa _ =>
      match s_size sa, g_get (oc_ghost x) h with
      | Some sz, Some p =>
        match file_at prev p with
        | Some (size, data) =>
            if status_ok st then
              match file_at post p with
              | Some (size', data') => if (size' =? sz) && sdata_eqb data' (sd_trunc data sz) then [] else fail
              | None => fail
              end
            else []     (* a failing SETATTR may have applied the size part before another part failed *)
        | None => []
        end
      | _, _ => []
      end
  | RCreate h n how sa =>
      (* UNCHECKED / GUARDED CREATE that replies OK: an existing regular file keeps its bytes, cut or zero-extended to
         the requested size when one is given; a new file is all zeros of the requested size *)
      match g_get (oc_ghost x) h with
      | Some p =>
        let q := p ++ [n] in
        if status_ok st && (how <? 2) then
          match d_get prev q, file_at prev q, file_at post q with
          | Some _, Some (size, data), Some (size', data') =>
              match s_size sa with
              | Some sz => if (size' =? sz) && sdata_eqb data' (sd_trunc data sz) then [] else fail
              | None => if (size' =? size) && sdata_eqb data' data then [] else fail
              end
          | None, _, Some (size', data') =>
              if (size' =? match s_size sa with Some sz => sz | None => 0 end) && sdata_eqb data' [] then [] else fail
          | _, _, _ => []
          end
        else []
      | None => []
      end
  | _ => []
  end.
Definition specfail (c : case) : list (N * N) := first_only (oracle spec_step c).
Definition check (c : case) : list (N * N) := specfail c ++ mismatch c.
Definition run (cs : list case) : result := run_cases check cs.
