(* Corr/C05.v — correspondence + spec oracle for the handle table (C05, and the table side of C06). *)
From Coq Require Import List NArith ZArith Bool.
From Verif Require Import Model.Handles Corr.Common.
Import ListNotations.
Open Scope N_scope.

Definition obs := (N * list (N * N))%type.           (* returned handle, table sorted by id *)
Record case := { c_max : Z; c_ops : list (op N); c_obs : list obs }.

Definition obs_eqb : obs -> obs -> bool := pair_eqb N.eqb (list_eqb (pair_eqb N.eqb N.eqb)).

(* (1) model vs implementation *)
Definition mismatch (c : case) : list (N * N) :=
  match first_diff obs_eqb 0 (run_obs N.eqb (init (c_max c)) (c_ops c)) (c_obs c) with
  | Some i => [(i, code_mismatch)]
  | None => []
  end.

(* (2) the statement of C05 evaluated on the implementation's own observations,
   without reference to the model: after every step the table is a bijection of size <= max;
   an Alloc returns a handle that maps to its path in the table; if the path had a live handle
   before the step, the same value is returned. *)
Definition emax (mx : Z) : N := if (mx <=? 0)%Z then 100000 else Z.to_N mx.
Definition lookup_h (h : N) (t : list (N * N)) : option N :=
  match find (fun e => fst e =? h) t with Some e => Some (snd e) | None => None end.
Definition lookup_p (p : N) (t : list (N * N)) : option N :=
  match find (fun e => snd e =? p) t with Some e => Some (fst e) | None => None end.
Definition table_ok (mx : Z) (t : list (N * N)) : bool :=
  nodupb N.eqb (map fst t) && nodupb N.eqb (map snd t) && (N.of_nat (length t) <=? emax mx).
Definition step_ok (mx : Z) (prev : list (N * N)) (o : op N) (ob : obs) : bool :=
  table_ok mx (snd ob) &&
  match o with
  | Alloc p => option_eqb N.eqb (lookup_h (fst ob) (snd ob)) (Some p) &&
               match lookup_p p prev with Some h0 => fst ob =? h0 | None => true end
  | _ => true
  end.
Fixpoint spec_walk (mx : Z) (i : N) (prev : list (N * N)) (ops : list (op N)) (os : list obs) : list (N * N) :=
  match ops, os with
  | o :: ops', ob :: os' =>
      if step_ok mx prev o ob then spec_walk mx (i + 1) (snd ob) ops' os' else [(i, code_specfail)]
  | _, _ => []
  end.
Definition specfail (c : case) : list (N * N) := spec_walk (c_max c) 0 [] (c_ops c) (c_obs c).

Definition check (c : case) : list (N * N) := specfail c ++ mismatch c.
Definition run (cs : list case) : result := run_cases check cs.
