(* Corr/C02.v — namespace operations refine a POSIX tree model; caches are transparent.
   (1) model projection: status, handle, names/types/fileids/link targets, backend tree after each step
       (Model/Backend.v is the POSIX-like tree model);
   (2) on the implementation's observations:
       (a) cache transparency: every reply equals the reply of a twin server with minimal caches fed the
           same request sequence (status, handle, attribute type/fileid/size/perm, entries, link target);
       (b) success/failure of each namespace request is what the tree (the implementation's own backend
           dump before the request) dictates;
       (c) a failed request leaves the tree unchanged. *)
From Coq Require Import List NArith ZArith Bool.
From Verif Require Import Model.Handles Model.Backend Model.Srv Corr.Common Corr.SrvCase.
Import ListNotations.
Open Scope N_scope.

Definition fattr_proj_eqb (a b : fattr) : bool :=
  (fa_type a =? fa_type b) && (fa_perm a =? fa_perm b) && (fa_size a =? fa_size b) && (fa_fileid a =? fa_fileid b).
Definition obs_proj_eqb (a b : obs) : bool :=
  (ob_rpc a =? ob_rpc b) && (ob_status a =? ob_status b) && option_eqb N.eqb (ob_fh a) (ob_fh b) &&
  list_eqb (option_eqb fattr_proj_eqb) (ob_attrs a) (ob_attrs b) && bytes_eqb (ob_bytes a) (ob_bytes b) &&
  list_eqb (fun x y => (de_fileid x =? de_fileid y) && bytes_eqb (de_name x) (de_name y) && (de_cookie x =? de_cookie y)
                       && option_eqb fattr_proj_eqb (de_attr x) (de_attr y) && option_eqb N.eqb (de_fh x) (de_fh y))
           (ob_entries a) (ob_entries b) && Bool.eqb (ob_eof a) (ob_eof b).
Definition mismatch (c : case) : list (N * N) := generic_mismatch obs_proj_eqb true true c.

Definition exists_ (d : list dump_entry) (p : path) : bool := match d_get d p with Some _ => true | None => false end.
(* the object at a handle's path is still of the kind it had when the handle was issued (otherwise the handle
   is stale in the NFS sense and the tree model has no opinion on the reply) *)
Definition same_kind (x : octx) (h : N) (p : path) : bool :=
  match find (fun e => fst e =? h) (oc_gkind x), d_get (oc_prev x) p with
  | Some (_, k), Some e => kind_eqb k (d_kind e)
  | _, _ => false
  end.
Definition is_dir (d : list dump_entry) (p : path) : bool :=
  match d_get d p with Some e => kind_eqb (d_kind e) KDir | None => false end.
(* a proper prefix of p is a symbolic link in the tree: the backend resolves p through it, so whether p "exists" is a
   matter of the link's target (the aliasing caveat of DESIGN 10.3); the tree oracle has no opinion then *)
Definition through_link (d : list dump_entry) (p : path) : bool :=
  existsb (fun k => match d_get d (firstn k p) with Some e => kind_eqb (d_kind e) KLink | None => false end)
          (seq 1 (length p - 1)).
Definition has_kids (d : list dump_entry) (p : path) : bool := existsb (fun e : dump_entry => is_child p (fst e)) d.
Definition good (n : name) : bool := (validate_name n =? st_ok) && negb (has_dotdot_sub n).

(* expected success (Some true) / failure (Some false) / no opinion (None: handle unknown, odd names ...) *)
Definition expect (x : octx) : option bool :=
  let d := oc_prev x in
  let g := filter (fun e : N * path => same_kind x (fst e) (snd e) || negb (exists_ (oc_prev x) (snd e))) (oc_ghost x) in
  match hs_req (i_step (oc_step x)) with
  | RLookup h n =>
      match g_get g h with Some p => if good n && is_dir d p then Some (exists_ d (p ++ [n])) else None | None => None end
  | RMkdir h n sa =>
      match g_get g h, s_mode sa with
      | Some p, None => if good n && is_dir d p && negb (ro (oc_cfg x)) then Some (negb (exists_ d (p ++ [n]))) else None
      | _, _ => None end
  | RCreate h n how sa =>
      match g_get g h, s_mode sa with
      | Some p, None =>
          if good n && is_dir d p && negb (ro (oc_cfg x)) && (how <? 2) then
            Some (match d_get d (p ++ [n]) with
                  | None => true
                  | Some e => (how =? 0) && kind_eqb (d_kind e) KFile
                              && match s_size sa with Some sz => (sz <? two63N) && ((maxfile (oc_cfg x) =? 0) || (sz <=? maxfile (oc_cfg x))) | None => true end
                  end)
          else None
      | _, _ => None end
  | RRemove h n =>
      match g_get g h with
      | Some p => if good n && is_dir d p && negb (ro (oc_cfg x)) then
                    Some (exists_ d (p ++ [n]) && negb (is_dir d (p ++ [n]) && has_kids d (p ++ [n]))) else None
      | None => None end
  | RGetattr h | RReaddir h _ _ | RReaddirplus h _ _ _ =>
      match g_get g h with
      | Some p => if through_link d p then None else
                  match hs_req (i_step (oc_step x)) with
                  | RGetattr _ => Some (exists_ d p)
                  | _ => if exists_ d p then Some (is_dir d p) else None
                  end
      | None => None end
  | _ => None
  end.

Definition spec_step (x : octx) : list (N * N) :=
  let st := oc_step x in let o := i_obs st in
  let fail := [(oc_i x, code_specfail)] in
  let twin_bad := match i_obs2 st with Some o2 => negb (obs_proj_eqb o o2) | None => false end in
  let status_bad := match expect x with
                    | Some b => (ob_rpc o =? 0) && negb (Bool.eqb b (ob_status o =? 0))
                    | None => false end in
  let unchanged_bad :=
    match hs_req (i_step st) with
    | RSetRO _ | RSetMaxFile _ | RSetTsize _ => false
    | RSetattr _ _ _ | RWrite _ _ _ _ _ => false          (* not namespace operations *)
    | _ => negb (status_ok st) && negb (dump_same (oc_prev x) (i_dump st))
    end in
  if twin_bad || status_bad || unchanged_bad then fail else [].
Definition specfail (c : case) : list (N * N) := first_only (oracle spec_step c).
Definition check (c : case) : list (N * N) := specfail c ++ mismatch c.
Definition run (cs : list case) : result := run_cases check cs.
