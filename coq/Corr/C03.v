(* Corr/C03.v — CREATE never destroys or silently reuses an existing file.
   Oracle on the implementation's observations: GUARDED on an existing name => NFS3ERR_EXIST and the
   tree unchanged; EXCLUSIVE on an existing name => the object is untouched (status: see known finding
   k=1: the server answers OK instead of comparing verifiers); UNCHECKED never changes an existing
   regular file's data unless size is set, and never replaces a non-regular object. *)
From Coq Require Import List NArith ZArith Bool.
From Verif Require Import Model.Handles Model.Backend Model.Srv Corr.Common Corr.SrvCase.
Import ListNotations.
Open Scope N_scope.

Definition obs_proj_eqb (a b : obs) : bool := (ob_rpc a =? ob_rpc b) && (ob_status a =? ob_status b).
Definition mismatch (c : case) : list (N * N) := generic_mismatch obs_proj_eqb true true c.

Definition spec_step (x : octx) : list (N * N) :=
  let st := oc_step x in let prev := oc_prev x in let post := i_dump st in
  let fail := [(oc_i x, code_specfail)] in
  match hs_req (i_step st) with
  | RCreate h n how sa =>
      if negb (ob_rpc (i_obs st) =? 0) then [] else
      match g_child (oc_ghost x) h n with
      | Some p =>
        match d_get prev p with
        | Some e =>
            (* the name exists *)
            if how =? 1 then (if (ob_status (i_obs st) =? NFSERR_EXIST) && dump_same prev post then [] else fail)
            else if how =? 2 then
              (if negb (dump_same prev post) then fail
               else if ob_status (i_obs st) =? NFSERR_EXIST then []
               else if ob_status (i_obs st) =? 0 then [(oc_i x, 101)]   (* known finding k=1 *)
               else [])
            else
              match d_kind e, s_size sa with
              | KFile, Some sz =>
                  if status_ok st then
                    match d_get post p with
                    | Some e' => if (d_size e' =? sz) && sdata_eqb (d_data e') (sd_trunc (d_data e) sz)
                                    && dump_same_except [p] prev post then [] else fail
                    | None => fail
                    end
                  else if dump_same prev post then [] else fail
              | _, _ => if dump_same prev post then [] else fail
              end
        | None =>
            (* the name does not exist: success creates exactly one empty regular file there *)
            if status_ok st then
              match d_get post p with
              | Some e' => if kind_eqb (d_kind e') KFile && (d_size e' =? 0) && dump_same_except [p] prev post then [] else fail
              | None => fail
              end
            else if dump_same prev post then [] else fail
        end
      | None => if dump_same prev post then [] else fail
      end
  | _ => []
  end.
Definition specfail (c : case) : list (N * N) := oracle spec_step c.
Definition check (c : case) : list (N * N) := specfail c ++ mismatch c.
Definition run (cs : list case) : result := run_cases check cs.
