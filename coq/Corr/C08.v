(* Corr/C08.v — a read-only export is never modified.
   (1) projection of the model comparison: status, mutating backend calls, backend tree;
   (2) the statement itself on the implementation's observations: while ReadOnly is in force no request
       issues a mutating backend call or changes the tree, every mutating procedure fails, ACCESS grants no
       MODIFY/EXTEND/DELETE. *)
From Coq Require Import List NArith ZArith Bool.
From Verif Require Import Model.Handles Model.Backend Model.Srv Corr.Common Corr.SrvCase.
Import ListNotations.
Open Scope N_scope.

Definition obs_proj_eqb (a b : obs) : bool :=
  (ob_rpc a =? ob_rpc b) && (ob_status a =? ob_status b) && list_eqb N.eqb (ob_nums a) (ob_nums b).
Definition mismatch (c : case) : list (N * N) := generic_mismatch obs_proj_eqb true true c.

Definition mutating_req (r : req) : bool :=
  match r with
  | RSetattr _ _ _ | RWrite _ _ _ _ _ | RCreate _ _ _ _ | RMkdir _ _ _ | RSymlink _ _ _ _ | RMknod _ _
  | RRemove _ _ | RRmdir _ _ | RRename _ _ _ _ | RLink _ _ _ | RCommit _ _ _ => true
  | _ => false
  end.
Definition is_admin (r : req) : bool := match r with RSetRO _ | RSetMaxFile _ | RSetTsize _ => true | _ => false end.
Definition write_bits : N := ACCESS_MODIFY + ACCESS_EXTEND + ACCESS_DELETE.

Definition spec_step (x : octx) : list (N * N) :=
  let st := oc_step x in let r := hs_req (i_step st) in
  if negb (ro (oc_cfg x)) || is_admin r then []
  else
    let bad :=
      existsb mutating (i_calls st)
      || negb (dump_same (oc_prev x) (i_dump st))
      || (mutating_req r && status_ok st)
      || (match r with RAccess _ _ => status_ok st && existsb (fun w => negb (N.land w write_bits =? 0)) (ob_nums (i_obs st)) | _ => false end) in
    if bad then [(oc_i x, code_specfail)] else [].
Definition specfail (c : case) : list (N * N) := first_only (oracle spec_step c).

Definition check (c : case) : list (N * N) := specfail c ++ mismatch c.
Definition run (cs : list case) : result := run_cases check cs.
