(* Corr/C26x.v — second correspondence stream of C26 (driver drive_paging): everything Corr/C26.v checks (model
   projection; complete traversals; encoded length <= count / maxcount with known finding k=1; progress), plus, on
   every successful READDIR / READDIRPLUS step, that the length of the result bytes the implementation produced is
   EXACTLY the RFC 1813 length [enc_len_obs] of Model/DirEnc.v for the entries it returned - the function the
   theorems of Properties/C26.v are stated with (code 2 when it is not: then either the encoder or the layout
   the proofs assume is wrong).  The stream's directories hold names Corr/C26's generator does not produce: names
   containing "..", "...", leading / trailing dots, spaces, bytes >= 0x80, every length residue mod 4 up to 255. *)
From Coq Require Import List NArith ZArith Bool.
From Verif Require Import Model.Handles Model.Backend Model.Srv Model.DirEnc Corr.Common Corr.SrvCase Corr.C26.
Import ListNotations.
Open Scope N_scope.

Definition len_codes (c : case) : list (N * N) :=
  flat_map (fun ix : N * istep =>
    let x := snd ix in
    let o := i_obs x in
    if negb ((ob_rpc o =? 0) && (ob_status o =? 0)) then [] else
    match hs_req (i_step x) with
    | RReaddir _ _ _ => if i_reslen x =? enc_len_obs false (ob_entries o) then [] else [(fst ix, code_specfail)]
    | RReaddirplus _ _ _ _ =>
        (* every entry of this server carries attributes and a handle *)
        if forallb (fun de => match de_attr de, de_fh de with Some _, Some _ => true | _, _ => false end) (ob_entries o)
        then (if i_reslen x =? enc_len_obs true (ob_entries o) then [] else [(fst ix, code_specfail)])
        else [(fst ix, code_specfail)]
    | _ => []
    end) (index_from 0 (c_steps c)).

Definition check (c : case) : list (N * N) := C26.check c ++ len_codes c.
Definition run (cs : list case) : result := run_cases check cs.
