(* Corr/C24.v — correspondence + spec oracle for runtime reconfiguration (C24).
   A case = the ExportOptions given to New and a list of updates, each with what the real server showed afterwards:
   whether the update was accepted, GetExportOptions(), the parameters the caches / worker pool / rate limiter run
   with (verif hook), and the status of a LOOKUP / READ / WRITE probe over TCP.
   (1) mismatch: Model/Config.v run on the same inputs must give the same acceptance, report and components.
   (2) specfail: the property itself evaluated on the implementation's outputs alone. *)
From Coq Require Import List ZArith NArith Bool String.
From Verif Require Import Gen.Facts Model.Config Corr.Common.
Import ListNotations.
Open Scope Z_scope.

(* ---------- first-order rendering of tuning values ---------- *)
Record tval := mkTval { tv_num : list Z; tv_flag : list bool; tv_log : option N; tv_to : option (list Z) }.

Definition nidx (f : nfield) : nat :=
  match f with
  | TransferSize => 0 | AttrCacheTimeout => 1 | AttrCacheSize => 2 | NegativeCacheTimeout => 3 | DirCacheTimeout => 4
  | DirCacheMaxEntries => 5 | DirCacheMaxDirSize => 6 | MaxWorkers => 7 | MaxConnections => 8 | IdleTimeout => 9
  | SendBufferSize => 10 | ReceiveBufferSize => 11
  end%nat.
Definition bidx (f : bfield) : nat :=
  match f with CacheNegativeLookups => 0 | EnableDirCache => 1 | TCPKeepAlive => 2 | TCPNoDelay => 3 | Async => 4 end%nat.
Definition tidx (f : tfield) : nat :=
  match f with
  | ReadTimeout => 0 | WriteTimeout => 1 | LookupTimeout => 2 | ReaddirTimeout => 3 | CreateTimeout => 4
  | RemoveTimeout => 5 | RenameTimeout => 6 | HandleTimeout => 7 | DefaultTimeout => 8
  end%nat.

Definition tuning_of (v : tval) : tuning :=
  mkTuning (fun f => nth (nidx f) (tv_num v) 0) (fun f => nth (bidx f) (tv_flag v) false) (tv_log v)
           (option_map (fun l f => nth (tidx f) l 0) (tv_to v)).
Definition tval_of (t : tuning) : tval :=
  mkTval (map (num t) all_nfields) (map (flag t) all_bfields) (log t)
         (option_map (fun g => map g all_tfields) (timeouts t)).

Definition zlist_eqb := list_eqb Z.eqb.
Definition tval_eqb (a b : tval) : bool :=
  (zlist_eqb (tv_num a) (tv_num b) && list_eqb Bool.eqb (tv_flag a) (tv_flag b) &&
   option_eqb N.eqb (tv_log a) (tv_log b) && option_eqb zlist_eqb (tv_to a) (tv_to b))%bool.
Definition policy_eqb (a b : policy) : bool :=
  (Bool.eqb (read_only a) (read_only b) && Bool.eqb (secure a) (secure b) &&
   list_eqb String.eqb (allowed_ips a) (allowed_ips b) && String.eqb (squash a) (squash b) &&
   (max_file_size a =? max_file_size b) && Bool.eqb (enable_rl a) (enable_rl b) &&
   option_eqb N.eqb (rlc a) (rlc b) && option_eqb N.eqb (tls a) (tls b))%bool.
Definition dir_eqb (a b : Z * Z * Z) : bool :=
  ((fst (fst a) =? fst (fst b)) && (snd (fst a) =? snd (fst b)) && (snd a =? snd b))%bool.
Definition comp_eqb (a b : components) : bool :=
  ((c_attr_size a =? c_attr_size b) && (c_attr_ttl a =? c_attr_ttl b) && Bool.eqb (c_neg_enabled a) (c_neg_enabled b) &&
   (c_neg_ttl a =? c_neg_ttl b) && option_eqb dir_eqb (c_dir a) (c_dir b) && (c_pool a =? c_pool b) &&
   option_eqb N.eqb (c_limiter a) (c_limiter b))%bool.

(* ---------- the mutation functions the driver hands to UpdateTuningOptions ---------- *)
Inductive tset :=
| SetNum (f : nfield) (z : Z)
| SetFlag (f : bfield) (b : bool)
| SetLog (l : option N)
| SetTimeouts (x : option (list Z))        (* t.Timeouts = nil / &TimeoutConfig{...} *)
| SetTimeout (f : tfield) (z : Z).         (* t.Timeouts.F = z  (only generated when Timeouts is non-nil) *)
Definition apply_tset (t : tuning) (a : tset) : tuning :=
  match a with
  | SetNum f z => set_num t (fun g => if nfield_eqb g f then z else num t g)
  | SetFlag f b => set_flag t (fun g => if bfield_eqb g f then b else flag t g)
  | SetLog l => set_log t l
  | SetTimeouts x => set_timeouts t (option_map (fun l f => nth (tidx f) l 0) x)
  | SetTimeout f z =>
      match timeouts t with
      | Some g => set_timeouts t (Some (fun h => if String.eqb (tfield_name h) (tfield_name f) then z else g h))
      | None => t
      end
  end.
Definition fn_of (l : list tset) : tuning -> tuning := fun t => fold_left apply_tset l t.

Inductive cupd :=
| CExport (t : tval) (p : policy)
| CTuning (l : list tset)
| CPolicy (p : policy).
Definition update_of (u : cupd) : update :=
  match u with
  | CExport t p => UExport (tuning_of t, p)
  | CTuning l => UTuning (fn_of l)
  | CPolicy p => UPolicy p
  end.

(* probe entries: NFS status of LOOKUP, READ, WRITE; 1001 = RPC reply MSG_DENIED; 999 = no reply *)
Record obs := mkObs { o_ok : bool; o_t : tval; o_p : policy; o_c : components; o_probe : list N }.
Record case := mkCase { c_ncpu : Z; c_new_t : tval; c_new_p : policy; c_obs0 : obs; c_steps : list (cupd * obs) }.

Definition state_eqb (s : server) (o : obs) : bool :=
  (tval_eqb (tval_of (s_tuning s)) (o_t o) && policy_eqb (s_policy s) (o_p o) && comp_eqb (s_comp s) (o_c o))%bool.

(* ---------- (1) model vs implementation ---------- *)
Fixpoint model_walk (ncpu : Z) (i : N) (s : server) (steps : list (cupd * obs)) : list (N * N) :=
  match steps with
  | [] => []
  | (u, o) :: r =>
      let res := apply_update ncpu s (update_of u) in
      if (Bool.eqb (fst res) (o_ok o) && state_eqb (snd res) o)%bool
      then model_walk ncpu (i + 1) (snd res) r
      else [(i, code_mismatch)]
  end.
Definition mismatch (c : case) : list (N * N) :=
  match new (c_ncpu c) (tuning_of (c_new_t c), c_new_p c) with
  | None => [(0%N, code_mismatch)]       (* the driver only records servers New accepted *)
  | Some s0 =>
      if state_eqb s0 (c_obs0 c) then model_walk (c_ncpu c) 1 s0 (c_steps c) else [(0%N, code_mismatch)]
  end.

(* ---------- (2) the property on the implementation's own outputs ---------- *)
Definition k_nil_keeps_current : N := 101.   (* known finding k=1 *)
Definition k_dircache : N := 102.            (* known finding k=2 *)

Definition exp_field (dflt given reported : Z) : bool :=
  if given <=? 0 then reported =? dflt else reported =? given.
Definition nums_ok (ncpu : Z) (given reported : list Z) : bool :=
  forallb (fun f => exp_field (new_default_num ncpu f) (nth (nidx f) given 0) (nth (nidx f) reported 0)) all_nfields.
Definition tos_ok (ncpu : Z) (given : option (list Z)) (reported : option (list Z)) : bool :=
  match reported with
  | None => false
  | Some r =>
      forallb (fun f => exp_field (new_default_timeout ncpu f)
                                  (match given with Some g => nth (tidx f) g 0 | None => 0 end)
                                  (nth (tidx f) r 0)) all_tfields
  end.
Definition all_positive (o : obs) : bool :=
  (forallb (fun z => 0 <? z) (tv_num (o_t o)) && Nat.eqb (List.length (tv_num (o_t o))) 12 &&
   match tv_to (o_t o) with Some l => forallb (fun z => 0 <? z) l && Nat.eqb (List.length l) 9 | None => false end &&
   match rlc (o_p o) with Some _ => true | None => false end)%bool.
Definition server_of (o : obs) : server := mkServer (tuning_of (o_t o)) (o_p o) (o_c o).

(* invariants of every observed state: positive, report = components *)
Definition state_codes (o : obs) : list N :=
  (if all_positive o then [] else [code_specfail]) ++
  (if comp_agrees_b (server_of o) then (if dir_agrees_b (server_of o) then [] else [k_dircache]) else [code_specfail]).

(* the probe: the loopback client is refused only when the policy in force says so *)
Definition loopback_allowed (p : policy) : bool :=
  match allowed_ips p with
  | [] => true
  | l => (mem_str "127.0.0.1" l || mem_str "127.0.0.0/8" l)%bool
  end.
Definition probe_ok (o : obs) : bool :=
  match o_probe o with
  | [] => true                       (* no probe taken at this step *)
  | [lk; rd; wr] =>
      if (loopback_allowed (o_p o) && negb (secure (o_p o)))%bool
      then ((lk =? 0) && (rd =? 0) && (wr =? (if read_only (o_p o) then 30 else 0)))%N
      else ((lk =? 1001) && (rd =? 1001) && (wr =? 1001))%N
  | _ => false
  end.

Definition expected_reject (u : cupd) (prev : obs) : bool :=
  match u with
  | CExport _ p => (negb (String.eqb (squash p) "") && negb (String.eqb (squash p) (squash (o_p prev))))%bool
  | CTuning _ => false
  | CPolicy p => negb (String.eqb (squash p) (squash (o_p prev)))
  end.
Definition expected_policy (p : policy) (prev : obs) : policy :=
  set_squash (set_rlc p (match rlc p with None => Some default_rlc | r => r end)) (squash (o_p prev)).

Definition step_codes (ncpu : Z) (prev : obs) (u : cupd) (cur : obs) : list N :=
  if negb (Bool.eqb (o_ok cur) (negb (expected_reject u prev))) then [code_specfail]
  else if negb (o_ok cur) then
    (* rejected: nothing may have changed *)
    (if (tval_eqb (o_t cur) (o_t prev) && policy_eqb (o_p cur) (o_p prev) && comp_eqb (o_c cur) (o_c prev))%bool
     then [] else [code_specfail])
  else
    let given := match u with
                 | CExport t _ => Some t
                 | CTuning l => Some (tval_of (fn_of l (tuning_of (o_t prev))))
                 | CPolicy _ => None
                 end in
    let is_export := match u with CExport _ _ => true | _ => false end in
    (match given with
     | None => if tval_eqb (o_t cur) (o_t prev) then [] else [code_specfail]
     | Some g =>
         (if (nums_ok ncpu (tv_num g) (tv_num (o_t cur)) && list_eqb Bool.eqb (tv_flag g) (tv_flag (o_t cur)))%bool
          then [] else [code_specfail]) ++
         (if tos_ok ncpu (tv_to g) (tv_to (o_t cur)) then []
          else if (is_export && match tv_to g with None => true | _ => false end &&
                   option_eqb zlist_eqb (tv_to (o_t cur)) (tv_to (o_t prev)))%bool
               then [k_nil_keeps_current] else [code_specfail]) ++
         (if option_eqb N.eqb (tv_log (o_t cur)) (tv_log g) then []
          else if (is_export && match tv_log g with None => true | _ => false end &&
                   option_eqb N.eqb (tv_log (o_t cur)) (tv_log (o_t prev)))%bool
               then [k_nil_keeps_current] else [code_specfail])
     end) ++
    (match u with
     | CExport _ p | CPolicy p => if policy_eqb (o_p cur) (expected_policy p prev) then [] else [code_specfail]
     | CTuning _ => if policy_eqb (o_p cur) (o_p prev) then [] else [code_specfail]
     end).

Fixpoint spec_walk (ncpu : Z) (i : N) (prev : obs) (steps : list (cupd * obs)) : list (N * N) :=
  match steps with
  | [] => []
  | (u, cur) :: r =>
      map (fun k => (i, k)) (step_codes ncpu prev u cur ++ state_codes cur ++ (if probe_ok cur then [] else [code_specfail]))
      ++ spec_walk ncpu (i + 1) cur r
  end.
Definition specfail (c : case) : list (N * N) :=
  let o := c_obs0 c in
  map (fun k => (0%N, k))
      ((if (nums_ok (c_ncpu c) (tv_num (c_new_t c)) (tv_num (o_t o)) && tos_ok (c_ncpu c) (tv_to (c_new_t c)) (tv_to (o_t o)) &&
            option_eqb N.eqb (tv_log (o_t o)) (tv_log (c_new_t c)))%bool then [] else [code_specfail]) ++
       state_codes o ++ (if probe_ok o then [] else [code_specfail]))
  ++ spec_walk (c_ncpu c) 1 o (c_steps c).

Definition check (c : case) : list (N * N) := specfail c ++ mismatch c.
Definition run (cs : list case) : result := run_cases check cs.
