(* Corr/C11.v — only an effective root identity can assign ownership.
   Oracle: after a request whose effective uid is not 0, every object whose owner or group differs from
   before (or that is new) is owned by the caller's effective uid:gid; objects created by
   CREATE/MKDIR/SYMLINK carry the caller's identity (root: the sattr override when given). *)
From Coq Require Import List NArith ZArith Bool.
From Verif Require Import Model.Handles Model.Backend Model.Srv Corr.Common Corr.SrvCase.
Import ListNotations.
Open Scope N_scope.

Definition chown_calls (l : list bcall) : list bcall :=
  filter (fun b => match b_op b with BChown | BLchown => true | _ => false end) l.
Definition obs_proj_eqb (a b : obs) : bool := (ob_rpc a =? ob_rpc b) && (ob_status a =? ob_status b).
Definition mismatch (c : case) : list (N * N) :=
  first_only (walk_case (fun i _ s' o x =>
     if negb (obs_proj_eqb o (i_obs x)) then [(i, code_mismatch)]
     else if negb (list_eqb bcall_eqb (chown_calls (rev (blog s'))) (chown_calls (i_calls x))) then [(i, code_mismatch)]
     else if negb (dump_matches (fs s') (i_dump x)) then [(i, code_mismatch)]
     else []) 0 (init_of c) (c_steps c)).

Definition spec_step (x : octx) : list (N * N) :=
  let st := oc_step x in let prev := oc_prev x in let post := i_dump st in
  let cr := hs_cred (i_step st) in let r := hs_req (i_step st) in
  let fail := [(oc_i x, code_specfail)] in
  let same_but_path (a b : dump_entry) :=
    kind_eqb (d_kind (snd a)) (d_kind (snd b)) && (d_uid (snd a) =? d_uid (snd b)) && (d_gid (snd a) =? d_gid (snd b)) &&
    (d_size (snd a) =? d_size (snd b)) && bytes_eqb (d_target (snd a)) (d_target (snd b)) in
  let nonroot_ok :=
    (c_uid cr =? 0) ||
    match r with
    | RRename _ _ _ _ => forallb (fun e : dump_entry => existsb (same_but_path e) prev) post   (* objects move, owners do not change *)
    | _ =>
    forallb (fun e : dump_entry =>
      match d_get prev (fst e) with
      | Some e0 => ((d_uid (snd e) =? d_uid e0) && (d_gid (snd e) =? d_gid e0))
                   || ((d_uid (snd e) =? c_uid cr) && (d_gid (snd e) =? c_gid cr))
      | None => (d_uid (snd e) =? c_uid cr) && (d_gid (snd e) =? c_gid cr)
      end) post
    end in
  let pick (o : option N) (dflt : N) := match o with Some v => if c_uid cr =? 0 then v else dflt | None => dflt end in
  let new_ok :=
    match r with
    | RCreate h n how sa =>
        match g_child (oc_ghost x) h n with
        | Some p => match d_get prev p, d_get post p with
                    | None, Some e => let sa' := if how =? 2 then None else Some sa in
                        (d_uid e =? pick (match sa' with Some s => s_uid s | None => None end) (c_uid cr)) &&
                        (d_gid e =? pick (match sa' with Some s => s_gid s | None => None end) (c_gid cr))
                    | _, _ => true end
        | None => true end
    | RMkdir h n sa | RSymlink h n sa _ =>
        match g_child (oc_ghost x) h n with
        | Some p => match d_get prev p, d_get post p with
                    | None, Some e => (d_uid e =? pick (s_uid sa) (c_uid cr)) && (d_gid e =? pick (s_gid sa) (c_gid cr))
                    | _, _ => true end
        | None => true end
    | _ => true
    end in
  if nonroot_ok && new_ok then [] else fail.
Definition specfail (c : case) : list (N * N) := first_only (oracle spec_step c).
Definition check (c : case) : list (N * N) := specfail c ++ mismatch c.
Definition run (cs : list case) : result := run_cases check cs.
