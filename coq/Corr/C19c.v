(* Corr/C19c.v — concurrent family of C19 (stream C19c of drive_ratelimit): SAMPLED and ORACLE-ONLY.

   Several goroutines call RateLimiter.AllowRequest of the real code at the same time while the virtual clock is
   HELD STILL (no bucket is refilled during a round; before every round the clock is advanced far enough to fill
   every bucket).  A round is observed as one row per (address, connection): how many requests were attempted and
   how many were admitted.  No model of the interleaving is compared; the two statements below hold in EVERY
   interleaving of a limiter in which a refused request never holds global capacity, not even transiently:
     (1) the requests admitted in a round never exceed the global burst;
     (2) if fewer than `global burst` requests were admitted in the round, the global bucket was never empty during
         it, so every request of a client that stayed within its own limits (attempts of its address <= per-IP burst,
         attempts on each of its connections <= per-connection burst when that limiter is on) was admitted.
   Both look at the implementation's observations only (code 2). *)
From Coq Require Import List ZArith NArith Bool.
From Verif Require Import Corr.Common.
Import ListNotations.
Open Scope Z_scope.

(* address, connection, attempted, admitted *)
Definition row := (N * N * Z * Z)%type.
Record case := { k_global : Z; k_ip_burst : Z; k_conn_on : bool; k_conn_burst : Z; k_rounds : list (list row) }.

Definition r_ip (r : row) : N := fst (fst (fst r)).
Definition r_conn (r : row) : N := snd (fst (fst r)).
Definition r_att (r : row) : Z := snd (fst r).
Definition r_adm (r : row) : Z := snd r.

Definition sumZ (l : list Z) : Z := fold_left Z.add l 0.
Definition attempts_ip (rd : list row) (ip : N) : Z := sumZ (map r_att (filter (fun r => N.eqb (r_ip r) ip) rd)).
Definition attempts_conn (rd : list row) (c : N) : Z := sumZ (map r_att (filter (fun r => N.eqb (r_conn r) c) rd)).

(* the client of row r stayed within its own limits in this round *)
Definition compliant (c : case) (rd : list row) (r : row) : bool :=
  (attempts_ip rd (r_ip r) <=? k_ip_burst c) &&
  (negb (k_conn_on c) || (attempts_conn rd (r_conn r) <=? k_conn_burst c)).

Definition round_ok (c : case) (rd : list row) : bool :=
  let adm := sumZ (map r_adm rd) in
  forallb (fun r => (0 <=? r_adm r) && (r_adm r <=? r_att r)) rd &&
  (adm <=? k_global c) &&
  ((k_global c <=? adm) || forallb (fun r => negb (compliant c rd r) || (r_adm r =? r_att r)) rd).

Fixpoint rounds_fail (c : case) (idx : N) (rds : list (list row)) : list (N * N) :=
  match rds with
  | [] => []
  | rd :: r => if round_ok c rd then rounds_fail c (idx + 1)%N r else [(idx, code_specfail)]
  end.

Definition check (c : case) : list (N * N) := rounds_fail c 0%N (k_rounds c).
Definition run (cs : list case) : result := run_cases check cs.
