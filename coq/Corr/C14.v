(* Corr/C14.v — the C14 oracle on the IMPLEMENTATION's wire bytes.

   Every case was produced by harness/cmd/drive_c14 from the CURRENT /repo (built with -tags verif): a list of calls made
   to the real HandleCall (or, for the connection-level limiter, over a loopback TCP connection with record marking), each
   with the server state it was made in, (program, version, procedure), the xid, whether the argument bytes decode under
   the argument grammar of the procedure (decided by the driver's own decoder), and the reply exactly as
   EncodeRPCReply put it on the wire (or "no reply").

   [specfail] does not use Model/Srv.v at all: it runs Rfc1813.wellformed on the wire bytes.
     code 2    the reply is not a well-formed RFC 1831 / RFC 1813 reply for the call (wrong shape, missing or trailing
               bytes, status outside nfsstat3 / mountstat3, non-canonical boolean / enumeration / padding), or does not
               echo the xid
     code 101  known finding k=1: NFS status word 4 (GARBAGE_ARGS is an RPC accept_stat, not an nfsstat3 value) in an
               otherwise well-formed FAILURE reply of an NFSv3 call whose arguments do not decode
     code 102  known finding k=2: status 10013 (NFS3ERR_DELAY does not exist in NFSv3) in an otherwise well-formed
               FAILURE reply of an NFSv3 call made while per-operation rate limiting refuses READ / WRITE / READDIR /
               READDIRPLUS, or while the operation timeouts expire
     code 103  known finding k=3: MOUNT version 1 MNT answered with the MOUNT v3 mountres3 body instead of RFC 1094's
               fhstatus (status + 32-byte fhandle)
   The signatures are narrow: the same reply must parse when, and only when, the one extra status value is admitted as
   a failure status; a 4 or 10013 anywhere else, or with a wrong shape, is code 2.
   [mismatch] (code 1): for every reply the Go-side decoder nfsx.Decode was applied to, the fields this grammar extracts
   (status, type/size/fileid of every attribute block, pre-op sizes, handle, numbers, entry names and file ids, data
   length, eof) equal the ones nfsx.Decode extracted, and both decoders agree on whether the bytes parse at all; and
   every reply that parses (with any status admitted) is re-encoded by the RFC ENCODER of Model/Rfc1813.v (the one the
   theorems of Properties/C14.v are about) and must give back exactly the bytes the server sent. *)
From Coq Require Import PrimInt63.
From Coq Require Import List NArith ZArith Bool.
From Verif Require Import Model.Bytes Model.Rfc1813 Corr.Common.
Import ListNotations.
Open Scope N_scope.

(* ---- compact literals (as in Corr/C13.v): numbers are printed as primitive integers, byte strings as a length plus
   7-byte big-endian words ---- *)
Fixpoint i2n_rec (k : nat) (i : int) : N :=
  match k with
  | O => 0
  | S k' => if PrimInt63.eqb i 0%uint63 then 0
            else (if PrimInt63.eqb (PrimInt63.land i 1%uint63) 1%uint63 then 1 else 0) +
                 2 * i2n_rec k' (PrimInt63.lsr i 1%uint63)
  end.
Definition n (i : int) : N := i2n_rec 63 i.
Definition W (hi lo : int) : N := n hi * 4294967296 + n lo.         (* 64-bit values as two 32-bit halves *)
Fixpoint wb (k : nat) (w : int) (acc : bytes) : bytes :=
  match k with
  | O => acc
  | S k' => wb k' (PrimInt63.lsr w 8%uint63) (n (PrimInt63.land w 255%uint63) :: acc)
  end.
Fixpoint unpack (len : N) (ws : list int) : bytes :=
  match ws with
  | [] => []
  | w :: r => if 7 <=? len then wb 7 w (unpack (len - 7) r) else wb (N.to_nat len) w []
  end.
Definition B (len : int) (ws : list int) : bytes := unpack (n len) ws.

(* ---- cases ---- *)
Inductive sstate :=
| StNormal | StReadOnly
| StDrain           (* VerifLockPolicy held: HandleCall's TryRLock fails, drainReply answers *)
| StRateLimited     (* EnableRateLimiting with zero per-operation rates: AllowOperation refuses after the fixed bursts *)
| StTimeout         (* operation timeouts of 1 ns: the ...WithContext operations report ErrTimeout *)
| StDenied          (* Secure export, unprivileged source port: ValidateAuthentication refuses *)
| StConnLimited     (* over TCP: the connection-level limiter of handleConnectionLoop refuses *)
| StCallTimeout.    (* DefaultTimeout of 1 ns: HandleCall itself may give up (no reply) *)

(* what nfsx.Decode extracted from the result bytes *)
Record gsum := mkG {
  g_parsed : bool;                              (* Decode consumed the bytes exactly *)
  g_status : N;
  g_attrs : list (option (N * N * N));          (* type, size, fileid *)
  g_wcc : list (option N);                      (* pre-op size *)
  g_fh : option N;
  g_nums : list N;
  g_ents : list (N * bytes);                    (* fileid, name *)
  g_dlen : N;
  g_eof : bool }.

Record step := mkStep {
  st_state : sstate; st_prog : N; st_vers : N; st_proc : N; st_xid : N;
  st_argsok : bool;                             (* the argument bytes decode (driver's own argument decoder) *)
  st_reply : option bytes;                      (* None: no reply / connection-level error *)
  st_go : option gsum }.
Definition S_ (st : sstate) (prog vers proc xid : int) (aok : bool) (r : option bytes) (g : option gsum) : step :=
  mkStep st (n prog) (n vers) (n proc) (n xid) aok r g.
Record case := mkCase { c_steps : list step }.

(* ---- the oracle ---- *)
Definition extra_k1 (s : N) : bool := s =? 4.
Definition extra_k2 (s : N) : bool := s =? 10013.
Definition is_nfs3 (x : step) : bool := (st_prog x =? PROG_NFS) && (st_vers x =? 3).
Definition rl_proc (p : N) : bool := memN p [6; 7; 16; 17].
Definition optN_is (o : option N) (v : N) : bool := match o with Some x => x =? v | None => false end.

Definition sig_k1 (x : step) (w : bytes) : bool :=
  is_nfs3 x && negb (st_argsok x) &&
  wellformed_x extra_k1 (st_prog x) (st_vers x) (st_proc x) (st_xid x) w &&
  optN_is (reply_status extra_k1 (st_prog x) (st_vers x) (st_proc x) w) 4.
Definition sig_k2 (x : step) (w : bytes) : bool :=
  is_nfs3 x &&
  (match st_state x with StRateLimited => rl_proc (st_proc x) | StTimeout => true | _ => false end) &&
  wellformed_x extra_k2 (st_prog x) (st_vers x) (st_proc x) (st_xid x) w &&
  optN_is (reply_status extra_k2 (st_prog x) (st_vers x) (st_proc x) w) 10013.
Definition sig_k3 (x : step) (w : bytes) : bool :=
  (st_prog x =? PROG_MOUNT) && (st_vers x =? 1) && (st_proc x =? 1) &&
  wellformed PROG_MOUNT 3 1 (st_xid x) w && optN_is (reply_status no_extra PROG_MOUNT 3 1 w) 0.

Definition wire_code (x : step) (w : bytes) : N :=
  if wellformed (st_prog x) (st_vers x) (st_proc x) (st_xid x) w then 0
  else if sig_k1 x w then 101
  else if sig_k2 x w then 102
  else if sig_k3 x w then 103
  else code_specfail.

Definition specfail_step (x : step) : list N :=
  match st_reply x with
  | None => []
  | Some w => match wire_code x w with 0 => [] | c => [c] end
  end.

(* ---- agreement with the Go-side decoder ---- *)
Definition any_status (s : N) : bool := true.
Definition fh_num (h : bytes) : option N := if len h =? 8 then Some (be_dec h) else None.
Definition optb {A} (f : A -> A -> bool) := @option_eqb A f.
Definition triple_eqb (a b : N * N * N) : bool :=
  (fst (fst a) =? fst (fst b)) && (snd (fst a) =? snd (fst b)) && (snd a =? snd b).
Definition ent_eqb (a b : N * bytes) : bool := (fst a =? fst b) && bytes_eqb (snd a) (snd b).
(* nfsx.Decode speaks the v3 grammar for MNT whatever the version *)
Definition go_vers (x : step) : N := if (st_prog x =? PROG_MOUNT) && (st_vers x =? 1) then 3 else st_vers x.
Definition tree_vs_go (t : result_tree) (g : gsum) : bool :=
  (match rt_status t with Some s => s =? g_status g | None => g_status g =? 0 end) &&
  list_eqb (optb triple_eqb) (map (option_map (fun a => (wf_type a, wf_size a, wf_fileid a))) (rt_attrs t)) (g_attrs g) &&
  list_eqb (optb N.eqb) (map (option_map ww_size) (rt_wcc t)) (g_wcc g) &&
  optb N.eqb (match rt_fh t with Some h => fh_num h | None => None end) (g_fh g) &&
  list_eqb N.eqb (firstn (length (g_nums g)) (rt_nums t)) (g_nums g) &&
  list_eqb ent_eqb (map (fun e => (we_fileid e, we_name e)) (rt_entries t)) (g_ents g) &&
  (len (rt_data t) =? g_dlen g) && Bool.eqb (rt_eof t) (g_eof g).
Definition mismatch_step (x : step) : list N :=
  match st_reply x, st_go x with
  | Some w, Some g =>
      match parse_reply_x any_status (st_prog x) (go_vers x) (st_proc x) w with
      | Some (_, KSuccess t) => if g_parsed g && tree_vs_go t g then [] else [code_mismatch]
      | Some _ => [code_mismatch]                (* Decode is only applied to accepted SUCCESS replies *)
      | None => if g_parsed g then [code_mismatch] else []
      end
  | _, _ => []
  end.

(* ---- the RFC ENCODER of Model/Rfc1813.v against the implementation's bytes: whatever parses is re-encoded (null
   verifier) and must give back exactly the bytes the server sent ---- *)
Definition wire_of_kind (xid : N) (k : reply_kind) (p : option rproc) : option bytes :=
  match k, p with
  | KSuccess t, Some p => Some (enc_accepted xid AS_SUCCESS (enc_tree p t))
  | KSuccess _, None => None
  | KProgUnavail, _ => Some (enc_accepted xid AS_PROG_UNAVAIL [])
  | KProgMismatch lo hi, _ => Some (enc_accepted xid AS_PROG_MISMATCH (e_u32 lo ++ e_u32 hi))
  | KProcUnavail, _ => Some (enc_accepted xid AS_PROC_UNAVAIL [])
  | KGarbageArgs, _ => Some (enc_accepted xid AS_GARBAGE_ARGS [])
  | KSystemErr, _ => Some (enc_accepted xid AS_SYSTEM_ERR [])
  | KRpcMismatch lo hi, _ => Some (enc_reply_hdr xid ++ e_u32 RS_MSG_DENIED ++ e_u32 RJ_RPC_MISMATCH ++ e_u32 lo ++ e_u32 hi)
  | KAuthError a, _ => Some (enc_denied_auth xid a)
  end.
Definition reenc_step (x : step) : list N :=
  match st_reply x with
  | Some w =>
      match parse_reply_x any_status (st_prog x) (st_vers x) (st_proc x) w with
      | Some (xid, k) =>
          match wire_of_kind xid k (rproc_of (st_prog x) (st_vers x) (st_proc x)) with
          | Some w' => if bytes_eqb w w' then [] else [code_mismatch]
          | None => [code_mismatch]
          end
      | None => []          (* does not parse even with every status admitted: specfail reports it *)
      end
  | None => []
  end.

Definition check (c : case) : list (N * N) :=
  flat_map (fun ix => map (fun code => (fst ix, code)) (specfail_step (snd ix) ++ mismatch_step (snd ix) ++ reenc_step (snd ix)))
           (index_from 0 (c_steps c)).
Definition run (cases : list case) : result := run_cases check cases.

(* debugging aid *)
Definition dbg (c : case) (k : N) :=
  flat_map (fun ix => if fst ix =? k then
     match st_reply (snd ix) with
     | Some w => [(w, parse_reply_x any_status (st_prog (snd ix)) (go_vers (snd ix)) (st_proc (snd ix)) w, st_go (snd ix))]
     | None => [] end else []) (index_from 0 (c_steps c)).
