(* Corr/C30.v — correspondence + spec oracle for the TLS floor and client certificates (C30, handshake stream).
   A case = one TLSConfig (files generated at run time), what Validate said, whether a server built through
   absnfs.New + Export came up, and a list of real handshakes (client version range, client certificate kind) with the
   negotiated version of those that completed (completion = handshake + a NULL RPC answered over the TLS connection).
   (1) mismatch: Validate's verdict, "listening" and every handshake outcome against Model/Tls.v with
       go_min_default = TLS 1.2 (this is where the Section variable of Properties/C30.v is confronted with the Go
       toolchain in use);
   (2) specfail, on the implementation's observations alone: a configuration Validate rejects does not listen; no
       completed handshake below TLS 1.2 or outside the client's offer; with RequireAndVerifyClientCert only CA-signed
       clients complete; with VerifyClientCertIfGiven only certificate-less or CA-signed clients complete. *)
From Coq Require Import List ZArith NArith Bool String.
From Verif Require Import Gen.Facts Model.Tls Corr.Common.
Import ListNotations.
Open Scope Z_scope.

Definition go_min_default_now : Z := TLS12.

Record case := mkCase {
  c_settings : tls_settings;
  c_validate : option verr;             (* class of the error Validate returned; None = nil *)
  c_listening : bool;                   (* New + Export returned nil *)
  c_attempts : list (client * option Z) }.

Definition verr_eqb (a b : verr) : bool :=
  match a, b with
  | ECertMissing, ECertMissing | EKeyMissing, EKeyMissing | ECertNotFound, ECertNotFound | EKeyNotFound, EKeyNotFound
  | ECANotFound, ECANotFound | EMinGtMax, EMinGtMax | EBelowFloor, EBelowFloor => true
  | _, _ => false
  end.

Definition mismatch (c : case) : list (N * N) :=
  let t := c_settings c in
  (if option_eqb verr_eqb (validate t) (c_validate c) then [] else [(0%N, code_mismatch)]) ++
  (let model_listening := if t_enabled t then match build_config t with Some _ => true | None => false end else true in
   if Bool.eqb model_listening (c_listening c) then [] else [(0%N, code_mismatch)]) ++
  (if c_listening c then
     flat_map (fun ia => if option_eqb Z.eqb (handshake go_min_default_now t (fst (snd ia))) (snd (snd ia)) then []
                         else [(fst ia, code_mismatch)])
              (index_from 1%N (c_attempts c))
   else []).

Definition attempt_ok (t : tls_settings) (a : client * option Z) : bool :=
  match snd a with
  | None => true
  | Some v =>
      let c := fst a in
      ((TLS12 <=? v) && (cl_min c <=? v) && (v <=? cl_max c) &&
       (if t_client_auth t =? 4 then is_ca_signed (cl_cert c) else true) &&
       (if t_client_auth t =? 3 then (negb (has_cert (cl_cert c)) || is_ca_signed (cl_cert c)) else true) &&
       (if t_client_auth t =? 2 then has_cert (cl_cert c) else true))%bool
  end.
Definition specfail (c : case) : list (N * N) :=
  let t := c_settings c in
  (if (t_enabled t && match c_validate c with Some _ => true | None => false end && c_listening c)%bool
   then [(0%N, code_specfail)] else []) ++
  (if (t_enabled t && c_listening c)%bool then
     flat_map (fun ia => if attempt_ok t (snd ia) then [] else [(fst ia, code_specfail)]) (index_from 1%N (c_attempts c))
   else
     (* a server without TLS (disabled settings) or without listener completes no TLS handshake at all *)
     flat_map (fun ia => match snd (snd ia) with Some _ => [(fst ia, code_specfail)] | None => [] end)
              (index_from 1%N (c_attempts c))).

Definition check (c : case) : list (N * N) := specfail c ++ mismatch c.
Definition run (cs : list case) : result := run_cases check cs.
