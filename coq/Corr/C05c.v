(* Corr/C05c.v — concurrent allocation on the real handle table (stream C05c of property C05): sampled
   interleavings, judged on the observations alone.  A round = the (path, returned handle) pairs of the goroutines
   that allocated at the same time, and the table afterwards (sorted by id).
   Statement evaluated: "one handle per path" also for handles issued simultaneously - all handles returned for
   one path within a round are equal - and after every round the table is a bijection within the limit in which
   the handle returned for a path, if that handle is still live, maps to that very path. *)
From Coq Require Import List NArith ZArith Bool.
From Verif Require Import Corr.Common.
Import ListNotations.
Open Scope N_scope.

Record case := { c_max : Z; c_rounds : list (list (N * N) * list (N * N)) }.

Definition emax (mx : Z) : N := if (mx <=? 0)%Z then 100000 else Z.to_N mx.
Definition table_ok (mx : Z) (t : list (N * N)) : bool :=
  nodupb N.eqb (map fst t) && nodupb N.eqb (map snd t) && (N.of_nat (length t) <=? emax mx).
Definition lookup_h (h : N) (t : list (N * N)) : option N :=
  match find (fun e => fst e =? h) t with Some e => Some (snd e) | None => None end.
(* all pairs asking for the same path got the same handle *)
Definition same_handle_per_path (asks : list (N * N)) : bool :=
  forallb (fun a => forallb (fun b => negb (fst a =? fst b) || (snd a =? snd b)) asks) asks.
(* (when an eviction can have happened in the round, a path's handle may be evicted between two allocations of the
   round, so even two different handles for one path are possible: no opinion then)
   a returned handle that is still live after the round maps to the path it was returned for; it may be gone, or
   serve a later allocation of the same round, only if an eviction can have happened in the round (the table held
   at least limit - #allocations entries before it: eviction removes a batch of the lowest ids, recycled ids
   included, so a handle issued early in a round can be evicted by a later allocation of the same round) *)
Definition live_maps_back (evict_possible : bool) (asks t : list (N * N)) : bool :=
  forallb (fun a => match lookup_h (snd a) t with
                    | Some p => (p =? fst a) || evict_possible
                    | None => evict_possible
                    end) asks.
Definition round_ok (mx : Z) (prev : list (N * N)) (rd : list (N * N) * list (N * N)) : bool :=
  let evict_possible := emax mx <=? N.of_nat (length prev) + N.of_nat (length (fst rd)) in
  (same_handle_per_path (fst rd) || evict_possible) && table_ok mx (snd rd) && live_maps_back evict_possible (fst rd) (snd rd).
Fixpoint walk (mx : Z) (i : N) (prev : list (N * N)) (l : list (list (N * N) * list (N * N))) : list (N * N) :=
  match l with
  | [] => []
  | rd :: r => if round_ok mx prev rd then walk mx (i + 1) (snd rd) r else [(i, code_specfail)]
  end.
Definition check (c : case) : list (N * N) := walk (c_max c) 0 [] (c_rounds c).
Definition run (cs : list case) : result := run_cases check cs.

Example round_ok_accepts : round_ok 0 [] ([(7, 3); (7, 3); (8, 4)], [(3, 7); (4, 8)]) = true.
Proof. reflexivity. Qed.
Example round_ok_rejects_two_handles : round_ok 0 [] ([(7, 3); (7, 5)], [(3, 7); (5, 7)]) = false.
Proof. reflexivity. Qed.
