(* Corr/C22c.v — property C22 under CONCURRENT writers: data acknowledged as stable survives a crash.

   SAMPLED, not proved: the theorems of Properties/C22.v are about the sequential model Model/Srv.v; what concurrent
   WRITE / COMMIT requests of several clients to one file do to the backend is an interleaving of goroutines the
   model does not contain.  harness/cmd/drive_c29 (stream C22c) runs 2-3 clients against one real server under
   directed schedules and random schedule noise and records, for every request, its invocation / response stamps
   (global logical clock) and reply, and the DURABLE tree (what a crash would leave) at instants where no request is
   in flight.  This file is the oracle, evaluated on the implementation's observations only (no model comparison).

   Crash / fsync model of the backend (harness/specfs, SyncSnapshot mode): file contents are durable only through
   Sync, and a Sync persists what the file held when the Sync was ENTERED - an fsync promises nothing about data
   written after it was called.  Namespace operations are durable at once.

   Oracle.  A WRITE w is STABLE at instant T when it answered OK before T and either its reply says
   committed = DATA_SYNC / FILE_SYNC, or an OK COMMIT on the same file whose range covers w's was INVOKED after w's
   response and answered before T.  For every durable dump (T, d) and every byte position x written by a WRITE that
   is stable at T, the durable file must contain x and hold there the byte of an ADMISSIBLE writer: a WRITE of the
   same file covering x, invoked before T, that is not superseded - i.e. that did not finish before a stable WRITE
   covering x was invoked.  (Of several writers of the same bytes that overlap in time either one's bytes are
   accepted; a later unstable write may or may not have reached the disk; an earlier write that was overwritten by a
   later STABLE one may not reappear.)  Every reply of a case carries the same write verifier.
   Violations are code 2 at the index of the offending WRITE (9001 deadlock, 9002 panic, 9010 verifier). *)
From Coq Require Import List NArith ZArith Bool.
From Verif Require Import Model.Backend Model.Srv Corr.Common Corr.SrvCase.
Import ListNotations.
Open Scope N_scope.

Record wop := { w_id : N; w_cli : N; w_inv : N; w_resp : N;
                w_kind : N;              (* 0 WRITE, 1 COMMIT, 2 anything else *)
                w_path : path; w_off : N; w_cnt : N (* COMMIT: count, 0 = to the end *); w_stable : N (* stable_how asked for *);
                w_data : list N;         (* WRITE: the bytes the reply acknowledged (the first [count] bytes sent) *)
                w_ok : bool; w_committed : N; w_verf : option N }.
Record case := { q_ops : list wop; q_dumps : list (N * list dump_entry); q_deadlock : bool; q_panic : bool; q_race : bool (* race detector report during the case *) }.

Definition wlen (w : wop) : N := N.of_nat (length (w_data w)).
Definition is_write (w : wop) : bool := w_kind w =? 0.
Definition is_commit (w : wop) : bool := w_kind w =? 1.
Definition covers (w : wop) (p : path) (x : N) : bool :=
  is_write w && path_eqb (w_path w) p && (w_off w <=? x) && (x <? w_off w + wlen w).
Definition byte_of (w : wop) (x : N) : N := nth (N.to_nat (x - w_off w)) (w_data w) 0.
(* COMMIT c (offset, count; count 0 = up to the end of the file) covers the whole range of w *)
Definition commit_covers (c w : wop) : bool :=
  path_eqb (w_path c) (w_path w) && (w_off c <=? w_off w) && ((w_cnt c =? 0) || (w_off w + wlen w <=? w_off c + w_cnt c)).
Definition stable_at (ops : list wop) (T : N) (w : wop) : bool :=
  is_write w && w_ok w && (w_resp w <? T) && (0 <? wlen w) &&
  ((1 <=? w_committed w) ||
   existsb (fun c => is_commit c && w_ok c && (w_resp w <? w_inv c) && (w_resp c <? T) && commit_covers c w) ops).
(* w' may be what the disk holds at x: it wrote x, and no stable write of x began after w' had finished
   ([st] = the writes that are stable at T, computed once per dump) *)
Definition admissible (st : list wop) (T : N) (p : path) (x : N) (w' : wop) : bool :=
  covers w' p x && (w_inv w' <? T) && negb (existsb (fun w => covers w p x && (w_resp w' <? w_inv w)) st).
Definition byte_ok (ops st : list wop) (T : N) (d : list dump_entry) (p : path) (x : N) : bool :=
  match d_get d p with
  | Some e => kind_eqb (d_kind e) KFile && (x <? d_size e) &&
              existsb (fun w' => (byte_of w' x =? sd_get (d_data e) x) && admissible st T p x w') ops
  | None => false
  end.
Fixpoint offsets (off : N) (n : nat) : list N := match n with O => [] | S k => off :: offsets (off + 1) k end.
(* the stable writes whose bytes are not all accounted for in the durable tree d taken at T *)
Definition dump_broken (ops : list wop) (td : N * list dump_entry) : list wop :=
  let T := fst td in
  let st := filter (stable_at ops T) ops in
  filter (fun w => negb (forallb (byte_ok ops st T (snd td) (w_path w)) (offsets (w_off w) (length (w_data w))))) st.

Definition st_deadlock : N := 9001.  Definition st_panic : N := 9002.  Definition st_verf : N := 9010.  Definition st_race : N := 9009.
Definition verfs (ops : list wop) : list N := flat_map (fun w => match w_verf w with Some v => [v] | None => [] end) ops.
Definition verf_ok (ops : list wop) : bool := match verfs ops with [] => true | v :: r => forallb (N.eqb v) r end.

Definition check (c : case) : list (N * N) :=
  if q_deadlock c then [(st_deadlock, code_specfail)] else
  (if q_panic c then [(st_panic, code_specfail)] else []) ++
  (if q_race c then [(st_race, code_specfail)] else []) ++
  first_only (flat_map (fun td => map (fun w => (w_id w, code_specfail)) (dump_broken (q_ops c) td)) (q_dumps c)) ++
  (if verf_ok (q_ops c) then [] else [(st_verf, code_specfail)]).
Definition run (cs : list case) : result := run_cases check cs.
