(* Corr/Common.v — shared vocabulary of the correspondence files.
   A correspondence run evaluates, inside Coq, for every case the Go harness produced from the
   current /repo: (1) model output = implementation output on the property's projection,
   (2) the executable spec-layer statement of the property on the implementation's own output.
   Result entries are (case index, step index, code). *)
From Coq Require Import List NArith Bool.
Import ListNotations.
Open Scope N_scope.

Definition code_mismatch : N := 1.   (* model and implementation disagree on the projection *)
Definition code_specfail : N := 2.   (* the property's statement fails on the implementation's output *)
Definition code_known : N := 3.      (* spec failure matching a known-finding signature (code 100+k = finding k) *)

Definition result := list (N * N * N).

Fixpoint index_from {A} (i : N) (l : list A) : list (N * A) :=
  match l with [] => [] | x :: r => (i, x) :: index_from (i + 1) r end.

(* first index at which two lists differ (by a boolean equality), if any; length difference counts *)
Fixpoint first_diff {A} (eqb : A -> A -> bool) (i : N) (a b : list A) : option N :=
  match a, b with
  | [], [] => None
  | x :: a', y :: b' => if eqb x y then first_diff eqb (i + 1) a' b' else Some i
  | _, _ => Some i
  end.

Fixpoint list_eqb {A} (eqb : A -> A -> bool) (a b : list A) : bool :=
  match a, b with
  | [], [] => true
  | x :: a', y :: b' => eqb x y && list_eqb eqb a' b'
  | _, _ => false
  end.
Definition pair_eqb {A B} (ea : A -> A -> bool) (eb : B -> B -> bool) (x y : A * B) : bool :=
  ea (fst x) (fst y) && eb (snd x) (snd y).
Definition option_eqb {A} (e : A -> A -> bool) (x y : option A) : bool :=
  match x, y with Some a, Some b => e a b | None, None => true | _, _ => false end.

Fixpoint nodupb {A} (eqb : A -> A -> bool) (l : list A) : bool :=
  match l with [] => true | x :: r => negb (existsb (eqb x) r) && nodupb eqb r end.

Definition run_cases {C} (check : C -> list (N * N)) (cases : list C) : result :=
  flat_map (fun ic => map (fun sc => (fst ic, fst sc, snd sc)) (check (snd ic))) (index_from 0 cases).
