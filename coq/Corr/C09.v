(* Corr/C09.v — correspondence + spec oracle for host filtering and the request gate (C09).
   A case is one allow-list (as configured strings, given here in the parsed form produced by the
   driver's net/netip oracle) with the Secure flag, and a list of probes: a client address string
   and port presented (a) to auth.go isIPAllowed, (b) to Server.isIPAllowed, (c) inside an RPC call
   to HandleCall on a server with that policy.  Step index of a result = index of the probe.
   Addresses are four little-endian 32-bit limbs of the 16-byte form (Corr/AuthInts.v). *)
From Coq Require Import List NArith ZArith Bool Uint63.
From Verif Require Import Model.Auth Model.IpFilter Corr.Common Corr.AuthInts.
Import ListNotations.
Open Scope N_scope.

Inductive ientry :=
  | IS (p : option (list int))                      (* entry without '/' : parsed address or None *)
  | ICd (p : option (list int * bool * int)).       (* entry with '/' : address, IPv4 literal?, prefix length; None = syntax error *)

Inductive iprobe := PR
  (draining : bool)              (* the call was made while a policy update held policyRWMu (TryRLock fails) *)
  (client : option (list int)) (port : int) (flavor : int)
  (* observed *)
  (d_auth d_srv : bool)          (* isIPAllowed(client, list), Server.isIPAllowed(client) *)
  (denied : bool)                (* HandleCall reply.Status = MSG_DENIED *)
  (backend_calls : int)          (* backend calls recorded during HandleCall *)
  (table_unchanged : bool).      (* handle table and attribute cache sizes as before *)

Inductive icase := IC9 (entries : list ientry) (secure : bool) (probes : list iprobe).
Definition case := icase.

Definition entry_of (e : ientry) : entry :=
  match e with
  | IS p => ESingle (option_map n_of_limbs p)
  | ICd None => ECidr None
  | ICd (Some (a, is4, n)) => ECidr (Some (n_of_limbs a, is4, n_of n))
  end.

(* the AUTH_SYS credential the driver sends with flavour 1: stamp 1, machine "h", uid 1000, gid 1000, no gids *)
Definition sys_body : list N := [0;0;0;1; 0;0;0;1; 104;0;0;0; 0;0;3;232; 0;0;3;232; 0;0;0;0].

Definition request_of (client : option (list int)) (port flavor : int) : request :=
  {| rq_client := option_map n_of_limbs client; rq_port := Uint63.to_Z port; rq_flavor := n_of flavor;
     rq_body := (if n_of flavor =? AUTH_SYS then sys_body else []); rq_prog := 0; rq_vers := 0; rq_proc := 0; rq_args := [] |}.

(* ---- (1) code-level model: both filters and the reply kind ---- *)
Definition probe_mismatch (pol : policy) (p : iprobe) : bool :=
  match p with
  | PR draining client port flavor d_auth d_srv denied calls unchanged =>
      let rq := request_of client port flavor in
      (* handle_call with a dispatcher that leaves a trace: state 0 -> 1, one backend call *)
      let '(st', kind, _, log) :=
        handle_call N N N (fun st _ _ _ _ => (st + 1, 0, [0])) 0 pol draining rq in
      let kind_ok := match kind with
                     | MsgDenied => denied
                     | MsgAccepted => negb denied
                     | DrainReply => negb denied && (n_of calls =? 0) && unchanged   (* drainReply: accepted-shaped, no dispatch *)
                     end in
      negb (Bool.eqb (auth_is_ip_allowed (rq_client rq) (pol_allowed pol)) d_auth &&
            Bool.eqb (server_is_ip_allowed true (rq_client rq) (pol_allowed pol)) d_srv &&
            kind_ok)
  end.

(* ---- (2) the property's statement on the implementation's own output ---- *)
Definition member (c : option N) (entries : list entry) : bool :=
  match c with Some c16 => existsb (lies_in c16) entries | None => false end.
Definition member_same_family (c : option N) (entries : list entry) : bool :=
  match c with Some c16 => existsb (fun e => lies_in c16 e && negb (family_gap c16 e)) entries | None => false end.

Definition probe_specfail (pol : policy) (p : iprobe) : bool :=
  match p with
  | PR draining client port flavor d_auth d_srv denied calls unchanged =>
      let c := option_map n_of_limbs client in
      let nonempty := match pol_allowed pol with [] => false | _ => true end in
      negb (
        (* the request-time filter admits members only, and every same-family member *)
        implb d_auth (member c (pol_allowed pol)) &&
        implb (member_same_family c (pol_allowed pol)) d_auth &&
        (* the connection-level filter applies the same rule *)
        Bool.eqb d_srv (if nonempty then d_auth else true) &&
        (* processed only if listed (when a list is configured) and from a privileged port (when Secure);
           a call answered by drainReply is not processed: it must leave no trace at all *)
        (if draining then (n_of calls =? 0) && unchanged
         else implb (negb denied) ((negb nonempty || member c (pol_allowed pol)) &&
                                   (negb (pol_secure pol) || (Uint63.to_Z port <? 1024)%Z))) &&
        (* denied: no handler, no backend call *)
        implb denied ((n_of calls =? 0) && unchanged))
  end.

Definition check (c : case) : list (N * N) :=
  match c with
  | IC9 entries secure probes =>
      let pol := {| pol_allowed := map entry_of entries; pol_secure := secure; pol_squash := [] |} in
      flat_map (fun ip =>
          (if probe_specfail pol (snd ip) then [(fst ip, code_specfail)] else []) ++
          (if probe_mismatch pol (snd ip) then [(fst ip, code_mismatch)] else []))
        (index_from 0 probes)
  end.
Definition run (cs : list case) : result := run_cases check cs.
