(* Corr/C12.v — correspondence + spec oracle for ACCESS (C12).
   A case packs many points; a point is one ACCESS call made on the real handler
   (HandleCall -> ValidateAuthentication -> handleAccess) with the observed `access` word of the reply.
   Step index of a result = index of the point inside the case. *)
From Coq Require Import List NArith ZArith Bool.
From Coq Require Import Uint63.
From Verif Require Import Model.Access Corr.Common Corr.AuthInts.
Import ListNotations.
Open Scope N_scope.

Record point := {
  p_mode : N;            (* os.FileMode reported by the backend's Lstat, as a number *)
  p_fuid : N; p_fgid : N; (* owner and group of the object as GetAttr reports them *)
  p_euid : N; p_egid : N; (* effective ids the handler saw *)
  p_aux : option (list N); (* AuthSys.AuxGIDs; None = no AUTH_SYS credential (AUTH_NONE) *)
  p_access : N;          (* requested mask (any 32-bit value) *)
  p_ro : bool;           (* export read-only *)
  p_obs : N              (* `access` word of the ACCESS3resok reply *)
}.

(* as written by the driver: the same fields, in this order, as primitive integers (see AuthInts.v) *)
Inductive ipoint := IP (mode fuid fgid euid egid : int) (aux : option (list int)) (access : int) (ro : bool) (obs : int).
Definition point_of (p : ipoint) : point :=
  match p with
  | IP mode fuid fgid euid egid aux access ro obs =>
      {| p_mode := n_of mode; p_fuid := n_of fuid; p_fgid := n_of fgid; p_euid := n_of euid; p_egid := n_of egid;
         p_aux := option_map ns_of aux; p_access := n_of access; p_ro := ro; p_obs := n_of obs |}
  end.
Definition case := list ipoint.

Definition caller_of (p : point) : caller :=
  {| eff_uid := p_euid p; eff_gid := p_egid p; aux_gids := p_aux p |}.

(* (1) model vs implementation *)
Definition point_mismatch (p : point) : bool :=
  negb (handle_access (p_mode p) (p_fuid p) (p_fgid p) (caller_of p) (p_access p) (p_ro p) =? p_obs p).

(* (2) the statement of C12 on the implementation's own output, without the code-level model:
   granted ⊆ requested and granted = the UNIX rule *)
Definition point_specfail (p : point) : bool :=
  negb ((N.land (p_obs p) (p_access p) =? p_obs p) &&
        (p_obs p =? unix_access (p_mode p) (p_fuid p) (p_fgid p) (caller_of p) (p_access p) (p_ro p))).

Definition check (c : case) : list (N * N) :=
  flat_map (fun ip =>
      (if point_specfail (snd ip) then [(fst ip, code_specfail)] else []) ++
      (if point_mismatch (snd ip) then [(fst ip, code_mismatch)] else []))
    (index_from 0 (map point_of c)).
Definition run (cs : list case) : result := run_cases check cs.
