(* Corr/C12.v — correspondence + spec oracle for ACCESS (C12).
   A case packs many points; a point is one ACCESS call made on the real server path
   (HandleCall -> ValidateAuthentication -> applySquashing -> handleAccess) on an export whose
   squash mode is none, root or all, with the RAW AUTH_SYS credential that was sent and the observed
   `access` word of the reply.  The property is about the EFFECTIVE identity: the oracle derives it
   from the raw credential with the squash table of Model/Auth.v (C10_table) and judges the reply
   by it; the effective ids HandleCall stored in the AuthContext are compared too.
   Step index of a result = index of the point inside the case. *)
From Coq Require Import List NArith ZArith Bool.
From Coq Require Import Uint63.
From Verif Require Import Model.Access Model.Auth Corr.Common Corr.AuthInts.
Import ListNotations.
Open Scope N_scope.

Record point := {
  p_mode : N;            (* os.FileMode reported by the backend's Lstat, as a number *)
  p_fuid : N; p_fgid : N; (* owner and group of the object as GetAttr reports them *)
  p_euid : N; p_egid : N; (* effective ids: squash table applied to the raw credential *)
  p_aux : option (list N); (* effective auxiliary gids; None = no AUTH_SYS credential (AUTH_NONE) *)
  p_ctx_uid : N; p_ctx_gid : N; (* AuthContext.EffectiveUID/GID as HandleCall stored them *)
  p_access : N;          (* requested mask (any 32-bit value) *)
  p_ro : bool;           (* export read-only *)
  p_obs : N              (* `access` word of the ACCESS3resok reply *)
}.

(* as written by the driver, as primitive integers (see AuthInts.v):
   object mode/owner/group; export squash mode; raw uid, gid, auxiliary gids of the credential
   (None = AUTH_NONE); effective ids found in the AuthContext; mask; read-only; observed word *)
Inductive ipoint :=
  IP (mode fuid fgid : int) (squash : skind) (ruid rgid : int) (raux : option (list int))
     (ctx_uid ctx_gid : int) (access : int) (ro : bool) (obs : int).
Definition point_of (p : ipoint) : point :=
  match p with
  | IP mode fuid fgid squash ruid rgid raux cu cg access ro obs =>
      let eff := match raux with
                 | Some a => let t := squash_table squash (n_of ruid) (n_of rgid) (ns_of a) in
                             (fst (fst t), snd (fst t), Some (snd t))
                 | None => (nobody, nobody, None)      (* AUTH_NONE: nobody/nobody, no AuthSys *)
                 end in
      {| p_mode := n_of mode; p_fuid := n_of fuid; p_fgid := n_of fgid;
         p_euid := fst (fst eff); p_egid := snd (fst eff); p_aux := snd eff;
         p_ctx_uid := n_of cu; p_ctx_gid := n_of cg;
         p_access := n_of access; p_ro := ro; p_obs := n_of obs |}
  end.
Definition case := list ipoint.

Definition caller_of (p : point) : caller :=
  {| eff_uid := p_euid p; eff_gid := p_egid p; aux_gids := p_aux p |}.

(* (1) model vs implementation *)
Definition point_mismatch (p : point) : bool :=
  negb ((handle_access (p_mode p) (p_fuid p) (p_fgid p) (caller_of p) (p_access p) (p_ro p) =? p_obs p) &&
        (p_ctx_uid p =? p_euid p) && (p_ctx_gid p =? p_egid p)).

(* (2) the statement of C12 on the implementation's own output, without the code-level model:
   granted ⊆ requested and granted = the UNIX rule *)
Definition point_specfail (p : point) : bool :=
  negb ((N.land (p_obs p) (p_access p) =? p_obs p) &&
        (p_obs p =? unix_access (p_mode p) (p_fuid p) (p_fgid p) (caller_of p) (p_access p) (p_ro p))).

Definition check (c : case) : list (N * N) :=
  flat_map (fun ip =>
      (if point_specfail (snd ip) then [(fst ip, code_specfail)] else []) ++
      (if point_mismatch (snd ip) then [(fst ip, code_mismatch)] else []))
    (index_from 0 (map point_of c)).
Definition run (cs : list case) : result := run_cases check cs.
