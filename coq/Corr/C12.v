(* Corr/C12.v — correspondence + spec oracle for ACCESS (C12).
   A case packs many points; a point is one ACCESS call made on the real handler
   (HandleCall -> ValidateAuthentication -> handleAccess) with the observed `access` word of the reply.
   Step index of a result = index of the point inside the case. *)
From Coq Require Import List NArith ZArith Bool.
From Verif Require Import Model.Access Corr.Common.
Import ListNotations.
Open Scope N_scope.

Record point := {
  p_mode : N;            (* os.FileMode reported by the backend's Lstat, as a number *)
  p_fuid : N; p_fgid : N; (* owner and group of the object as GetAttr reports them *)
  p_euid : N; p_egid : N; (* effective ids the handler saw *)
  p_aux : option (list N); (* AuthSys.AuxGIDs; None = no AUTH_SYS credential (AUTH_NONE) *)
  p_access : N;          (* requested mask (any 32-bit value) *)
  p_ro : bool;           (* export read-only *)
  p_obs : N              (* `access` word of the ACCESS3resok reply *)
}.
Definition case := list point.

Definition caller_of (p : point) : caller :=
  {| eff_uid := p_euid p; eff_gid := p_egid p; aux_gids := p_aux p |}.

(* (1) model vs implementation *)
Definition point_mismatch (p : point) : bool :=
  negb (handle_access (p_mode p) (p_fuid p) (p_fgid p) (caller_of p) (p_access p) (p_ro p) =? p_obs p).

(* (2) the statement of C12 on the implementation's own output, without the code-level model:
   granted ⊆ requested and granted = the UNIX rule *)
Definition point_specfail (p : point) : bool :=
  negb ((N.land (p_obs p) (p_access p) =? p_obs p) &&
        (p_obs p =? unix_access (p_mode p) (p_fuid p) (p_fgid p) (caller_of p) (p_access p) (p_ro p))).

Definition check (c : case) : list (N * N) :=
  flat_map (fun ip =>
      (if point_specfail (snd ip) then [(fst ip, code_specfail)] else []) ++
      (if point_mismatch (snd ip) then [(fst ip, code_mismatch)] else []))
    (index_from 0 c).
Definition run (cs : list case) : result := run_cases check cs.
