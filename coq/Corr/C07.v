(* Corr/C07.v — the backend only sees clean in-export paths; symlink targets stay contained.
   (1) model projection: per request, the SET of raw path strings passed to the backend equals the set of
       rendered paths of the model's calls; symlink targets and READLINK replies equal the model's;
   (2) the statement on the implementation's observations: every raw path string is absolute and
       normalized, and is a handle's path, a handle's path joined with one validated component, or (MNT)
       the cleaned path a handle is requested for; no Symlink call has an absolute target or a ".."
       component; no READLINK reply carries a relative target with a ".." component. *)
From Coq Require Import List NArith ZArith Bool.
From Verif Require Import Model.Handles Model.Backend Model.Srv Corr.Common Corr.SrvCase.
Import ListNotations.
Open Scope N_scope.

Definition mem_bytes (x : list N) (l : list (list N)) : bool := existsb (bytes_eqb x) l.
Definition set_eqb (a b : list (list N)) : bool := forallb (fun x => mem_bytes x b) a && forallb (fun x => mem_bytes x a) b.
Definition model_raw (l : list bcall) : list (list N) :=
  flat_map (fun b => match b_op b with BRename => [render (b_path b); b_path2 b] | _ => [render (b_path b)] end) l.
Definition symlink_targets (l : list bcall) : list (list N) :=
  flat_map (fun b => match b_op b with BSymlink => [b_path2 b] | _ => [] end) l.

Definition obs_proj_eqb (a b : obs) : bool :=
  (ob_rpc a =? ob_rpc b) && (ob_status a =? ob_status b) && bytes_eqb (ob_bytes a) (ob_bytes b).
Definition mismatch (c : case) : list (N * N) :=
  first_only (walk_case (fun i _ s' o x =>
     if negb (obs_proj_eqb o (i_obs x)) then [(i, code_mismatch)]
     else if negb (set_eqb (model_raw (blog s')) (i_raw x)) then [(i, code_mismatch)]
     else if negb (list_eqb bytes_eqb (symlink_targets (rev (blog s'))) (symlink_targets (i_calls x))) then [(i, code_mismatch)]
     else []) 0 (init_of c) (c_steps c)).

(* ---- the statement, on raw strings ---- *)
(* absolute and normalized: "/" or "/c1/c2/..." with no empty, "." or ".." component *)
Definition clean_abs (s : list N) : bool :=
  is_abs s &&
  match s with
  | [_] => true                                  (* "/" *)
  | _ => let comps := raw_split (tl s) in
         forallb (fun c => negb (match c with [] => true | _ => false end) && negb (is_dot c) && negb (is_dotdot c)) comps
  end.
Definition comps_of (s : list N) : path := match s with [_] => [] | _ => raw_split (tl s) end.

Definition allowed_path (handles : list path) (mnt : option path) (s : list N) : bool :=
  clean_abs s &&
  let p := comps_of s in
  existsb (path_eqb p) handles
  || existsb (fun hp => match rev p with c :: rp => path_eqb (rev rp) hp && (validate_name c =? st_ok) | [] => false end) handles
  || match mnt with Some m => match p with [] => false | _ => is_prefix p m end | None => false end.   (* MNT: the cleaned path and its prefixes *)

Definition spec_step (x : octx) : list (N * N) :=
  let st := oc_step x in let r := hs_req (i_step st) in
  (* handle paths known before the step, plus those issued by this very step (READDIRPLUS allocates while it works) *)
  let hs := [] :: map snd (oc_first x) ++ map snd (oc_ghost x) ++ map snd (ghost_update (oc_ghost x) st) in
  let mnt := match r with RMnt p => if is_abs p then Some (clean_comps [] (split_path p)) else None | _ => None end in
  let bad_path := existsb (fun s => negb (allowed_path hs mnt s)) (i_raw st) in
  let bad_target := existsb (fun t => is_abs t || target_has_dotdot t) (symlink_targets (i_calls st)) in
  let bad_readlink := match r with
                      | RReadlink _ => status_ok st && negb (is_abs (ob_bytes (i_obs st))) && target_has_dotdot (ob_bytes (i_obs st))
                      | _ => false end in
  if bad_path || bad_target || bad_readlink then [(oc_i x, code_specfail)] else [].
Definition specfail (c : case) : list (N * N) := first_only (oracle spec_step c).

Definition check (c : case) : list (N * N) := specfail c ++ mismatch c.
Definition run (cs : list case) : result := run_cases check cs.
