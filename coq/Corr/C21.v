(* Corr/C21.v — correspondence + spec oracle for AttrCache / DirCache / isChildOf (C21).
   A case is a history run on the real cache (virtual clock) with the observation of every step:
   Get result, Size(), capacity, NegativeStats().
     code 1: the code-level model (Model/Cache.v, attr_run_obs / dir_run_obs / is_child_of) disagrees
             with the implementation;
     code 2: the implementation disagrees with the abstract TTL-LRU specification evaluated directly on
             the history (sa_run_obs with the declarative direct-child rule / sd_run_obs), or breaks a
             statement checked on its own output (size <= capacity, negative results only while negative
             caching is enabled, copy isolation flag, isChildOf = parent rule on absolute paths; for the
             concurrent stress stream: any round that ended with a broken statement). *)
From Coq Require Import List NArith ZArith Bool.
From Verif Require Import Model.Cache Corr.Common.
Import ListNotations.
Open Scope N_scope.

Definition attrs := list N.          (* Mode, Size, FileId, Uid, Gid, mtime ns, atime ns *)
Definition dent := N.                (* a directory entry is identified by a number *)

(* one step of a history as the driver prints it: the clock at the call, the call, the observation *)
Definition astep := ((N * attr_op attrs) * attr_obs attrs)%type.
Definition dstep := ((N * dir_op dent) * dir_obs dent)%type.

Inductive case :=
| AttrCase (ttl mx : Z) (steps : list astep) (iso : bool)
| DirCase (timeout mxe mxd : Z) (steps : list dstep) (iso : bool)
| ChildCase (p d : path) (r : bool)
| RaceCase (rounds bad : N).        (* concurrent stress: number of rounds / of rounds that broke a statement *)

(* short constructors for the driver's output *)
Definition ao (r : option (get_result attrs)) (size mx negs : N) : attr_obs attrs :=
  {| o_res := r; o_size := size; o_max := mx; o_negs := negs |}.
Definition dob (r : option (option (list dent))) (size mx : N) : dir_obs dent :=
  {| d_res := r; d_size := size; d_max := mx |}.

(* compact step constructors (Coq spends ~0.5 ms per list element and literal, so the driver prints one
   application per step).  t is the clock as an offset from the case's start (10^12 ns); an attribute block
   the driver generated is named by its number i (mk_attrs i); a block read back from the cache is printed
   by number only if all seven fields are those of mk_attrs i, otherwise in full (GX). *)
Definition base_clock : N := 1000000000000.
Definition mk_attrs (i : N) : attrs :=
  [nth (N.to_nat (i mod 4)) [420; 493; 16877; 41471] 0; i; 3 * i + 1; i mod 5; i mod 7; 1000 * i + 5; i + 9].
Definition P t k i s m n : astep := ((base_clock + t, APut k (mk_attrs i)), ao None s m n).
Definition PN t k s m n : astep := ((base_clock + t, APutNegative k), ao None s m n).
Definition GM t k s m n : astep := ((base_clock + t, AGet k), ao (Some Miss) s m n).
Definition GN t k s m n : astep := ((base_clock + t, AGet k), ao (Some NegHit) s m n).
Definition GH t k i s m n : astep := ((base_clock + t, AGet k), ao (Some (Hit (mk_attrs i))) s m n).
Definition GX t k (a : attrs) s m n : astep := ((base_clock + t, AGet k), ao (Some (Hit a)) s m n).
Definition IV t k s m n : astep := ((base_clock + t, AInvalidate k), ao None s m n).
Definition ID t k s m n : astep := ((base_clock + t, AInvalidateNegativeInDir k), ao None s m n).
Definition IT t k s m n : astep := ((base_clock + t, AInvalidateTree k), ao None s m n).
Definition RS t (z : Z) s m n : astep := ((base_clock + t, AResize z), ao None s m n).
Definition UT t (z : Z) s m n : astep := ((base_clock + t, AUpdateTTL z), ao None s m n).
Definition CL t s m n : astep := ((base_clock + t, AClear), ao None s m n).
Definition CF t (b : bool) (z : Z) s m n : astep := ((base_clock + t, AConfigureNegative b z), ao None s m n).
Definition DP t k (es : list dent) s m : dstep := ((base_clock + t, DPut k es), dob None s m).
Definition DG0 t k s m : dstep := ((base_clock + t, DGet k), dob (Some None) s m).
Definition DG1 t k (es : list dent) s m : dstep := ((base_clock + t, DGet k), dob (Some (Some es)) s m).
Definition DI t k s m : dstep := ((base_clock + t, DInvalidate k), dob None s m).
Definition DT t k s m : dstep := ((base_clock + t, DInvalidateTree k), dob None s m).
Definition DR t (z : Z) s m : dstep := ((base_clock + t, DResize z), dob None s m).
Definition DU t (z : Z) s m : dstep := ((base_clock + t, DUpdateTTL z), dob None s m).
Definition DC t s m : dstep := ((base_clock + t, DClear), dob None s m).

Definition attrs_eqb : attrs -> attrs -> bool := list_eqb N.eqb.
Definition gres_eqb (a b : get_result attrs) : bool :=
  match a, b with
  | Miss, Miss => true | NegHit, NegHit => true | Hit x, Hit y => attrs_eqb x y | _, _ => false
  end.
Definition aobs_eqb (a b : attr_obs attrs) : bool :=
  option_eqb gres_eqb (o_res a) (o_res b) && (o_size a =? o_size b) && (o_max a =? o_max b) && (o_negs a =? o_negs b).
Definition dobs_eqb (a b : dir_obs dent) : bool :=
  option_eqb (option_eqb (list_eqb N.eqb)) (d_res a) (d_res b) && (d_size a =? d_size b) && (d_max a =? d_max b).

Definition diff_code {A} (eqb : A -> A -> bool) (code : N) (expected observed : list A) : list (N * N) :=
  match first_diff eqb 0 expected observed with Some i => [(i, code)] | None => [] end.

(* statements checked on the implementation's observations alone *)
Fixpoint attr_direct (i : N) (negon : bool) (h : list (N * attr_op attrs)) (obs : list (attr_obs attrs)) : list (N * N) :=
  match h, obs with
  | to :: h', o :: obs' =>
    let negon' := match snd to with AConfigureNegative on _ => on | _ => negon end in
    let neg_seen := negb (o_negs o =? 0) || match o_res o with Some NegHit => true | _ => false end in
    if (o_size o <=? o_max o) && (negon' || negb neg_seen) && (o_negs o <=? o_size o)
    then attr_direct (i + 1) negon' h' obs' else [(i, code_specfail)]
  | _, _ => []
  end.
Fixpoint dir_direct (i : N) (obs : list (dir_obs dent)) : list (N * N) :=
  match obs with
  | o :: obs' => if d_size o <=? d_max o then dir_direct (i + 1) obs' else [(i, code_specfail)]
  | [] => []
  end.

Definition check (c : case) : list (N * N) :=
  match c with
  | AttrCase ttl mx steps iso =>
    let h := map fst steps in let obs := map snd steps in
    (if iso then [] else [(0, code_specfail)]) ++
    attr_direct 0 false h obs ++
    diff_code aobs_eqb code_specfail (sa_run_obs direct_child_b (sa_new ttl mx) h) obs ++
    diff_code aobs_eqb code_mismatch (attr_run_obs (new_attr_cache ttl mx) h) obs
  | DirCase t mxe mxd steps iso =>
    let h := map fst steps in let obs := map snd steps in
    (if iso then [] else [(0, code_specfail)]) ++
    dir_direct 0 obs ++
    diff_code dobs_eqb code_specfail (sd_run_obs (sd_new t mxe mxd) h) obs ++
    diff_code dobs_eqb code_mismatch (dir_run_obs (new_dir_cache t mxe mxd) h) obs
  | ChildCase p d r =>
    (if Bool.eqb r (if is_abs p then direct_child_b p d else direct_child_b p d || root_quirk p d)
     then [] else [(0, code_specfail)]) ++
    (if Bool.eqb r (is_child_of p d) then [] else [(0, code_mismatch)])
  | RaceCase rounds bad => if bad =? 0 then [] else [(0, code_specfail)]
  end.
Definition run (cs : list case) : result := run_cases check cs.
