(* Corr/C06.v — a handle value never silently refers to a different object.
   Oracle: every request carrying handle value v is served against the FIRST path v was issued for,
   or answered NFS3ERR_STALE.  "Served against" is read off the reply: the fileid of the handle's own
   attribute block is FNV-1a-64 of the path the server used.  A mismatch whose fileid is that of the
   path v was most recently reissued for is the known finding k=1 (handle ids are recycled through
   the free list after eviction) - but only on exports with a handle limit: without one nothing is ever evicted,
   no request releases a handle, and a reissued value is a violation like any other. *)
From Coq Require Import List NArith ZArith Bool.
From Verif Require Import Model.Handles Model.Backend Model.Srv Corr.Common Corr.SrvCase.
Import ListNotations.
Open Scope N_scope.

Definition obs_proj_eqb (a b : obs) : bool :=
  (ob_rpc a =? ob_rpc b) && (ob_status a =? ob_status b) && option_eqb N.eqb (ob_fh a) (ob_fh b) &&
  list_eqb (option_eqb (fun x y => fa_fileid x =? fa_fileid y)) (ob_attrs a) (ob_attrs b) &&
  list_eqb (fun x y => option_eqb N.eqb (de_fh x) (de_fh y)) (ob_entries a) (ob_entries b).
Definition mismatch (c : case) : list (N * N) :=
  first_only (walk_case (fun i _ s' o x =>
     if negb (obs_proj_eqb o (i_obs x)) then [(i, code_mismatch)]
     else if negb (count (hm s') =? i_nh x) then [(i, code_mismatch)]
     else []) 0 (init_of c) (c_steps c)).

(* the handle whose own attributes come first in the reply *)
Definition own_handle (r : req) : option N :=
  match r with
  | RGetattr h | RAccess h _ | RReadlink h | RRead h _ _ | RFsstat h | RFsinfo h | RPathconf h
  | RSetattr h _ _ | RWrite h _ _ _ _ | RCommit h _ _ | RReaddir h _ _ | RReaddirplus h _ _ _ => Some h
  | _ => None
  end.
Definition spec_step (limited : bool) (x : octx) : list (N * N) :=
  let st := oc_step x in let o := i_obs st in
  match own_handle (hs_req (i_step st)) with
  | Some v =>
      if negb ((ob_rpc o =? 0) && (ob_status o =? 0)) then [] else
      match g_get (oc_first x) v, nth 0%nat (ob_attrs o) None with
      | Some p0, Some a =>
          if fa_fileid a =? fileid_of p0 then []
          else match g_get (oc_ghost x) v with
               | Some p1 => if (fa_fileid a =? fileid_of p1) && limited then [(oc_i x, 101)] else [(oc_i x, code_specfail)]
               | None => [(oc_i x, code_specfail)]
               end
      | None, Some _ => [(oc_i x, code_specfail)]      (* a value never issued was served *)
      | _, None => []
      end
  | None => []
  end.
Definition specfail (c : case) : list (N * N) := oracle (spec_step (0 <? c_maxh c)%Z) c.
Definition check (c : case) : list (N * N) := specfail c ++ mismatch c.
Definition run (cs : list case) : result := run_cases check cs.
