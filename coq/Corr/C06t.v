(* Corr/C06t.v — C06 at the handle table: values across ReleaseAll (Unexport / Close followed by re-export).
   Same case format as Corr/C05 (histories on the real FileHandleMap).  Model comparison as in C05; oracle on
   the implementation's observations: a value that had been issued before a ReleaseAll is never returned by
   a later Allocate (C06_release_all_fresh / C06_no_reissue_across_release_all are the theorems), and after
   ReleaseAll the table is empty.  Reuse after eviction or Release is the known finding k=1 and is not
   flagged here. *)
From Coq Require Import List NArith ZArith Bool.
From Verif Require Import Model.Handles Corr.Common Corr.C05.
Import ListNotations.
Open Scope N_scope.

Definition case := C05.case.
Fixpoint walk (i : N) (issued retired : list N) (ops : list (op N)) (os : list obs) : list (N * N) :=
  match ops, os with
  | o :: ops', ob :: os' =>
      match o with
      | Alloc _ =>
          if existsb (N.eqb (fst ob)) retired then [(i, code_specfail)]
          else walk (i + 1) (fst ob :: issued) retired ops' os'
      | ReleaseAll =>
          if negb (match snd ob with [] => true | _ => false end) then [(i, code_specfail)]
          else walk (i + 1) [] (issued ++ retired) ops' os'
      | Release _ => walk (i + 1) issued retired ops' os'
      end
  | _, _ => []
  end.
Definition specfail (c : case) : list (N * N) := walk 0 [] [] (c_ops c) (c_obs c).
Definition check (c : case) : list (N * N) := specfail c ++ mismatch c.
Definition run (cs : list case) : result := run_cases check cs.
