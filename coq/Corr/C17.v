(* Corr/C17.v — correspondence + spec oracle for the connection lifecycle (C17).
   A case is a schedule enacted on a real server over loopback TCP (created by AbsfsNFS.Export, small MaxConnections and
   IdleTimeout, the reaper's time.Now on the harness's virtual clock, its ticker real):
   * an EXACT part: sequential client actions (open, use, close, advance the clock and let the reaper tick, Stop) each
     expanded by the driver into the LTS steps it stands for; the last label of every action carries what was observed
     once the server was quiet:  [connCount; len(activeConns); server goroutines; served connection ids ...]
     (server goroutines = goroutines with acceptLoop / idleConnectionCleanupLoop / handleConnectionLoop on their stack;
      served = connections whose client got a reply and has not seen the socket closed);
   * an optional RACY part, judged by the oracle only: concurrent opens/closes (peak simultaneously served connections as
     seen by the clients, counters at the next quiet point), Stop called during such a burst, then Close / Close /
     Unexport / Stop on the AbsfsNFS (c_after).
   (1) mismatch: the LTS accepts the exact trace and predicts every observation; the nfs model predicts the counts after
       Close/Unexport.  (2) specfail: the property's statement on the observations alone. *)
From Coq Require Import List NArith ZArith Bool.
From Verif Require Import Model.ConnLTS Corr.Common.
Import ListNotations.
Open Scope N_scope.

Record case := {
  c_max : Z; c_idle : N; c_enacted : bool;
  c_ids : list N;                         (* every connection id used in the exact part, ascending *)
  c_trace : list (label * list N);
  c_after : list (N * list N);            (* 1 churn [peak; cnt; act; open]  2 stop [ok; cnt; act; gor]
                                             3 close / 4 unexport [err; handles; attr; dir; pool; server]
                                             5 stop / 6 close / 7 unexport with requests held in the backend
                                             (oracle only, see after_ok; the LTS has no step for a request's
                                             backend work, so there is no model side for these entries) *)
  c_nfs_ops : list nop }.                 (* what was done to the AbsfsNFS, in order (for the nfs model) *)

Definition b2n (b : bool) : N := if b then 1 else 0.
Definition nth_obs (o : list N) (i : nat) : N := nth i o 0.

(* ---------- (1) model vs implementation ---------- *)
Definition served_b (s : state) (c : N) : bool :=
  match conns s c with
  | Some k => match k_pc k with KServing => negb (k_closed k) | _ => false end
  | None => false
  end.
Definition model_obs (ids : list N) (s : state) : list N :=
  [Z.to_N (count s); N.of_nat (length (active s));
   b2n (acc_live s) + b2n (reaper_live s) + N.of_nat (length (live s))] ++ filter (served_b s) ids.

Fixpoint walk (ids : list N) (s : state) (i : N) (tr : list (label * list N)) : list (N * N) * state :=
  match tr with
  | [] => ([], s)
  | (l, o) :: rest =>
      match step s l with
      | None => ([(i, code_mismatch)], s)
      | Some s' =>
          match o with
          | [] => walk ids s' (i + 1) rest
          | _ => if list_eqb N.eqb o (model_obs ids s') && (0 <=? count s')%Z then walk ids s' (i + 1) rest
                 else ([(i, code_mismatch)], s')
          end
      end
  end.

(* after the exact part: Stop must give the state of C17_stop; Close/Unexport the state of the nfs model *)
Definition nfs_obs (n : nfs) : list N :=
  [N.of_nat (length (n_handles n)); N.of_nat (length (n_attr n)); N.of_nat (length (n_dir n)); b2n (n_pool n); b2n (n_server n)].
Fixpoint after_walk (n : nfs) (ops : list nop) (i : N) (af : list (N * list N)) : list (N * N) :=
  match af with
  | [] => []
  | (kind, o) :: rest =>
      if (kind =? 3) || (kind =? 4) then
        (* consume nfs operations up to and including the next Close / Unexport *)
        let fix eat (n : nfs) (ops : list nop) : nfs * list nop :=
            match ops with
            | [] => (n, [])
            | op :: r => match op with
                         | NClose | NUnexport => (nfs_apply n op, r)
                         | _ => eat (nfs_apply n op) r
                         end
            end in
        let '(n', ops') := eat n ops in
        if list_eqb N.eqb (tl o) (nfs_obs n') then after_walk n' ops' (i + 1) rest else [(i, code_mismatch)]
      else if (kind =? 6) || (kind =? 7) then
        (* Close / Unexport with requests held in the backend: the nfs model follows (its Close / Unexport is in the
           operation list) but nothing is compared - these entries are judged by the oracle only *)
        let fix eat (n : nfs) (ops : list nop) : nfs * list nop :=
            match ops with
            | [] => (n, [])
            | op :: r => match op with
                         | NClose | NUnexport => (nfs_apply n op, r)
                         | _ => eat (nfs_apply n op) r
                         end
            end in
        let '(n', ops') := eat n ops in after_walk n' ops' (i + 1) rest
      else after_walk n ops (i + 1) rest
  end.

Definition mismatch (c : case) : list (N * N) :=
  if c_enacted c then
    let '(r, _) := walk (c_ids c) (init (c_max c) (c_idle c)) 0 (c_trace c) in
    r ++ after_walk nfs_init (c_nfs_ops c) 1000 (c_after c)
  else [].

(* ---------- (2) the statement of C17 on the observations alone ---------- *)
Record ost := { o_now : N; o_last : list (N * N); o_cur : N }.
Definition last_of (o : ost) (c : N) : N :=
  match find (fun e => fst e =? c) (o_last o) with Some e => snd e | None => 0 end.
Definition set_last (o : ost) (c : N) : ost :=
  {| o_now := o_now o; o_last := (c, o_now o) :: filter (fun e => negb (fst e =? c)) (o_last o); o_cur := o_cur o |}.

Definition obs_ok (mx : Z) (ob : list N) : bool :=
  match ob with
  | cnt :: act :: gor :: served =>
      (cnt =? act) && (if (0 <? mx)%Z then (Z.of_N cnt <=? mx)%Z else true) && (N.of_nat (length served) <=? act)
      && nodupb N.eqb served
  | _ => false
  end.

Definition ostep (mx : Z) (idl : N) (o : ost) (l : label) (ob : list N) : ost * bool :=
  let o1 := match l with
            | Advance d => {| o_now := o_now o + d; o_last := o_last o; o_cur := o_cur o |}
            | Accept c _ => {| o_now := o_now o; o_last := o_last o; o_cur := c |}
            | Register => set_last o (o_cur o)
            | Activity c => set_last o c
            | _ => o
            end in
  match ob with
  | [] => (o1, true)
  | _ =>
      (o1,
       obs_ok mx ob &&
       match l with
       | RTickDone =>
           (* after a tick nothing that is still served has been idle for longer than IdleTimeout *)
           if idl =? 0 then true
           else forallb (fun c => o_now o1 - last_of o1 c <=? idl) (skipn 3 ob)
       | StopWait _ =>
           (* after Stop returned: nothing registered, nothing served, no server goroutine *)
           match ob with cnt :: act :: gor :: served => (cnt =? 0) && (act =? 0) && (gor =? 0) && (match served with [] => true | _ => false end)
                    | _ => false end
       | _ => true
       end)
  end.
Fixpoint owalk (mx : Z) (idl : N) (o : ost) (i : N) (tr : list (label * list N)) : list (N * N) :=
  match tr with
  | [] => []
  | (l, ob) :: rest => let '(o', ok) := ostep mx idl o l ob in
                       if ok then owalk mx idl o' (i + 1) rest else [(i, code_specfail)]
  end.
Definition after_ok (mx : Z) (e : N * list N) : bool :=
  let '(kind, o) := e in
  if kind =? 1 then (* churn: peak, cnt, act, open served *)
    (if (0 <? mx)%Z then (Z.of_N (nth_obs o 0) <=? mx)%Z else true) && (nth_obs o 1 =? nth_obs o 2) && (nth_obs o 1 =? nth_obs o 3)
  else if kind =? 2 then (* Stop returned: ok, cnt, act, goroutines *)
    (nth_obs o 0 =? 1) && (nth_obs o 1 =? 0) && (nth_obs o 2 =? 0) && (nth_obs o 3 =? 0)
  else if kind =? 5 then
    (* Stop called while requests were inside a backend call: [ok; backend calls of requests in flight at the return;
       request goroutines; server goroutines; connCount; len(activeConns); modifying backend operations after the return].
       After Stop returns no request is still being served and no accept / connection / request goroutine remains. *)
    (nth_obs o 0 =? 1) && (nth_obs o 1 =? 0) && (nth_obs o 2 =? 0) && (nth_obs o 3 =? 0) && (nth_obs o 4 =? 0) &&
    (nth_obs o 5 =? 0) && (nth_obs o 6 =? 0)
  else if (kind =? 6) || (kind =? 7) then
    (* Close / Unexport called while requests were inside a backend call: [ok; in flight at the return; request
       goroutines; server goroutines; handles, attr, dir entries at the return; the same after quiescence; modifying
       backend operations after the return; export server still attached].  The handle table and the caches are empty
       and stay empty, and nothing of the server is left running. *)
    (nth_obs o 0 =? 1) && forallb (fun i => nth_obs o i =? 0) [1; 2; 3; 4; 5; 6; 7; 8; 9; 10; 11]%nat
  else (* Close / Unexport: no error, no handles, empty caches, no export server; Close also stops the pool *)
    (nth_obs o 0 =? 0) && (nth_obs o 1 =? 0) && (nth_obs o 2 =? 0) && (nth_obs o 3 =? 0) && (nth_obs o 5 =? 0)
    && (if kind =? 3 then nth_obs o 4 =? 0 else true).
Fixpoint after_spec (mx : Z) (i : N) (af : list (N * list N)) : list (N * N) :=
  match af with
  | [] => []
  | e :: rest => if after_ok mx e then after_spec mx (i + 1) rest else [(i, code_specfail)]
  end.
Definition specfail (c : case) : list (N * N) :=
  if c_enacted c
  then owalk (c_max c) (c_idle c) {| o_now := 0; o_last := []; o_cur := 0 |} 0 (c_trace c) ++ after_spec (c_max c) 1000 (c_after c)
  else [].

Definition check (c : case) : list (N * N) := specfail c ++ mismatch c.
Definition run (cs : list case) : result := run_cases check cs.

(* self-test: a correct small schedule passes; the same with an over-limit count or an idle survivor does not *)
Definition good : case :=
  {| c_max := 1; c_idle := 50; c_enacted := true; c_ids := [1; 2];
     c_trace := [(Accept 1 true, []); (Filter, []); (Register, []); (Spawn, []); (Activity 1, [1; 1; 3; 1]);
                 (Accept 2 true, []); (Filter, []); (Register, [1; 1; 3; 1]);
                 (Advance 100, []); (Tick, []); (RClose, []); (UnregReaper, []); (UnregReaper, []); (UnregReaper, []);
                 (RTickDone, []); (Exit 1, []); (UnregConn 1, []); (ConnDone 1, [0; 0; 2])];
     c_after := [(2, [1; 0; 0; 0]); (3, [0; 0; 0; 0; 0; 0]); (3, [0; 0; 0; 0; 0; 0])];
     c_nfs_ops := [NExport; NHandle 1; NAttr 1; NClose; NClose] |}.
Definition bad_limit : case :=
  {| c_max := 1; c_idle := 50; c_enacted := true; c_ids := [1; 2];
     c_trace := [(Accept 1 true, []); (Filter, []); (Register, []); (Spawn, []); (Activity 1, [1; 1; 3; 1]);
                 (Accept 2 true, []); (Filter, []); (Register, [2; 2; 4; 1; 2])];
     c_after := []; c_nfs_ops := [] |}.
Definition bad_reap : case :=
  {| c_max := 1; c_idle := 50; c_enacted := true; c_ids := [1];
     c_trace := [(Accept 1 true, []); (Filter, []); (Register, []); (Spawn, []); (Activity 1, [1; 1; 3; 1]);
                 (Advance 100, []); (Tick, []); (RTickDone, [1; 1; 3; 1])];
     c_after := []; c_nfs_ops := [] |}.
Example oracle_selftest :
  check good = [] /\ specfail bad_limit <> [] /\ mismatch bad_limit <> [] /\ specfail bad_reap <> [] /\ mismatch bad_reap <> [].
Proof. vm_compute. repeat split; discriminate. Qed.
