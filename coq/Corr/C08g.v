(* Corr/C08g.v — C08 on raw (malformed, truncated, garbage) argument bytes: oracle on the implementation's
   observations only (the request-level model does not decode bytes). *)
From Coq Require Import List NArith ZArith Bool.
From Verif Require Import Corr.Common.
Import ListNotations.
Open Scope N_scope.

Record gstep := { g_ro : bool;            (* ReadOnly in force when the call was made *)
                  g_prog : N; g_proc : N;
                  g_rpc : N; g_status : option N;   (* first word of the results when the RPC was accepted *)
                  g_access : option N;    (* decoded ACCESS word when the reply is a well-formed ACCESS3resok *)
                  g_mutcalls : N;         (* number of mutating backend calls issued *)
                  g_tree_changed : bool }.
Record case := { c_steps : list gstep }.

Definition mutating_proc (p : N) : bool :=
  existsb (N.eqb p) [2; 7; 8; 9; 10; 11; 12; 13; 14; 15; 21].
Definition step_bad (g : gstep) : bool :=
  g_ro g &&
  ((0 <? g_mutcalls g) || g_tree_changed g
   || ((g_prog g =? 100003) && mutating_proc (g_proc g) && (g_rpc g =? 0) && option_eqb N.eqb (g_status g) (Some 0))
   || (match g_access g with Some w => negb (N.land w 28 =? 0) | None => false end)).
Definition check (c : case) : list (N * N) :=
  match filter (fun ig => step_bad (snd ig)) (index_from 0 (c_steps c)) with
  | [] => [] | (i, _) :: _ => [(i, code_specfail)] end.
Definition run (cs : list case) : result := run_cases check cs.
