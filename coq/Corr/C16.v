(* Corr/C16.v — correspondence + spec oracle for the policy drain-and-swap LTS (C16).
   A case is a schedule that the Go driver ENACTED on the real code (goroutine per thread, gated backend,
   or loopback TCP for the limiter family), written as the LTS trace it corresponds to, each label carrying
   what the implementation was observed to do at that point:
     Arrive r c      [tag]          live policy tag (PolicyOptions.MaxFileSize) read just before the request was issued
     TryRLock r      [res]          1 = the request got past admission, 0 = it was answered NFS3ERR_JUKEBOX,
                                    2 = issued during a drain and neither answered nor executing after 5 s
     Auth r ok       [hp]           ok observed (MSG_DENIED or not); hp = 1 when the client port was >= 1024
     Op r            [tag; ro; mut] live tag and live ReadOnly seen by a backend call of r; mut = the call mutates
     ULock u         [err]          1 = UpdatePolicyOptions returned the Squash error
     URet u          [tag]          live tag right after the update returned
     Rate r allow    []             allow observed (request answered / rate-limit MSG_DENIED)
     Probe b         []             b observed by the TryRLock probe
   Internal labels (Snap, Finish, RUnlock, UMu, UAcquire, UStore, USwap, UUnlock, LimRead, EnRead, HReturn) are
   placed by the driver where the observations force them to be.
   (1) mismatch: the LTS must accept the trace (every step enabled) and predict every observation.
   (2) specfail: the property's own statement evaluated on the observations alone, without the model. *)
From Coq Require Import List NArith Bool.
From Verif Require Import Model.PolicyLTS Corr.Common.
Import ListNotations.
Open Scope N_scope.

Record case := { c_p0 : policy; c_l0 : option N; c_enacted : bool; c_stuck : bool;
                 c_trace : list (label * list N) }.

Definition b2n (b : bool) : N := if b then 1 else 0.
Definition nth_obs (o : list N) (i : nat) : N := nth i o 0.

(* ---------- (1) model vs implementation ---------- *)
(* policies by version, limiter use per (limiter id, connection) *)
Record aux := { a_vers : list (N * policy); a_used : list ((N * N) * N) }.
Definition pol_of (a : aux) (v : N) (d : policy) : policy :=
  match find (fun e => fst e =? v) (a_vers a) with Some e => snd e | None => d end.
Definition used_of (a : aux) (g c : N) : N :=
  match find (fun e => (fst (fst e) =? g) && (snd (fst e) =? c)) (a_used a) with Some e => snd e | None => 0 end.
Definition bump (a : aux) (g c : N) : aux :=
  {| a_vers := a_vers a;
     a_used := ((g, c), used_of a g c + 1) ::
               filter (fun e => negb ((fst (fst e) =? g) && (snd (fst e) =? c))) (a_used a) |}.

(* per-connection burst of a policy's limiter; a nil RateLimitConfig means DefaultRateLimiterConfig(), whose
   PerConnectionBurstSize is 100 (the generated schedules stay far below it) *)
Definition default_burst : N := 100.
Definition burst_of (p : policy) : N := match p_cfg p with Some b => b | None => default_burst end.

(* ValidateAuthentication on the policy snapshot, for the harness's caller (127.0.0.1, AUTH_NONE): refused when
   AllowedIPs excludes it or when Secure is set and the port is >= 1024.  The LTS's policy record has no AllowedIPs
   field; the driver marks a policy whose AllowedIPs is [10.9.9.9] by a tag (MaxFileSize offset) >= 5000. *)
Definition deny_ip (p : policy) : bool := 5000 <=? p_maxsize p.
Definition auth_ok (p : policy) (highport : bool) : bool := negb (deny_ip p) && negb (p_secure p && highport).

Definition pc_of (s : state) (r : N) : option rpc := match reqs s r with Some q => Some (r_pc q) | None => None end.

(* does the model, taking step l from s to s', predict the observation o? *)
Definition predicts (p0 : policy) (a : aux) (s s' : state) (l : label) (o : list N) : bool :=
  match l with
  | Arrive r c => nth_obs o 0 =? p_maxsize (cur_pol s)
  | TryRLock r => match pc_of s' r with
                  | Some RLocked => nth_obs o 0 =? 1
                  | Some RJuke => nth_obs o 0 =? 0
                  | _ => false
                  end
  | Auth r ok => Bool.eqb ok (auth_ok (cur_pol s) (nth_obs o 0 =? 1))
  | Op r => (nth_obs o 0 =? p_maxsize (cur_pol s)) && (nth_obs o 1 =? b2n (p_ro (cur_pol s)))
  | ULock u => match upds s' u with
               | Some q => match u_pc q with
                           | USquashErr => nth_obs o 0 =? 1
                           | _ => nth_obs o 0 =? 0
                           end
               | None => false
               end
  | URet u => nth_obs o 0 =? p_maxsize (cur_pol s')
  | Rate r allow =>
      match reqs s r with
      | Some q => match r_lim q, r_conn q with
                  | Some g, Some c =>
                      if r_en q
                      then Bool.eqb allow (used_of a g c <? burst_of (pol_of a g p0))
                      else allow
                  | _, _ => allow
                  end
      | None => false
      end
  | _ => true
  end.
Definition aux_step (a : aux) (s s' : state) (l : label) : aux :=
  match l with
  | UStore u => match upds s u with
                | Some q => {| a_vers := (cur s', u_pol q) :: a_vers a; a_used := a_used a |}
                | None => a
                end
  | Rate r allow =>
      match reqs s r with
      | Some q => match r_lim q, r_conn q with
                  | Some g, Some c => if r_en q && allow then bump a g c else a
                  | _, _ => a
                  end
      | None => a
      end
  | _ => a
  end.

Fixpoint walk (p0 : policy) (a : aux) (s : state) (i : N) (tr : list (label * list N)) : list (N * N) :=
  match tr with
  | [] => []
  | (l, o) :: rest =>
      match step s l with
      | None => [(i, code_mismatch)]                      (* the LTS does not accept the observed schedule *)
      | Some s' => if predicts p0 a s s' l o then walk p0 (aux_step a s s' l) s' (i + 1) rest
                   else [(i, code_mismatch)]
      end
  end.
Definition mismatch (c : case) : list (N * N) :=
  if c_enacted c then walk (c_p0 c) {| a_vers := []; a_used := [] |} (init (c_p0 c) (c_l0 c)) 0 (c_trace c) else [].

(* ---------- (2) the statement of C16 on the observations alone ---------- *)
(* the oracle's own bookkeeping; nothing here uses [step] *)
Record ost := {
  o_tag : N;                       (* tag of the policy in force: the last update that returned (initially p0's) *)
  o_old : list N;                  (* tags that have been replaced *)
  o_pols : list (N * policy);      (* tag -> policy value, from the UCall labels *)
  o_inflight : list N;             (* updates called and not yet returned *)
  o_draining : bool;               (* the probe said a writer is pending and no update has returned since *)
  o_issue : list (N * (N * bool * bool));  (* request -> (tag at issue, an update was in flight, draining) *)
  o_conn : list (N * N);           (* request -> connection *)
  o_exec : list N;                 (* admitted requests whose worker has not finished *)
  o_epoch : N; o_lim : option N;   (* limiter epoch and per-connection burst in force (None: not limiting) *)
  o_cnt : list ((N * N) * N) }.    (* (epoch, connection) -> requests admitted by the limiter *)

Definition o_init (p0 : policy) (l0 : option N) : ost :=
  {| o_tag := p_maxsize p0; o_old := []; o_pols := [(p_maxsize p0, p0)]; o_inflight := []; o_draining := false;
     o_issue := []; o_conn := []; o_exec := []; o_epoch := 0;
     o_lim := if p_enable p0 then match l0 with Some _ => Some (burst_of p0) | None => None end else None;
     o_cnt := [] |}.
Definition alookup {A} (k : N) (l : list (N * A)) : option A :=
  match find (fun e => fst e =? k) l with Some e => Some (snd e) | None => None end.
Definition cnt_of (o : ost) (c : N) : N :=
  match find (fun e => (fst (fst e) =? o_epoch o) && (snd (fst e) =? c)) (o_cnt o) with Some e => snd e | None => 0 end.
Definition memN (x : N) (l : list N) : bool := existsb (N.eqb x) l.
Definition removeN (x : N) (l : list N) : list N := filter (fun y => negb (y =? x)) l.

Definition with_fields (o : ost) tag old pols infl dr iss conn exec ep lim cnt : ost :=
  {| o_tag := tag; o_old := old; o_pols := pols; o_inflight := infl; o_draining := dr; o_issue := iss;
     o_conn := conn; o_exec := exec; o_epoch := ep; o_lim := lim; o_cnt := cnt |}.

(* returns the new oracle state and whether this event is consistent with the property *)
Definition ostep (o : ost) (l : label) (ob : list N) : ost * bool :=
  match l with
  | Arrive r c =>
      let quiet := match o_inflight o with [] => true | _ => false end in
      (with_fields o (o_tag o) (o_old o) (o_pols o) (o_inflight o) (o_draining o)
         ((r, (nth_obs ob 0, negb quiet, o_draining o)) :: o_issue o)
         (match c with Some k => (r, k) :: o_conn o | None => o_conn o end)
         (o_exec o) (o_epoch o) (o_lim o) (o_cnt o),
       (* every later request is judged under the new policy: with no update in flight the live policy is the
          one installed by the last update that returned *)
       if quiet then nth_obs ob 0 =? o_tag o else true)
  | TryRLock r =>
      match alookup r (o_issue o) with
      | Some (tg, infl, dr) =>
          let admitted := nth_obs ob 0 =? 1 in
          (with_fields o (o_tag o) (o_old o) (o_pols o) (o_inflight o) (o_draining o) (o_issue o) (o_conn o)
             (if admitted then r :: o_exec o else o_exec o) (o_epoch o) (o_lim o) (o_cnt o),
           (* arrivals during a drain get retry-later; with no update in flight nobody is turned away *)
           (if dr then nth_obs ob 0 =? 0 else true) && (if infl then true else admitted))
      | None => (o, false)
      end
  | Auth r ok =>
      match alookup r (o_issue o) with
      | Some (tg, _, _) =>
          let okp := match alookup tg (o_pols o) with Some p => auth_ok p (nth_obs ob 0 =? 1) | None => false end in
          (if ok then o
           else with_fields o (o_tag o) (o_old o) (o_pols o) (o_inflight o) (o_draining o) (o_issue o) (o_conn o)
                  (removeN r (o_exec o)) (o_epoch o) (o_lim o) (o_cnt o),
           Bool.eqb ok okp)
      | None => (o, false)
      end
  | Op r =>
      match alookup r (o_issue o) with
      | Some (tg, _, _) =>
          let seen := nth_obs ob 0 in
          let ro_pol := match alookup seen (o_pols o) with Some p => b2n (p_ro p) | None => 2 end in
          (o,
           (seen =? tg)                                   (* the policy in force when r was admitted *)
           && negb (memN seen (o_old o))                  (* not a policy an update has replaced and returned from *)
           && (nth_obs ob 1 =? ro_pol)                    (* the ReadOnly value of that policy *)
           && negb ((nth_obs ob 2 =? 1) && (nth_obs ob 1 =? 1))  (* a read-only policy lets no mutation through *)
           && memN r (o_exec o))
      | None => (o, false)
      end
  | Finish r =>
      (with_fields o (o_tag o) (o_old o) (o_pols o) (o_inflight o) (o_draining o) (o_issue o) (o_conn o)
         (removeN r (o_exec o)) (o_epoch o) (o_lim o) (o_cnt o), true)
  | UCall u p =>
      (with_fields o (o_tag o) (o_old o) ((p_maxsize p, p) :: o_pols o) (u :: o_inflight o) (o_draining o)
         (o_issue o) (o_conn o) (o_exec o) (o_epoch o) (o_lim o) (o_cnt o), true)
  | ULock u =>
      if nth_obs ob 0 =? 1
      then (with_fields o (o_tag o) (o_old o) (o_pols o) (removeN u (o_inflight o)) (o_draining o)
              (o_issue o) (o_conn o) (o_exec o) (o_epoch o) (o_lim o) (o_cnt o), true)
      else (o, true)
  | Probe b =>
      (with_fields o (o_tag o) (o_old o) (o_pols o) (o_inflight o) b (o_issue o) (o_conn o) (o_exec o)
         (o_epoch o) (o_lim o) (o_cnt o),
       (* a writer can only be pending while an update is in flight *)
       if b then match o_inflight o with [] => false | _ => true end else true)
  | URet u =>
      let tg := nth_obs ob 0 in
      let p := alookup tg (o_pols o) in
      let newlim := match p with
                    | Some q => if p_enable q then Some (Some (burst_of q)) else Some None
                    | None => None
                    end in
      (with_fields o tg (o_tag o :: o_old o) (o_pols o) (removeN u (o_inflight o)) false (o_issue o) (o_conn o)
         (o_exec o)
         (match newlim with Some _ => o_epoch o + 1 | None => o_epoch o end)
         (match newlim with Some x => x | None => o_lim o end) (o_cnt o),
       (* when an update returns no request admitted under an older policy is still executing *)
       forallb (fun r => match alookup r (o_issue o) with Some (t, _, _) => t =? tg | None => false end) (o_exec o)
       && match p with Some _ => true | None => false end)
  | Rate r allow =>
      match alookup r (o_issue o), alookup r (o_conn o) with
      | Some (_, infl, _), Some c =>
          if infl then (o, true)   (* concurrent with an update: either limiter is acceptable *)
          else match o_lim o with
               | None => (o, allow)   (* limiting is off: nobody is refused *)
               | Some burst =>
                   let n := cnt_of o c in
                   (if allow
                    then with_fields o (o_tag o) (o_old o) (o_pols o) (o_inflight o) (o_draining o) (o_issue o)
                           (o_conn o) (o_exec o) (o_epoch o) (o_lim o)
                           (((o_epoch o, c), n + 1) ::
                            filter (fun e => negb ((fst (fst e) =? o_epoch o) && (snd (fst e) =? c))) (o_cnt o))
                    else o,
                    (* limited by the limiter of the last update that returned, also on connections opened before
                       it: with the clock frozen exactly [burst] requests per connection pass *)
                    Bool.eqb allow (n <? burst))
               end
      | _, _ => (o, false)
      end
  | _ => (o, true)
  end.

Fixpoint owalk (o : ost) (i : N) (tr : list (label * list N)) : list (N * N) :=
  match tr with
  | [] => []
  | (l, ob) :: rest => let '(o', ok) := ostep o l ob in
                       if ok then owalk o' (i + 1) rest else [(i, code_specfail)]
  end.
Definition specfail (c : case) : list (N * N) :=
  if c_enacted c
  then (if c_stuck c then [(0, code_specfail)] else []) ++ owalk (o_init (c_p0 c) (c_l0 c)) 0 (c_trace c)
  else [].

Definition check (c : case) : list (N * N) := specfail c ++ mismatch c.
Definition run (cs : list case) : result := run_cases check cs.

(* self-test of the oracle: it accepts the demo schedule of Properties/C16 and rejects two corruptions of it *)
Definition polx (ro en : bool) (cfg : option N) (tag : N) : policy :=
  {| p_ro := ro; p_enable := en; p_cfg := cfg; p_squash := 0; p_maxsize := tag; p_secure := false |}.
Definition good : case :=
  {| c_p0 := polx false false None 0; c_l0 := None; c_enacted := true; c_stuck := false;
     c_trace := [(Arrive 1 None, [0]); (TryRLock 1, [1]); (Snap 1, []); (Auth 1 true, [0]); (Op 1, [0; 0; 1]);
                 (UCall 7 (polx true false None 7), []); (UMu 7, []); (ULock 7, [0]); (Probe true, []);
                 (Arrive 2 None, [0]); (TryRLock 2, [0]); (HTimeoutL 1, []); (Op 1, [0; 0; 1]);
                 (Finish 1, []); (RUnlock 1, []);
                 (UAcquire 7, []); (UStore 7, []); (USwap 7, []); (UUnlock 7, []); (URet 7, [7]);
                 (Arrive 3 None, [7]); (TryRLock 3, [1]); (Snap 3, []); (Auth 3 true, [0]); (Op 3, [7; 1; 0])] |}.
(* the same observations, but r1's second backend call saw the new policy *)
Definition bad_atomic : case :=
  {| c_p0 := c_p0 good; c_l0 := None; c_enacted := true; c_stuck := false;
     c_trace := map (fun e => match e with (Op 1, [0; 0; 1]) => e | _ => e end) (firstn 12 (c_trace good)) ++
                [(Op 1, [7; 1; 1])] |}.
(* the update returned while r1 was still executing *)
Definition bad_drain : case :=
  {| c_p0 := c_p0 good; c_l0 := None; c_enacted := true; c_stuck := false;
     c_trace := firstn 12 (c_trace good) ++
                [(UAcquire 7, []); (UStore 7, []); (USwap 7, []); (UUnlock 7, []); (URet 7, [7])] |}.
Example oracle_selftest :
  check good = [] /\ specfail bad_atomic <> [] /\ mismatch bad_atomic <> [] /\
  specfail bad_drain <> [] /\ mismatch bad_drain <> [].
Proof. vm_compute. repeat split; discriminate. Qed.
