(* Corr/C22.v — data acknowledged as stable survives a crash.
   Crash model (Model/Backend.v, harness/specfs): file contents and size are durable only after Sync;
   namespace and metadata operations are durable at once; a crash discards everything not synced.
   Oracle on the implementation's observations: after a WRITE acknowledged with committed = FILE_SYNC (2)
   - or any acknowledged WRITE followed by a successful COMMIT - the acknowledged bytes are in the durable
   tree at the time of the reply and at every later crash point (after each backend call of later requests)
   until a later acknowledged request overwrites or truncates that range; the write verifier is the same in
   every WRITE/COMMIT reply of an instance and differs from that of a later created instance. *)
From Coq Require Import List NArith ZArith Bool.
From Verif Require Import Model.Handles Model.Backend Model.Srv Corr.Common Corr.SrvCase.
Import ListNotations.
Open Scope N_scope.

Record case2 := { base : case; verf_second_instance : option N }.
Definition case := case2.

Definition obs_proj_eqb (a b : obs) : bool :=
  (ob_rpc a =? ob_rpc b) && (ob_status a =? ob_status b) && list_eqb N.eqb (ob_nums a) (ob_nums b).
(* the model's durable view: be_crash of the model tree must match the implementation's durable dump *)
Definition mismatch (c : case) : list (N * N) :=
  first_only (walk_case (fun i _ s' o x =>
     if negb (obs_proj_eqb o (i_obs x)) then [(i, code_mismatch)]
     else if negb (dump_matches (fs s') (i_dump x)) then [(i, code_mismatch)]
     else match rev (i_crash x) with
          | last_durable :: _ => if dump_same (map (fun e => (fst e, snd e)) last_durable)
                                               (map (fun e : path * obj =>
                                                  (fst e, (o_kind (snd e), o_perm (snd e), o_uid (snd e), o_gid (snd e),
                                                           (match o_kind (snd e) with KFile => o_dsize (snd e) | _ => 0 end),
                                                           o_ddata (snd e), o_target (snd e), o_mtime (snd e)))) (fs s'))
                                 then [] else [(i, code_mismatch)]
          | [] => []
          end) 0 (init_of (base c)) (c_steps (base c))).

(* promises: (path, offset, bytes) acknowledged as stable and not yet superseded *)
Definition promise := (path * N * list N)%type.
Definition holds (d : list dump_entry) (pr : promise) : bool :=
  let '(p, off, bs) := pr in
  match d_get d p with
  | Some e => kind_eqb (d_kind e) KFile && (off + N.of_nat (length bs) <=? d_size e)
              && bytes_eqb (sd_read (d_data e) off (length bs)) bs
  | None => false
  end.
Definition overlaps (p : path) (off len : N) (pr : promise) : bool :=
  let '(q, o2, bs) := pr in path_eqb p q && (off <? o2 + N.of_nat (length bs)) && (o2 <? off + len).

Fixpoint walk (i : N) (g : ghost) (ps pd : list promise) (ld : list dump_entry) (verf : option N) (l : list istep) : list (N * N) :=
  match l with
  | [] => []
  | x :: r =>
    let o := i_obs x in
    let g' := ghost_update g x in
    (* requests that legitimately supersede earlier promises: anything that may rewrite, truncate, remove or move the file *)
    let supersede (ps : list promise) : list promise :=
      match hs_req (i_step x) with
      | RWrite h off cnt _ _ => match g_get g h with Some p => filter (fun pr => negb (overlaps p off cnt pr)) ps | None => ps end
      | RSetattr h sa _ => match s_size sa, g_get g h with Some _, Some p => filter (fun pr => negb (path_eqb p (fst (fst pr)))) ps | _, _ => ps end
      | RCreate h n _ sa => match g_child g h n with Some p => filter (fun pr => negb (path_eqb p (fst (fst pr)))) ps | None => ps end
      | RRemove h n | RRmdir h n => match g_child g h n with Some p => filter (fun pr => negb (is_prefix p (fst (fst pr)))) ps | None => ps end
      | RRename h1 n1 h2 n2 =>
          match g_child g h1 n1, g_child g h2 n2 with
          | Some p1, Some p2 => filter (fun pr => negb (is_prefix p1 (fst (fst pr)) || is_prefix p2 (fst (fst pr)))) ps
          | _, _ => [] end
      | _ => ps
      end in
    let ps1 := supersede ps in
    (* acknowledged but not yet stable writes (committed < FILE_SYNC... DATA_SYNC counts as stable data too): they
       become promises when a later COMMIT covering them is acknowledged (count 0 = to the end of the file) *)
    let pd1 := supersede pd in
    let promoted :=
      match hs_req (i_step x) with
      | RCommit h off cnt =>
          if status_ok x then
            match g_get g h with
            | Some p => filter (fun pr => let '(q, o2, bs) := pr in
                                          path_eqb p q && (off <=? o2) && ((cnt =? 0) || (o2 + N.of_nat (length bs) <=? off + cnt))) pd1
            | None => [] end
          else []
      | _ => []
      end in
    let pd2 := filter (fun pr => negb (existsb (fun q => path_eqb (fst (fst pr)) (fst (fst q)) && (snd (fst pr) =? snd (fst q))
                                                         && bytes_eqb (snd pr) (snd q)) promoted)) pd1 in
    (* every surviving promise must hold at every crash point of this step *)
    let broken := existsb (fun d => existsb (fun pr => negb (holds d pr)) ps1) (i_crash x) in
    (* new promise *)
    let ps2 :=
      match hs_req (i_step x) with
      | RWrite h off cnt _ data =>
          if status_ok x then
            match ob_nums o, g_get g h with
            | n :: committed :: _, Some p => if (1 <=? committed) && (0 <? n) then (p, off, firstn (N.to_nat n) data) :: ps1 else ps1
            | _, _ => ps1
            end
          else ps1
      | _ => promoted ++ ps1
      end in
    let pd3 :=
      match hs_req (i_step x) with
      | RWrite h off cnt _ data =>
          if status_ok x then
            match ob_nums o, g_get g h with
            | n :: committed :: _, Some p => if (committed =? 0) && (0 <? n) then (p, off, firstn (N.to_nat n) data) :: pd2 else pd2
            | _, _ => pd2
            end
          else pd2
      | _ => pd2
      end in
    (* data covered by the COMMIT just acknowledged must be durable at the time of the reply *)
    (* (a request without backend calls leaves the durable tree as it was: ld) *)
    let ld' := match rev (i_crash x) with d :: _ => d | [] => ld end in
    let uncommitted := existsb (fun pr => negb (holds ld' pr)) promoted in
    (* the new promise must hold in the durable tree at the time of the reply *)
    let unkept := match ps2, rev (i_crash x) with
                  | pr :: _, d :: _ => (negb (N.of_nat (length ps2) =? N.of_nat (length ps1))) && negb (holds d pr)
                  | _, _ => false end in
    let verf_bad := match verf, i_verf x with Some v, Some w => negb (v =? w) | _, _ => false end in
    let verf' := match verf with Some _ => verf | None => i_verf x end in
    (if broken || unkept || uncommitted || verf_bad then [(i, code_specfail)] else []) ++ walk (i + 1) g' ps2 pd3 ld' verf' r
  end.
Definition first_verf (l : list istep) : option N :=
  match filter (fun x => match i_verf x with Some _ => true | None => false end) l with x :: _ => i_verf x | [] => None end.
Definition specfail (c : case) : list (N * N) :=
  first_only (walk 0 [] [] [] (c_init (base c)) None (c_steps (base c))) ++
  match first_verf (c_steps (base c)), verf_second_instance c with
  | Some v, Some w => if v =? w then [(0, code_specfail)] else []
  | _, _ => []
  end.
Definition check (c : case) : list (N * N) := specfail c ++ mismatch c.
Definition run (cs : list case) : result := run_cases check cs.
