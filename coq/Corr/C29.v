(* Corr/C29.v — concurrent request histories against the sequential model.

   The Go driver (harness/cmd/drive_c29) runs 2-4 client goroutines against ONE real server and records, for
   every request, invocation and response stamps of a global logical clock and the decoded reply.  Nothing in
   the model knows about goroutines: Model/Srv.step is the SEQUENTIAL SPECIFICATION and this file decides

     stream C29  (k_mode = 0: distinct names per client, caches at minimal TTL)
        whether a total order of the completed requests exists that (i) respects real-time precedence
        (a before b whenever resp(a) < inv(b)), (ii) makes the model reproduce every observed reply on the
        projection below and (iii) ends in the observed final tree.  [lin_search] is a fuelled Wing-Gong
        backtracking search (pick a minimal pending request whose model reply matches, recurse; failed
        (pending set, tree) pairs are remembered); the order it returns is re-validated by the independent
        straight-line checker [validate], and only [validate] is trusted (Proofs/C29Lin.v proves it sound).
        No order => code 2.

     stream C29b (k_mode = 1: caches on, one writer, readers on the same names)
        every attribute block / absence / directory entry a reply carries must be the state of that path in
        SOME backend state that existed before the response (the driver records the backend tree after every
        successful mutating backend call, with the logical clock at that moment).  Otherwise code 2.

     both: after quiescence no deadlock/panic, no leaked goroutine, caches within capacity, the handle table
        is a bijection containing every handle as issued, and a sequential probe round (LOOKUP/GETATTR of every
        known name, READDIR/READDIRPLUS of every directory) gives the same replies on the server and on a fresh
        twin server over a copy of the final backend state (a cache entry left behind by a lost invalidation
        shows up as a difference).  Otherwise code 2.

   Projection (stream C29): RPC code, status, the attribute block of the request's PRIMARY object (type, perm,
   nlink, uid, gid, size, fileid - no times), returned handle compared through the PATH it names, the numbers
   (READ/WRITE counts, ACCESS bits), data bytes / link target, eof of READ, the multiset of (name, fileid) of a
   directory listing (restricted to the reading client's own names on a shared directory).  Excluded by
   protocol design: wcc_data and the post-op attributes of directories (sampled non-atomically around the
   operation), all times, cookies.

   Requests refer to handles SYMBOLICALLY: a handle field holds an index into [k_paths] (the path the handle was
   issued for); before a request is given to the model the index is replaced by the model's own handle for that
   path, because handle numbers issued concurrently differ from run to run.

   Codes: 2 = the property's statement fails on the implementation's observations;
          1 = the checker could not decide (search budget exhausted / witness failed validation): never expected. *)
From Coq Require Import List NArith ZArith Bool.
From Verif Require Import Model.Handles Model.Backend Model.Srv Corr.Common Corr.SrvCase.
Import ListNotations.
Open Scope N_scope.

Record cop := { p_id : N; p_cli : N; p_inv : N; p_resp : N; p_cred : cred; p_req : req; p_obs : obs;
                p_keep : option (list name) }.
Definition sview := (path * (kind * N * N))%type.        (* kind, perm, size as Lstat reports them *)
Record case := { k_mode : N; k_cfg : cfg; k_init : list dump_entry; k_paths : list (N * path); k_ops : list cop;
                 k_final : list dump_entry; k_hist : list (N * list sview); k_probe : list (obs * option obs);
                 k_table : list (N * path); k_issued : list (N * path);
                 k_acsize : N; k_dcsize : N; k_gor0 : N; k_gor1 : N; k_deadlock : bool; k_panic : bool;
                 k_race : bool (* the Go race detector reported a data race while this history ran (-race builds) *) }.

(* ---------- symbolic handles ---------- *)
Definition sym_path (paths : list (N * path)) (h : N) : option path :=
  match find (fun e => fst e =? h) paths with Some e => Some (snd e) | None => None end.
(* the model's handle for the path a symbolic handle stands for; 0 (never issued) when there is none *)
Definition conc_h (paths : list (N * path)) (s : srv) (h : N) : N :=
  match sym_path paths h with
  | Some p => match assocP path_eqb p (byPath (hm s)) with Some mh => mh | None => 0 end
  | None => 0
  end.
Definition map_req (f : N -> N) (r : req) : req :=
  match r with
  | RNull => RNull
  | RGetattr h => RGetattr (f h)
  | RSetattr h sa g => RSetattr (f h) sa g
  | RLookup h n => RLookup (f h) n
  | RAccess h m => RAccess (f h) m
  | RReadlink h => RReadlink (f h)
  | RRead h o c => RRead (f h) o c
  | RWrite h o c st d => RWrite (f h) o c st d
  | RCreate h n how sa => RCreate (f h) n how sa
  | RMkdir h n sa => RMkdir (f h) n sa
  | RSymlink h n sa t => RSymlink (f h) n sa t
  | RMknod h n => RMknod (f h) n
  | RRemove h n => RRemove (f h) n
  | RRmdir h n => RRmdir (f h) n
  | RRename h1 n1 h2 n2 => RRename (f h1) n1 (f h2) n2
  | RLink h h2 n => RLink (f h) (f h2) n
  | RReaddir h ck c => RReaddir (f h) ck c
  | RReaddirplus h ck dc mc => RReaddirplus (f h) ck dc mc
  | RFsstat h => RFsstat (f h)
  | RFsinfo h => RFsinfo (f h)
  | RPathconf h => RPathconf (f h)
  | RCommit h o c => RCommit (f h) o c
  | RMnt p => RMnt p
  | RSetRO b => RSetRO b
  | RSetMaxFile m => RSetMaxFile m
  | RSetTsize t => RSetTsize t
  end.

(* ---------- the model side of one request ---------- *)
Definition init_of29 (K : case) : srv := srv_init_fs (map (obj_of_dump clock0) (k_init K)) (k_cfg K) 0%Z clock0.
(* every request is served 2 ns after the previous one: a 1 ns cache entry never answers a later request *)
Definition apply_op (K : case) (s : srv) (a : cop) : srv * obs :=
  step (with_now s (now s + 2)) (p_cred a) (map_req (conc_h (k_paths K) s) (p_req a)).

(* ---------- the projection ---------- *)
Definition attr_nt_eqb (a b : fattr) : bool :=
  (fa_type a =? fa_type b) && (fa_perm a =? fa_perm b) && (fa_nlink a =? fa_nlink b) && (fa_uid a =? fa_uid b) &&
  (fa_gid a =? fa_gid b) && (fa_size a =? fa_size b) && (fa_fileid a =? fa_fileid b).
(* positions in ob_attrs that hold the attributes of the request's primary object (not of a parent directory) *)
Definition obj_positions (r : req) (ok : bool) : list nat :=
  match r with
  | RGetattr _ | RAccess _ _ | RReadlink _ | RRead _ _ _ | RWrite _ _ _ _ _ | RSetattr _ _ _ | RCommit _ _ _
  | RFsstat _ | RFsinfo _ | RPathconf _ => [0%nat]
  | RLookup _ _ | RCreate _ _ _ _ | RMkdir _ _ _ | RSymlink _ _ _ _ => if ok then [0%nat] else []
  | _ => []
  end.
Definition is_listing (r : req) : bool := match r with RReaddir _ _ _ | RReaddirplus _ _ _ _ => true | _ => false end.
Definition name_fid := (name * N)%type.
Definition nf_eqb (x y : name_fid) : bool := bytes_eqb (fst x) (fst y) && (snd x =? snd y).
Definition count_nf (x : name_fid) (l : list name_fid) : nat := length (filter (nf_eqb x) l).
Definition ms_eqb (a b : list name_fid) : bool :=
  Nat.eqb (length a) (length b) && forallb (fun x => Nat.eqb (count_nf x a) (count_nf x b)) a.
Definition listing_of (keep : option (list name)) (o : obs) : list name_fid :=
  let all := map (fun e => (de_name e, de_fileid e)) (ob_entries o) in
  match keep with
  | None => all
  | Some ks => filter (fun x => existsb (bytes_eqb (fst x)) ks) all
  end.
Definition fh_match (paths : list (N * path)) (s' : srv) (mfh ifh : option N) : bool :=
  match mfh, ifh with
  | None, None => true
  | Some mh, Some ix => match get (hm s') mh, sym_path paths ix with
                        | Some p, Some q => path_eqb p q
                        | _, _ => false
                        end
  | _, _ => false
  end.
(* mo = the model's reply in state s' (after the request), a = the request with the implementation's reply *)
Definition op_match (K : case) (s' : srv) (mo : obs) (a : cop) : bool :=
  let io := p_obs a in
  let ok := (ob_rpc io =? 0) && (ob_status io =? 0) in
  (ob_rpc mo =? ob_rpc io) && (ob_status mo =? ob_status io) &&
  forallb (fun i => option_eqb (option_eqb attr_nt_eqb) (nth_error (ob_attrs mo) i) (nth_error (ob_attrs io) i))
          (obj_positions (p_req a) ok) &&
  fh_match (k_paths K) s' (ob_fh mo) (ob_fh io) &&
  list_eqb N.eqb (ob_nums mo) (ob_nums io) && bytes_eqb (ob_bytes mo) (ob_bytes io) &&
  (if is_listing (p_req a) then ms_eqb (listing_of (p_keep a) mo) (listing_of (p_keep a) io)
   else Bool.eqb (ob_eof mo) (ob_eof io)).

(* the model's tree against the final dump, modification times not compared *)
Definition dump_matches_nt (fs : fsmap) (d : list dump_entry) : bool :=
  (N.of_nat (length fs) =? N.of_nat (length d)) &&
  forallb (fun e : dump_entry =>
    let '(p, (k, perm, uid, gid, size, data, target, _)) := e in
    match fs_get fs p with
    | Some o => kind_eqb (o_kind o) k && (o_perm o =? perm) && (o_uid o =? uid) && (o_gid o =? gid) &&
                (match k with KFile => (o_size o =? size) && sdata_eqb (o_data o) data | _ => true end) &&
                bytes_eqb (o_target o) target
    | None => false
    end) d.
Definition final_ok (K : case) (s : srv) : bool := dump_matches_nt (fs s) (k_final K).

(* ---------- real-time order ---------- *)
(* a may be linearized next: no pending request finished before a was invoked *)
Definition minimal (pend : list cop) (a : cop) : bool := forallb (fun b => negb (p_resp b <? p_inv a)) pend.
Definition remove_op (a : cop) (pend : list cop) : list cop := filter (fun b => negb (p_id b =? p_id a)) pend.

(* ---------- the search ---------- *)
Inductive sres := Found (order : list N) | NotFound | OutOfBudget.
Record sst := { m_failed : list (list N * fsmap); m_budget : N }.

Definition obj_nt_eqb (a b : obj) : bool :=
  kind_eqb (o_kind a) (o_kind b) && (o_perm a =? o_perm b) && (o_uid a =? o_uid b) && (o_gid a =? o_gid b) &&
  (o_size a =? o_size b) && sdata_eqb (o_data a) (o_data b) && bytes_eqb (o_target a) (o_target b).
Definition fs_same (f g : fsmap) : bool :=
  Nat.eqb (length f) (length g) &&
  forallb (fun e => match fs_get g (fst e) with Some o => obj_nt_eqb (snd e) o | None => false end) f.
Definition memo_hit (st : sst) (pend : list cop) (s : srv) : bool :=
  let ids := map p_id pend in
  existsb (fun k => list_eqb N.eqb (fst k) ids && fs_same (snd k) (fs s)) (m_failed st).
Definition add_failed (st : sst) (pend : list cop) (s : srv) : sst :=
  {| m_failed := (map p_id pend, fs s) :: m_failed st; m_budget := m_budget st |}.
Definition spend (st : sst) : sst := {| m_failed := m_failed st; m_budget := m_budget st - 1 |}.

Fixpoint dfs (d : nat) (K : case) (st : sst) (s : srv) (pend : list cop) (acc : list N) : sst * sres :=
  match d with
  | O => (st, OutOfBudget)
  | S d' =>
    match pend with
    | [] => (st, if final_ok K s then Found (rev acc) else NotFound)
    | _ =>
      if memo_hit st pend s then (st, NotFound) else
      let fix go (cands : list cop) (st : sst) : sst * sres :=
        match cands with
        | [] => (st, NotFound)
        | a :: rest =>
          if m_budget st =? 0 then (st, OutOfBudget) else
          let st1 := spend st in
          let so := apply_op K s a in
          if op_match K (fst so) (snd so) a then
            match dfs d' K st1 (fst so) (remove_op a pend) (p_id a :: acc) with
            | (st2, NotFound) => go rest st2
            | r => r
            end
          else go rest st1
        end in
      let r := go (filter (minimal pend) pend) st in
      match snd r with
      | NotFound => (add_failed (fst r) pend s, NotFound)
      | _ => r
      end
    end
  end.
Definition search_budget : N := 200000.
Definition lin_search (K : case) : sres :=
  snd (dfs (S (length (k_ops K))) K {| m_failed := []; m_budget := search_budget |} (init_of29 K) (k_ops K) []).

(* ---------- the independent validator of a witness order ---------- *)
Definition find_op (ops : list cop) (id : N) : option cop := find (fun a => p_id a =? id) ops.
Fixpoint resolve_ids (ops : list cop) (ids : list N) : option (list cop) :=
  match ids with
  | [] => Some []
  | i :: r => match find_op ops i, resolve_ids ops r with Some a, Some l => Some (a :: l) | _, _ => None end
  end.
Fixpoint replay (K : case) (s : srv) (l : list cop) : option srv :=
  match l with
  | [] => Some s
  | a :: r => let so := apply_op K s a in
              if op_match K (fst so) (snd so) a then replay K (fst so) r else None
  end.
(* nothing later in the order finished before an earlier element was invoked *)
Fixpoint rt_ok (l : list cop) : bool :=
  match l with [] => true | a :: r => forallb (fun b => negb (p_resp b <? p_inv a)) r && rt_ok r end.
Definition validate (K : case) (ids : list N) : bool :=
  let ops := k_ops K in
  nodupb N.eqb (map p_id ops) && nodupb N.eqb ids && Nat.eqb (length ids) (length ops) &&
  match resolve_ids ops ids with
  | Some l => rt_ok l && match replay K (init_of29 K) l with Some s => final_ok K s | None => false end
  | None => false
  end.

Inductive verdict := Linearizable (order : list N) | NoLinearization | Undecided.
Definition lin_check (K : case) : verdict :=
  match lin_search K with
  | Found ids => if validate K ids then Linearizable ids else Undecided
  | NotFound => NoLinearization
  | OutOfBudget => Undecided
  end.

(* ---------- stream C29b: a reply never shows a state the object was never in ---------- *)
(* the states of path p in the backend states established before response stamp R *)
Definition states_before (K : case) (R : N) : list (list sview) := map snd (filter (fun st => fst st <? R) (k_hist K)).
Definition view_at (st : list sview) (p : path) : option (kind * N * N) :=
  match find (fun v : sview => path_eqb p (fst v)) st with Some v => Some (snd v) | None => None end.
Definition attr_was (K : case) (R : N) (p : path) (a : fattr) : bool :=
  (fa_fileid a =? fileid_of p) &&
  existsb (fun st => match view_at st p with
                     | Some (k, perm, size) => (fa_type a =? ftype_of k) && (fa_perm a =? perm) && (fa_size a =? size)
                     | None => false end) (states_before K R).
Definition absent_was (K : case) (R : N) (p : path) : bool :=
  existsb (fun st => match view_at st p with None => true | Some _ => false end) (states_before K R).
Definition child_names (st : list sview) (d : path) : list name :=
  map (fun v : sview => last (fst v) []) (filter (fun v : sview => is_child d (fst v)) st).
Definition names_were (K : case) (R : N) (d : path) (listed : list name) : bool :=
  let sts := states_before K R in
  (* no phantom entry *)
  forallb (fun n => existsb (fun st => match view_at st (d ++ [n]) with Some _ => true | None => false end) sts) listed &&
  (* no lost entry: a name that was there in every state before the response is listed *)
  match sts with
  | [] => true
  | st0 :: _ => forallb (fun n => negb (forallb (fun st => match view_at st (d ++ [n]) with Some _ => true | None => false end) sts)
                                  || existsb (bytes_eqb n) listed) (child_names st0 d)
  end.
Definition attr0_was (K : case) (R : N) (p : path) (o : obs) : bool :=
  match ob_attrs o with Some a :: _ => attr_was K R p a | _ => false end.
Definition b_op_ok (K : case) (a : cop) : bool :=
  let o := p_obs a in let R := p_resp a in
  let okst := (ob_rpc o =? 0) && (ob_status o =? 0) in
  let noent := (ob_rpc o =? 0) && (ob_status o =? NFSERR_NOENT) in
  let pof h := sym_path (k_paths K) h in
  match p_req a with
  | RGetattr h | RAccess h _ =>
      match pof h with
      | Some p => if okst then attr0_was K R p o else if noent then absent_was K R p else true
      | None => true end
  | RLookup h n =>
      match pof h with
      | Some d => if okst then attr0_was K R (d ++ [n]) o else if noent then absent_was K R (d ++ [n]) else true
      | None => true end
  | RCreate h n _ _ | RMkdir h n _ =>
      match pof h with Some d => if okst then attr0_was K R (d ++ [n]) o else true | None => true end
  | RWrite h _ _ _ _ | RSetattr h _ _ =>
      match pof h with Some p => if okst then attr0_was K R p o else true | None => true end
  | RReaddir h _ _ =>
      match pof h with Some d => if okst then names_were K R d (map de_name (ob_entries o)) else true | None => true end
  | RReaddirplus h _ _ _ =>
      match pof h with
      | Some d => if okst then names_were K R d (map de_name (ob_entries o)) &&
                               forallb (fun e => match de_attr e with Some fa => attr_was K R (d ++ [de_name e]) fa | None => true end)
                                       (ob_entries o)
                  else true
      | None => true end
  | _ => true
  end.

(* ---------- afterwards: table, caches, goroutines, probe round ---------- *)
Definition nf3lnk : N := 5.
Definition probe_attr_eqb (a b : fattr) : bool :=
  (fa_type a =? fa_type b) && (fa_perm a =? fa_perm b) && (fa_nlink a =? fa_nlink b) && (fa_size a =? fa_size b) &&
  (fa_fileid a =? fa_fileid b) && ((fa_type a =? nf3lnk) || (fa_mtime a =? fa_mtime b)).
Definition probe_eqb (a b : obs) : bool :=
  (ob_rpc a =? ob_rpc b) && (ob_status a =? ob_status b) &&
  list_eqb (option_eqb probe_attr_eqb) (ob_attrs a) (ob_attrs b) &&
  list_eqb N.eqb (ob_nums a) (ob_nums b) && bytes_eqb (ob_bytes a) (ob_bytes b) &&
  list_eqb (fun x y => (de_fileid x =? de_fileid y) && bytes_eqb (de_name x) (de_name y) && (de_cookie x =? de_cookie y) &&
                       option_eqb probe_attr_eqb (de_attr x) (de_attr y)) (ob_entries a) (ob_entries b) &&
  Bool.eqb (ob_eof a) (ob_eof b).
Definition table_ok (K : case) : bool :=
  nodupb N.eqb (map fst (k_table K)) && nodupb path_eqb (map snd (k_table K)) &&
  forallb (fun hp => existsb (fun e => (fst e =? fst hp) && path_eqb (snd e) (snd hp)) (k_table K)) (k_issued K).

Definition st_deadlock : N := 9001.   Definition st_panic : N := 9002.   Definition st_probe : N := 9003.
Definition st_table : N := 9004.      Definition st_cachesize : N := 9005. Definition st_goroutines : N := 9006.
Definition st_race : N := 9009.
Definition st_nolin : N := 9007.      Definition st_undecided : N := 9008.

Definition quiescent_check (K : case) : list (N * N) :=
  (if k_panic K then [(st_panic, code_specfail)] else []) ++
  (if k_race K then [(st_race, code_specfail)] else []) ++
  (if table_ok K then [] else [(st_table, code_specfail)]) ++
  (if (k_acsize K <=? attr_cap (k_cfg K)) && (k_dcsize K <=? dir_cap (k_cfg K)) then [] else [(st_cachesize, code_specfail)]) ++
  (if k_gor1 K <=? k_gor0 K then [] else [(st_goroutines, code_specfail)]) ++
  (* the twin's reply is spelled out only when its rendering differs from the server's (None = the identical term) *)
  (if forallb (fun ab => match snd ab with Some b => probe_eqb (fst ab) b | None => true end) (k_probe K) then [] else [(st_probe, code_specfail)]).

Definition check (K : case) : list (N * N) :=
  if k_deadlock K then [(st_deadlock, code_specfail)] else
  (if k_mode K =? 0 then
     match lin_check K with
     | Linearizable _ => []
     | NoLinearization => [(st_nolin, code_specfail)]
     | Undecided => [(st_undecided, code_mismatch)]
     end
   else first_only (flat_map (fun a => if b_op_ok K a then [] else [(p_id a, code_specfail)]) (k_ops K)))
  ++ quiescent_check K.
Definition run (cs : list case) : result := run_cases check cs.

(* debugging aids *)
Definition dbg_replay (K : case) (ids : list N) :=
  match resolve_ids (k_ops K) ids with
  | Some l => (fix go s l := match l with [] => [] | a :: r => let so := apply_op K s a in
                               (p_id a, op_match K (fst so) (snd so) a, snd so) :: go (fst so) r end) (init_of29 K) l
  | None => []
  end.
