(* Corr/C03x.v — stream C03x of property C03: the backend is changed underneath the server between requests (the
   harness creates / removes files directly, just before a NULL request whose recorded tree shows the change) while
   the server holds cache entries about those names.  The statement of C03 is evaluated on the implementation's
   observations exactly as in Corr/C03.v; there is no model comparison (Model/Srv.v has no external writers). *)
From Coq Require Import List NArith ZArith Bool.
From Verif Require Import Model.Handles Model.Backend Model.Srv Corr.Common Corr.SrvCase Corr.C03.
Import ListNotations.
Definition case := SrvCase.case.
Definition check (c : case) : list (N * N) := first_only (C03.specfail c).
Definition run (cs : list case) : result := run_cases check cs.
