(* Corr/C18.v — what a C18 correspondence shard evaluates (see Corr/RateLimitCorr.v). *)
From Coq Require Import List NArith.
From Verif Require Import Model.TokenBucket Model.RateLimit Corr.Common Corr.RateLimitCorr.
Import ListNotations.

Definition case := RateLimitCorr.case.
(* spec oracles on the implementation's own bits first, then model = implementation *)
Definition check (c : case) : list (N * N) :=
  bound_fail c ++ within_fail c ++ isolate_fail c ++ cleanup_fail c ++ mismatch c.
Definition run (cs : list case) : result := run_cases check cs.
