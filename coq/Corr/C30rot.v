(* Corr/C30rot.v — correspondence + spec oracle for certificate rotation (C30, rotation stream).
   A case = a real TLS server (one enabled TLSConfig, absnfs.New + Export) driven through a history of
   GetExportOptions().TLS / Clone / ReloadCertificates / certificate-file writes / UpdateExportOptions (handing back a
   derived settings object, a caller-made one, or nil); after every step a real handshake records which leaf
   certificate the listener presents; finally the documented rotation step (new files, ReloadCertificates on
   GetExportOptions().TLS) and one more handshake.
   (1) mismatch: the presented leaf after every step and after the final step = Model/Tls.v's [presented];
   (2) specfail, on the observations alone: when the history only passed derived settings around, the documented step
       succeeds and the next handshake presents the new certificate. *)
From Coq Require Import List ZArith NArith Bool String.
From Verif Require Import Gen.Facts Model.Tls Corr.Common.
Import ListNotations.
Open Scope N_scope.

Record case := mkCase {
  c_path : N; c_c0 : cert;
  c_first : option cert;                     (* leaf presented right after start *)
  c_steps : list (hop * option cert);        (* step, leaf presented after it *)
  c_new : cert;                              (* certificate written by the final rotation step *)
  c_rot_ok : bool;                           (* GetExportOptions().TLS was non-nil and ReloadCertificates returned nil *)
  c_final : option cert }.                   (* leaf presented after the rotation step *)

Definition oc_eqb := option_eqb N.eqb.
Fixpoint walk (i : N) (w : world) (steps : list (hop * option cert)) : world * list (N * N) :=
  match steps with
  | [] => (w, [])
  | (h, o) :: r =>
      let w' := hstep w h in
      if oc_eqb (presented w') o then walk (i + 1) w' r else (w', [(i, code_mismatch)])
  end.
Definition mismatch (c : case) : list (N * N) :=
  let w0 := boot (c_path c) (c_c0 c) in
  if negb (oc_eqb (presented w0) (c_first c)) then [(0, code_mismatch)] else
  match walk 1 w0 (c_steps c) with
  | (_, (_ :: _) as l) => l
  | (w, []) =>
      let r := rotate w (c_path c) (c_new c) in
      if Bool.eqb (snd r) (c_rot_ok c) && oc_eqb (presented (fst r)) (c_final c) then []
      else [(N.of_nat (List.length (c_steps c)) + 1, code_mismatch)]
  end.
Definition specfail (c : case) : list (N * N) :=
  (if oc_eqb (c_first c) (Some (c_c0 c)) then [] else [(0, code_specfail)]) ++
  (if derived_only (map fst (c_steps c)) then
     (if c_rot_ok c && oc_eqb (c_final c) (Some (c_new c)) then []
      else [(N.of_nat (List.length (c_steps c)) + 1, code_specfail)])
   else []).
Definition check (c : case) : list (N * N) := specfail c ++ mismatch c.
Definition run (cs : list case) : result := run_cases check cs.
