(* Corr/C04z.v — (backend reporting size 0 for symbolic links) reported attributes are consistent across procedures and with the backend.
   Oracle on the implementation's observations: every attribute block of every reply is attributed to
   the path it describes (through the ghost handle map); its type must be the backend's lstat kind, its
   fileid FNV-1a-64 of the path string, size and permission bits the backend's (post-state for
   post-op attributes).  Hence the same type and fileid across procedures, no SETATTR changes them,
   symlinks are always NF3LNK. *)
From Coq Require Import List NArith ZArith Bool.
From Verif Require Import Model.Handles Model.Backend Model.Srv Corr.Common Corr.SrvCase.
Import ListNotations.
Open Scope N_scope.

Definition fattr_proj_eqb (a b : fattr) : bool :=
  (fa_type a =? fa_type b) && (fa_perm a =? fa_perm b) && (fa_size a =? fa_size b) && (fa_fileid a =? fa_fileid b).
Definition obs_proj_eqb (a b : obs) : bool :=
  (ob_rpc a =? ob_rpc b) && (ob_status a =? ob_status b) &&
  list_eqb (option_eqb fattr_proj_eqb) (ob_attrs a) (ob_attrs b) &&
  list_eqb (option_eqb (fun x y => fst x =? fst y)) (ob_wcc a) (ob_wcc b) &&
  list_eqb (fun x y => (de_fileid x =? de_fileid y) && bytes_eqb (de_name x) (de_name y)
                       && option_eqb fattr_proj_eqb (de_attr x) (de_attr y)) (ob_entries a) (ob_entries b).
Definition mismatch (c : case) : list (N * N) := generic_mismatch obs_proj_eqb true false c.

Definition dsize (e : kind * N * N * N * N * sdata * list N * N) : N :=
  match d_kind e with KFile => d_size e | KDir => dir_size | KLink => d_size e end.   (* what this backend's lstat says *)
(* does the block agree with the dump entry of path p? *)
Definition block_ok (d : list dump_entry) (p : path) (a : fattr) : bool :=
  match d_get d p with
  | Some e => (fa_type a =? ftype_of (d_kind e)) && (fa_fileid a =? fileid_of p) && (fa_size a =? dsize e) && (fa_perm a =? d_perm e)
  | None => false
  end.
Definition chk (d : list dump_entry) (p : option path) (a : option fattr) : bool :=
  match p, a with Some p, Some a => block_ok d p a | _, _ => true end.

Definition spec_step (x : octx) : list (N * N) :=
  let st := oc_step x in let o := i_obs st in let post := i_dump st in let g := oc_ghost x in
  if negb (ob_rpc o =? 0) then [] else
  let at_ (k : nat) := nth k (ob_attrs o) None in
  let ok :=
    match hs_req (i_step st) with
    | RGetattr h | RAccess h _ | RReadlink h | RRead h _ _ | RFsstat h | RFsinfo h | RPathconf h
    | RSetattr h _ _ | RWrite h _ _ _ _ | RCommit h _ _ | RRemove h _ | RRmdir h _ => chk post (g_get g h) (at_ 0%nat)
    | RLookup h n =>
        if ob_status o =? 0 then chk post (g_child g h n) (at_ 0%nat) && chk post (g_get g h) (at_ 1%nat)
        else chk post (g_get g h) (at_ 0%nat)
    | RCreate h n _ _ | RMkdir h n _ | RSymlink h n _ _ =>
        if ob_status o =? 0 then chk post (g_child g h n) (at_ 0%nat) && chk post (g_get g h) (at_ 1%nat)
        else chk post (g_get g h) (at_ 0%nat)
    | RRename h1 _ h2 _ => chk post (g_get g h1) (at_ 0%nat) && chk post (g_get g h2) (at_ 1%nat)
    | RReaddir h _ _ =>
        chk post (g_get g h) (at_ 0%nat) &&
        forallb (fun e => match g_child g h (de_name e) with Some p => de_fileid e =? fileid_of p | None => true end) (ob_entries o)
    | RReaddirplus h _ _ _ =>
        chk post (g_get g h) (at_ 0%nat) &&
        forallb (fun e => match g_child g h (de_name e) with
                          | Some p => (de_fileid e =? fileid_of p) && chk post (Some p) (de_attr e)
                          | None => true end) (ob_entries o)
    | _ => true
    end in
  if ok then [] else [(oc_i x, code_specfail)].
Definition specfail (c : case) : list (N * N) := first_only (oracle spec_step c).
(* oracle only: Model/Backend.v fixes the other convention (size = length of the target) *)
Definition check (c : case) : list (N * N) := specfail c.
Definition run (cs : list case) : result := run_cases check cs.
