(* Corr/C10.v — correspondence + spec oracle for identity squashing (C10).
   A case is one credential presented either directly to ValidateAuthentication (any squash
   string, optionally a pre-parsed AuthSys whose slice the caller shares) or through HandleCall on
   a server configured with the squash mode (then followed by ACCESS probes that show which
   auxiliary gids the handler sees).  Data are primitive integers (Corr/AuthInts.v). *)
From Coq Require Import List NArith ZArith Bool Uint63.
From Verif Require Import Model.Auth Model.Access Corr.Common Corr.AuthInts.
Import ListNotations.
Open Scope N_scope.

Inductive icase := IC
  (via_handlecall : bool)
  (squash : list int)                       (* bytes of the configured mode string *)
  (flavor : int) (body : list int)          (* credential flavour and body bytes *)
  (pre : option (int * int * list int))     (* ctx.AuthSys on entry: uid, gid, aux (direct path only) *)
  (* observed on the implementation *)
  (allowed : bool) (uid gid : int)          (* AuthResult / reply status, effective ids *)
  (aux : option (list int))                 (* ctx.AuthSys.AuxGIDs afterwards; None = AuthSys nil *)
  (alias_ok : bool)                         (* caller-shared slice, its backing array and the body bytes unchanged *)
  (probe_owner : int)                       (* owner uid of the probed object (differs from every caller id) *)
  (probes : list (int * int)).              (* (gid g, ACCESS word on an object 0070 owned by probe_owner:g) *)
Definition case := icase.

Record obs := { b_allowed : bool; b_uid : N; b_gid : N; b_aux : option (list N) }.

Definition pre_cred (p : int * int * list int) : cred :=
  {| c_stamp := 0; c_machine := []; c_uid := n_of (fst (fst p)); c_gid := n_of (snd (fst p)); c_aux := ns_of (snd p) |}.

(* ---- (1) code-level model ---- *)
Definition model_obs (squash : list int) (flavor : int) (body : list int) (pre : option (int * int * list int)) : obs :=
  let r := validate false true false 0%Z (n_of flavor) (ns_of body) (option_map pre_cred pre) (ns_of squash) in
  {| b_allowed := v_allowed r; b_uid := v_uid r; b_gid := v_gid r; b_aux := option_map c_aux (v_authsys r) |}.

Definition opt_list_eqb (a b : option (list N)) : bool := option_eqb (list_eqb N.eqb) a b.

Definition probe_mode : N := 56.  (* 0070: group bits only *)
Definition caller_after (o : obs) : caller := {| eff_uid := b_uid o; eff_gid := b_gid o; aux_gids := b_aux o |}.

Definition mismatch (c : case) : list (N * N) :=
  match c with
  | IC via squash flavor body pre allowed uid gid aux alias_ok owner probes =>
      let m := model_obs squash flavor body pre in
      let ids_ok := if via && negb allowed then true   (* HandleCall stores no effective ids on denial *)
                    else (b_uid m =? n_of uid) && (b_gid m =? n_of gid) in
      let ok := Bool.eqb (b_allowed m) allowed && ids_ok && opt_list_eqb (b_aux m) (option_map ns_of aux) in
      let probes_ok := forallb (fun p =>
            handle_access probe_mode (n_of owner) (n_of (fst p)) (caller_after m) 63 false =? n_of (snd p)) probes in
      (if ok then [] else [(0, code_mismatch)]) ++ (if probes_ok then [] else [(1, code_mismatch)])
  end.

(* ---- (2) the property's statement on the implementation's own output ----
   the squash table (Model/Auth.v squash_table) applied to the credential the body denotes
   (layout grammar wf_authsys, decided by parse_authsys - C10_parser_exact), the flavour rule,
   the aliasing bit, and the UNIX rule on the probes with the ids the implementation reported *)
Definition expected (squash : list int) (flavor : int) (body : list int) (pre : option (int * int * list int))
  : option (N * N * option (list N)) :=   (* None = must be denied *)
  if n_of flavor =? AUTH_NONE then Some (nobody, nobody, option_map (fun p => ns_of (snd p)) pre)
  else if n_of flavor =? AUTH_SYS then
    match (match pre with Some p => Some (pre_cred p) | None => parse_authsys (ns_of body) end) with
    | None => None
    | Some c => let t := squash_table (squash_kind (ns_of squash)) (c_uid c) (c_gid c) (c_aux c) in
                Some (fst (fst t), snd (fst t), Some (snd t))
    end
  else None.

Definition specfail (c : case) : list (N * N) :=
  match c with
  | IC via squash flavor body pre allowed uid gid aux alias_ok owner probes =>
      let good :=
        match expected squash flavor body pre with
        | None => negb allowed
        | Some (u, g, a) => allowed && (n_of uid =? u) && (n_of gid =? g) && opt_list_eqb (option_map ns_of aux) a
        end in
      let o := {| b_allowed := allowed; b_uid := n_of uid; b_gid := n_of gid; b_aux := option_map ns_of aux |} in
      let probes_ok := forallb (fun p =>
            unix_access probe_mode (n_of owner) (n_of (fst p)) (caller_after o) 63 false =? n_of (snd p)) probes in
      (if good && alias_ok then [] else [(0, code_specfail)]) ++ (if probes_ok then [] else [(1, code_specfail)])
  end.

Definition check (c : case) : list (N * N) := specfail c ++ mismatch c.
Definition run (cs : list case) : result := run_cases check cs.
