(* Corr/C08t.v — the read-only property (C08) on SCHEDULES: mutating requests held in the backend, timing out or not,
   overlapping UpdatePolicyOptions / UpdateExportOptions that switch ReadOnly on and off.  The cases are the enacted
   LTS traces of harness/cmd/drive_lts (same record and labels as Corr/C16.v) with richer observations:
     Arrive r c [tag; mutating request; read-only in force when issued (driver's stamp)]
     Op r       [tag; live ReadOnly; modifying backend operation (write-mode open, WriteAt, Truncate, Create, Remove,
                 Rename, Mkdir, Symlink, Chmod, Chown, Lchown, Chtimes); read-only in force (driver's stamp)]
     HReturn r  [NFS status of the reply]
   (1) mismatch = the PolicyLTS monitor of Corr/C16.v (the trace must be accepted and predicted by the model).
   (2) specfail, on the observations alone: "read-only in force" is recomputed here from the UCall / URet / refused-update
       labels - the latest update that RETURNED set ReadOnly (or the export was built read-only and none returned yet)
       and no update back to read-write has been called since - and
         * no modifying backend operation is observed while read-only is in force (by this computation or by the stamp);
         * every mutating request issued while read-only is in force is answered NFS3ERR_ROFS (a request turned away
           with retry-later during a drain has no HReturn and is accepted). *)
From Coq Require Import List NArith ZArith Bool.
From Verif Require Import Gen.Facts Model.PolicyLTS Corr.Common Corr.C16.
Import ListNotations.
Open Scope N_scope.

Definition case := Corr.C16.case.
Definition mismatch (c : case) : list (N * N) := Corr.C16.mismatch c.

Definition rofs : N := Z.to_N c_NFSERR_ROFS.

Record rst := {
  r_last_ro : bool;                 (* ReadOnly of the latest update that returned (initially the export's) *)
  r_inflight : list (N * bool);     (* updates called and not yet returned / refused, with the ReadOnly they set *)
  r_reqs : list (N * (bool * bool)) (* request -> (mutating, read-only in force when issued) *) }.
Definition in_force (s : rst) : bool := r_last_ro s && forallb (fun e => snd e) (r_inflight s).
Definition drop (u : N) (l : list (N * bool)) : list (N * bool) := filter (fun e => negb (fst e =? u)) l.
Definition lookup_ro (u : N) (l : list (N * bool)) : option bool :=
  match find (fun e => fst e =? u) l with Some e => Some (snd e) | None => None end.

Definition rstep (s : rst) (l : label) (ob : list N) : rst * bool :=
  match l with
  | UCall u p => ({| r_last_ro := r_last_ro s; r_inflight := (u, p_ro p) :: r_inflight s; r_reqs := r_reqs s |}, true)
  | ULock u => if nth_obs ob 0 =? 1
               then ({| r_last_ro := r_last_ro s; r_inflight := drop u (r_inflight s); r_reqs := r_reqs s |}, true)
               else (s, true)
  | URet u => match lookup_ro u (r_inflight s) with
              | Some ro => ({| r_last_ro := ro; r_inflight := drop u (r_inflight s); r_reqs := r_reqs s |}, true)
              | None => (s, false)
              end
  | Arrive r _ =>
      let f := in_force s || (nth_obs ob 2 =? 1) in
      ({| r_last_ro := r_last_ro s; r_inflight := r_inflight s; r_reqs := (r, (nth_obs ob 1 =? 1, f)) :: r_reqs s |}, true)
  | Op r =>
      (* no modifying operation on the backing filesystem while the read-only policy is in force *)
      (s, negb ((nth_obs ob 2 =? 1) && (in_force s || (nth_obs ob 3 =? 1))))
  | HReturn r =>
      match find (fun e => fst e =? r) (r_reqs s) with
      | Some (_, (mut, f)) => (s, if mut && f then nth_obs ob 0 =? rofs else true)
      | None => (s, false)
      end
  | _ => (s, true)
  end.
Fixpoint rwalk (s : rst) (i : N) (tr : list (label * list N)) : list (N * N) :=
  match tr with
  | [] => []
  | (l, ob) :: rest => let '(s', ok) := rstep s l ob in
                       if ok then rwalk s' (i + 1) rest else [(i, code_specfail)]
  end.
Definition specfail (c : case) : list (N * N) :=
  if c_enacted c
  then (if c_stuck c then [(0, code_specfail)] else []) ++
       rwalk {| r_last_ro := p_ro (c_p0 c); r_inflight := []; r_reqs := [] |} 0 (c_trace c)
  else [].

Definition check (c : case) : list (N * N) := specfail c ++ mismatch c.
Definition run (cs : list case) : result := run_cases check cs.

(* self-test: the history of seeded/C08-2 as the unchanged code produces it passes; the same history with the update
   returning while the timed-out WRITE is still held, followed by its write, is rejected by both sides; a write
   acknowledged after the switch is rejected by the oracle *)
Definition px (ro : bool) (tag : N) : policy :=
  {| p_ro := ro; p_enable := false; p_cfg := None; p_squash := 0; p_maxsize := tag; p_secure := false |}.
Definition upd_chain (u : N) : list (label * list N) :=
  [(UAcquire u, []); (UStore u, []); (USwap u, []); (UUnlock u, []); (URet u, [u])].
Definition good : case :=
  {| c_p0 := px false 0; c_l0 := None; c_enacted := true; c_stuck := false;
     c_trace := [(Arrive 1 None, [0; 1; 0]); (TryRLock 1, [1]); (Snap 1, []); (Auth 1 true, [0]); (Op 1, [0; 0; 0; 0]);
                 (HTimeoutL 1, []); (UCall 101 (px true 101), []); (UMu 101, []); (ULock 101, [0]); (Probe true, []);
                 (Op 1, [0; 0; 1; 0]); (Finish 1, []); (RUnlock 1, [])] ++ upd_chain 101 ++
                [(Arrive 2 None, [101; 1; 1]); (TryRLock 2, [1]); (Snap 2, []); (Auth 2 true, [0]); (Finish 2, []);
                 (RUnlock 2, []); (HReturn 2, [30])] |}.
Definition bad_abandoned : case :=
  {| c_p0 := px false 0; c_l0 := None; c_enacted := true; c_stuck := false;
     c_trace := [(Arrive 1 None, [0; 1; 0]); (TryRLock 1, [1]); (Snap 1, []); (Auth 1 true, [0]); (Op 1, [0; 0; 0; 0]);
                 (HTimeoutL 1, []); (UCall 101 (px true 101), []); (UMu 101, []); (ULock 101, [0])] ++ upd_chain 101 ++
                [(Op 1, [101; 1; 1; 1])] |}.
Definition bad_ack : case :=
  {| c_p0 := px true 0; c_l0 := None; c_enacted := true; c_stuck := false;
     c_trace := [(Arrive 2 None, [0; 1; 1]); (TryRLock 2, [1]); (Snap 2, []); (Auth 2 true, [0]); (Finish 2, []);
                 (RUnlock 2, []); (HReturn 2, [0])] |}.
Example oracle_selftest :
  check good = [] /\ specfail bad_abandoned <> [] /\ mismatch bad_abandoned <> [] /\ specfail bad_ack <> [].
Proof. vm_compute. repeat split; discriminate. Qed.
