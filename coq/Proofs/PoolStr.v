(* Proofs/PoolStr.v — Part 3 of the worker-pool proofs: the structural invariant Str of the configuration
   in which Stop holds resizeMu, and the frame lemmas for its program-counter part. *)
From Coq Require Import List Arith Bool Lia.
From Verif Require Import Model.PoolLTS Proofs.PoolProofs.
Import ListNotations.

(* ------------------------------------------------------------------ Part 3: structure, for the configuration with the lock *)

Definition good (c : cfg) : Prop := stop_drains c = true /\ overflow_closes c = true /\ stop_locks c = true.

Definition curgen (s : state) : gen := nth (cur s) (gens s) (g_fresh 0).

(* what holds while the pool runs / after it has been stopped *)
Definition running_facts (s : state) : Prop :=
  g_closed (curgen s) = false /\ g_cancel (curgen s) = false /\ live s = maxw s.
Definition stopped_facts (s : state) : Prop :=
  all_exited s = true /\ g_items (curgen s) = [] /\ no_pending s = true.
Definition idle_facts (s : state) : Prop :=
  resizing s = false /\ (running s = true -> running_facts s) /\ (running s = false -> stopped_facts s).

(* per program counter of Stop ... *)
Definition stop_inv (s : state) : Prop :=
  match stop s with
  | SpIdle | SpCalled => True
  | SpClose => rz_free s = true /\ running s = false /\ resizing s = false /\
               g_cancel (curgen s) = true /\ g_closed (curgen s) = false
  | SpWait => rz_free s = true /\ running s = false /\ resizing s = false /\
              g_cancel (curgen s) = true /\ g_closed (curgen s) = true /\ no_pending s = true
  | SpDrain g => rz_free s = true /\ running s = false /\ resizing s = false /\ g = cur s /\
                 g_closed (curgen s) = true /\ no_pending s = true /\ all_exited s = true
  end.
(* ... and of Resize *)
Definition rz_inv (s : state) : Prop :=
  match rz s with
  | RpIdle | RpCalled _ => True
  | RpStop new was old => stop_free s = true /\ old = cur s /\ was = running s /\ idle_facts s
  | RpClose new old => stop_free s = true /\ old = cur s /\ running s = false /\ resizing s = true /\
                       g_cancel (curgen s) = true /\ g_closed (curgen s) = false
  | RpWait new old => stop_free s = true /\ old = cur s /\ running s = false /\
                      g_cancel (curgen s) = true /\ g_closed (curgen s) = true /\ no_pending s = true
  | RpDrain new was old pend => stop_free s = true /\ old = cur s /\ running s = false /\ resizing s = false /\
                                g_closed (curgen s) = true /\ no_pending s = true /\ all_exited s = true
  | RpSwap new was pend => stop_free s = true /\ running s = false /\ resizing s = false /\
                           no_pending s = true /\ all_exited s = true /\ g_items (curgen s) = []
  | RpReenq pend => stop_free s = true /\ running s = true /\ resizing s = false /\ running_facts s
  | RpDrop pend => stop_free s = true /\ running s = false /\ resizing s = false /\ stopped_facts s
  end.
Definition free_inv (s : state) : Prop := stop_free s = true -> rz_free s = true -> idle_facts s.

Record Str (s : state) : Prop := {
  s_nopanic : panicked s = false;
  s_cur : S (cur s) = length (gens s);
  s_old : forall g G0, nth_error (gens s) g = Some G0 -> g <> cur s -> g_items G0 = [];
  s_idle : forall w g, nth_error (workers s) w = Some (WIdle g) -> g = cur s;
  s_pend : forall t g, In (t, SPending g) (subs s) -> g = cur s /\ g_closed (curgen s) = false;
  s_live : live s <= maxw s;
  s_cap : g_cap (curgen s) = queue_factor * maxw s;
  s_len : length (g_items (curgen s)) <= g_cap (curgen s);
  s_stop : stop_inv s;
  s_rz : rz_inv s;
  s_free : free_inv s }.

Lemma live_repeat_idle g n : length (filter (fun w => negb (is_exit w)) (repeat (WIdle g) n)) = n.
Proof. induction n; cbn; auto. Qed.
Lemma all_exited_repeat_idle : forall n g, forallb is_exit (repeat (WIdle g) n) = true -> n = 0.
Proof. intros [|n] g; cbn; [reflexivity|discriminate]. Qed.

Lemma Str_init n : Str (init n).
Proof.
  split; cbn; try reflexivity; try exact I.
  - intros [|g] G0 E N; cbn in E; [congruence|]. destruct g; discriminate.
  - intros w g E. apply nth_error_In in E. apply repeat_spec in E. congruence.
  - tauto.
  - unfold live; cbn. rewrite live_repeat_idle. lia.
  - lia.
  - intros _ _. split; [reflexivity|]. split; [|discriminate]. intros _. repeat split. unfold live; cbn. apply live_repeat_idle.
Qed.

(* current generation and updates *)
Lemma curgen_nth s : S (cur s) = length (gens s) -> nth_error (gens s) (cur s) = Some (curgen s).
Proof. intros H. unfold curgen. apply nth_error_nth'. lia. Qed.
Lemma nth_set_nth_eq {A} n (x d : A) l : n < length l -> nth n (set_nth n x l) d = x.
Proof. intros H. apply nth_error_nth. apply nth_error_set_nth_eq. exact H. Qed.
Lemma curgen_put s G' : S (cur s) = length (gens s) -> curgen (put_gen s (cur s) G') = G'.
Proof. intros H. unfold curgen, put_gen; cbn. apply nth_set_nth_eq. lia. Qed.

(* workers *)
Lemma filter_set_nth_len {A} (f : A -> bool) w (x x' : A) l :
  nth_error l w = Some x ->
  length (filter f (set_nth w x' l)) + (if f x then 1 else 0) = length (filter f l) + (if f x' then 1 else 0).
Proof.
  intros H. destruct (set_nth_split _ _ _ H) as (a & b & E & F). rewrite F, E.
  rewrite !filter_app, !app_length. cbn. destruct (f x), (f x'); cbn; lia.
Qed.
Lemma live_set s w x x' :
  nth_error (workers s) w = Some x ->
  live (set_workers s (set_nth w x' (workers s))) + (if is_exit x then 0 else 1) = live s + (if is_exit x' then 0 else 1).
Proof.
  intros H. unfold live; cbn. pose proof (filter_set_nth_len (fun w => negb (is_exit w)) _ _ x' _ H) as Q.
  cbn in Q. destruct (is_exit x), (is_exit x'); cbn in Q; lia.
Qed.
Lemma forallb_set_nth {A} (f : A -> bool) w (x x' : A) l :
  nth_error l w = Some x -> forallb f (set_nth w x' l) = true -> f x' = true /\ (f x = true -> forallb f l = true).
Proof.
  intros H. destruct (set_nth_split _ _ _ H) as (a & b & E & F). rewrite F, E.
  rewrite !forallb_app. cbn. rewrite !andb_true_iff. intros (A1 & A2 & A3). split; [exact A2|]. intros X. auto.
Qed.
Lemma forallb_set_nth' {A} (f : A -> bool) w (x x' : A) l :
  nth_error l w = Some x -> forallb f l = true -> f x' = true -> forallb f (set_nth w x' l) = true.
Proof.
  intros H. destruct (set_nth_split _ _ _ H) as (a & b & E & F). rewrite F, E.
  rewrite !forallb_app. cbn. rewrite !andb_true_iff. intros (A1 & A2 & A3) X. auto.
Qed.
Lemma forallb_nth {A} (f : A -> bool) w (x : A) l : forallb f l = true -> nth_error l w = Some x -> f x = true.
Proof. intros F H. rewrite forallb_forall in F. apply F. eapply nth_error_In; eauto. Qed.
Lemma executing_le_live s : executing s <= live s.
Proof.
  unfold executing, live, exec_tasks. induction (workers s) as [|w r IH]; cbn; [lia|].
  destruct w; cbn; rewrite ?app_length; cbn; lia.
Qed.

(* submitters *)
Lemma no_pending_in s t g : no_pending s = true -> ~ In (t, SPending g) (subs s).
Proof. unfold no_pending. rewrite forallb_forall. intros F I. specialize (F _ I). discriminate. Qed.
Lemma no_pending_upd s t f :
  (forall st, is_pending (f st) = true -> is_pending st = true) ->
  no_pending s = true -> forallb (fun e => negb (is_pending (snd e))) (upd_sub t f (subs s)) = true.
Proof.
  unfold no_pending. intros P. rewrite !forallb_forall. intros F [u st] I. apply in_upd_sub in I.
  destruct I as (st0 & I & ->). specialize (F _ I). cbn in *. destruct (Nat.eqb u t); [|exact F].
  destruct (is_pending (f st0)) eqn:Q; [|reflexivity]. rewrite (P _ Q) in F. discriminate.
Qed.

Definition pcs (s : state) : Prop := stop_inv s /\ rz_inv s /\ free_inv s.
Lemma Str_pcs s : Str s -> pcs s.
Proof. intros St. split; [apply (s_stop _ St)|split; [apply (s_rz _ St)|apply (s_free _ St)]]. Qed.

Ltac unpc := unfold pcs, stop_inv, rz_inv, free_inv, idle_facts, running_facts, stopped_facts, stop_free, rz_free in *.

(* while the pool runs its queue is open, its context live and all its workers alive;
   the Stop and Resize sections exclude each other *)
Lemma pcs_running s : pcs s -> running s = true -> running_facts s.
Proof.
  unpc. intros (A & B & C) R. destruct (stop s), (rz s); try (apply C; reflexivity); intuition congruence.
Qed.
Lemma pcs_excl s : pcs s -> stop_free s = true \/ rz_free s = true.
Proof. unpc. intros (A & B & C). destruct (stop s), (rz s); intuition congruence. Qed.

(* frame lemmas: how the program-counter facts survive a change of one component *)
Lemma pcs_set_subs s x :
  (running s = false -> no_pending s = true -> no_pending (set_subs s x) = true) -> pcs s -> pcs (set_subs s x).
Proof.
  unpc. cbn [stop rz running resizing set_subs]. intros N (A & B & C).
  change (curgen (set_subs s x)) with (curgen s). change (all_exited (set_subs s x)) with (all_exited s).
  change (live (set_subs s x)) with (live s). change (maxw (set_subs s x)) with (maxw s).
  destruct (stop s), (rz s); intuition.
Qed.

Lemma pcs_set_workers s ws :
  (all_exited s = true -> forallb is_exit ws = true) ->
  (running_facts s -> length (filter (fun w => negb (is_exit w)) ws) = live s) ->
  pcs s -> pcs (set_workers s ws).
Proof.
  unpc. cbn [stop rz running resizing set_workers]. intros N L (A & B & C).
  change (curgen (set_workers s ws)) with (curgen s). change (no_pending (set_workers s ws)) with (no_pending s).
  change (all_exited (set_workers s ws)) with (forallb is_exit ws).
  change (live (set_workers s ws)) with (length (filter (fun w => negb (is_exit w)) ws)).
  change (maxw (set_workers s ws)) with (maxw s).
  unfold running_facts in L.
  destruct (stop s), (rz s); intuition (try congruence).
Qed.

(* the current generation is replaced by one with the same flags whose queue is empty if it was *)
Lemma pcs_put_curgen s G' :
  S (cur s) = length (gens s) ->
  g_closed G' = g_closed (curgen s) -> g_cancel G' = g_cancel (curgen s) ->
  (g_items (curgen s) = [] -> no_pending s = true -> all_exited s = true -> g_items G' = []) ->
  pcs s -> pcs (put_gen s (cur s) G').
Proof.
  intros SC F1 F2 F3. unpc. cbn [stop rz running resizing put_gen set_gens]. rewrite (curgen_put s G' SC).
  change (no_pending (put_gen s (cur s) G')) with (no_pending s).
  change (all_exited (put_gen s (cur s) G')) with (all_exited s).
  change (live (put_gen s (cur s) G')) with (live s). change (maxw (put_gen s (cur s) G')) with (maxw s).
  change (cur (put_gen s (cur s) G')) with (cur s).
  rewrite F1, F2. intros (A & B & C).
  destruct (stop s), (rz s); intuition.
Qed.
