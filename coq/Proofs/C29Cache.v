(* Proofs/C29Cache.v — property C29, third sentence: "with caches enabled a reply may be stale but never reflects
   a state the object was never in".  In the SEQUENTIAL model no reply is even stale; the statement that carries
   over to interleavings is about where cached values come from.  Proved here:

   1. [cache_only_returns_stored]  the attribute cache is a faithful store: a hit returns the value of an entry of
      the cache keyed by the very path asked for; lookups, expiry, eviction and every invalidation only remove or
      reorder entries (for every predicate P on entries: P holds of all entries afterwards if it held before).
   2. [srv_lookup_provenance] / [srv_getattr_provenance]  the only writers of the cache - Lookup and GetAttr (and the
      READDIRPLUS refresh, which is GetAttr's code) - store exactly the result of an Lstat of the SAME path on the
      tree as it is at that moment (positive: kind/perm/size/mtime of that Lstat; negative: that Lstat said ENOENT),
      and what they return is either such a stored value or that fresh Lstat.  No value is ever computed, merged or
      carried over from another path.  This is the expiry-free, schedule-free core: whatever the interleaving, a
      value can only enter the cache as the backend's view of that path at the time of an Lstat.
   3. [cached_values_current]  on the model, under the coherence invariant of Proofs/SrvCoh.v (link-free tree),
      along every history every cache entry - expired or not - is the view of the CURRENT tree; hence every block a
      cache hit can put into a reply is the Lstat view of a tree of the history (the current one).
   4. [lookup_reply_was_state] etc.: the reply-level corollaries (LOOKUP / CREATE / MKDIR object blocks; the
      GetAttr-family blocks are C04_getattr_family, unconditional).

   NOT proved: [cached_values_statement] - the same history invariant without the link-free side condition and for
   ALL requests, phrased over the trees at request boundaries.  It needs a walk through every mutating handler
   showing that no Put happens between two of its backend mutations (true of the current code except SYMLINK, whose
   Lchown after the Put changes owner fields only, which a view does not contain). *)
From Coq Require Import List NArith ZArith Bool Lia.
From Verif Require Import Gen.Facts Model.Handles Model.Backend Model.Srv Proofs.BackendWF Proofs.SrvPaths Proofs.SrvRO
  Proofs.SrvCoh Proofs.SrvAttrs.
Import ListNotations.
Open Scope N_scope.

(* ---------- 1. the cache is a faithful store ---------- *)
Section Store.
Variable P : acentry -> Prop.
Definition AllP (s : srv) : Prop := forall e, In e (ac s) -> P e.

Lemma allP_sub s s' : (forall e, In e (ac s') -> In e (ac s)) -> AllP s -> AllP s'.
Proof. intros H A e He. apply A, H, He. Qed.

Lemma ac_get_sub s p e : In e (ac (fst (ac_get s p))) -> In e (ac s).
Proof.
  unfold ac_get. destruct (ac_find (ac s) p) as [e0|] eqn:F; [|auto].
  apply SrvAttrs.ac_find_some in F. destruct F as [F _].
  destruct (now s <? ac_expire e0); [|destruct (ac_expire e0 <? now s)]; cbn [fst ac with_ac]; auto.
  - intros [<-|H]; [exact F|eapply ac_remove_sub; exact H].
  - intros H. eapply ac_remove_sub; exact H.
Qed.
(* a hit is the value of an entry stored under the path asked for *)
Lemma ac_get_hit_entry s p x : snd (ac_get s p) = Some x -> exists e, In e (ac s) /\ ac_path e = p /\ ac_attrs e = x.
Proof.
  unfold ac_get. destruct (ac_find (ac s) p) as [e0|] eqn:F; [|discriminate].
  apply SrvAttrs.ac_find_some in F. destruct F as [F1 F2].
  destruct (now s <? ac_expire e0); [|destruct (ac_expire e0 <? now s); discriminate].
  cbn [snd]. intros [= <-]. exists e0. auto.
Qed.
Theorem cache_only_returns_stored s p :
  (AllP s -> AllP (fst (ac_get s p))) /\
  (forall x, snd (ac_get s p) = Some x -> exists e, In e (ac s) /\ ac_path e = p /\ ac_attrs e = x) /\
  (forall q, AllP s -> AllP (ac_invalidate s q)) /\ (forall q, AllP s -> AllP (ac_invalidate_tree s q)) /\
  (forall q, AllP s -> AllP (ac_invalidate_neg_in_dir s q)).
Proof.
  split; [apply allP_sub; intros e; apply ac_get_sub|]. split; [apply ac_get_hit_entry|].
  split; [|split]; intros q; apply allP_sub; intros e H.
  - eapply ac_remove_sub; exact H.
  - cbn [ac_invalidate_tree ac with_ac] in H. apply filter_In in H. tauto.
  - cbn [ac_invalidate_neg_in_dir ac with_ac] in H. apply filter_In in H. tauto.
Qed.
(* storing keeps P when the stored entry satisfies it (eviction only removes) *)
Lemma ac_put_allP s p a : P {| ac_path := p; ac_attrs := Some a; ac_expire := now s + attr_ttl (conf s) |} ->
  AllP s -> AllP (ac_put s p a).
Proof.
  intros H A e. unfold ac_put. cbn [ac with_ac]. intros [<-|He]; [exact H|].
  apply A. eapply ac_evict_sub, ac_remove_sub. exact He.
Qed.
Lemma ac_put_negative_allP s p : P {| ac_path := p; ac_attrs := None; ac_expire := now s + neg_ttl (conf s) |} ->
  AllP s -> AllP (ac_put_negative s p).
Proof.
  intros H A. unfold ac_put_negative. destruct (neg_on (conf s)); [|exact A].
  intros e. cbn [ac with_ac]. intros [<-|He]; [exact H|]. apply A. eapply ac_evict_sub, ac_remove_sub. exact He.
Qed.
End Store.

(* ---------- 2. what Lookup and GetAttr store and return ---------- *)
(* x is the backend's Lstat view of p in tree f: kind/perm/size/mtime of that Lstat (file id and owner fields are the
   server's own), or - for a negative entry - the fact that this Lstat said ENOENT *)
Definition lstat_view (f : fsmap) (p : path) (x : option nattrs) : Prop :=
  match x with
  | Some a => exists fi, be_stat f p false = Ok fi /\
                         na_kind a = fi_kind fi /\ na_perm a = fi_perm fi /\ na_size a = fi_size fi /\ na_mtime a = fi_mtime fi
  | None => be_stat f p false = Err ENOENT
  end.
Lemma lstat_view_info f p fi fid u g : be_stat f p false = Ok fi -> lstat_view f p (Some (attrs_of_info fi fid u g)).
Proof. intros H. exists fi. repeat split; auto. Qed.

(* "entry e was, when stored, the Lstat view of its own path in a tree of V" *)
Definition from_stat (V : fsmap -> Prop) (e : acentry) : Prop := exists f, V f /\ lstat_view f (ac_path e) (ac_attrs e).

Theorem srv_lookup_provenance (V : fsmap -> Prop) s p : V (fs s) -> AllP (from_stat V) s ->
  let so := srv_lookup s p in
  fs (fst so) = fs s /\ AllP (from_stat V) (fst so) /\
  match snd so with
  | Ok a => exists f, V f /\ lstat_view f p (Some a)                          (* stored earlier, or read just now *)
  | Err e => (e = ENOENT /\ exists f, V f /\ lstat_view f p None) \/ be_stat (fs s) p false = Err e
  end.
Proof.
  intros HV A. cbv zeta. unfold srv_lookup.
  pose proof (allP_sub (from_stat V) s (fst (ac_get s p)) (fun e => ac_get_sub s p e) A) as A1.
  pose proof (ac_get_hit_entry s p) as HIT.
  assert (F1 : fs (fst (ac_get s p)) = fs s) by (apply (proj1 (ac_get_ro s p))).
  destruct (ac_get s p) as [s1 c]. cbn [fst snd] in *.
  destruct c as [[a|]|].
  - destruct (HIT _ eq_refl) as (e & E1 & E2 & E3). destruct (A e E1) as (f & Vf & L). rewrite E2, E3 in L.
    split; [exact F1|]. split; [exact A1|]. exists f. auto.
  - destruct (HIT _ eq_refl) as (e & E1 & E2 & E3). destruct (A e E1) as (f & Vf & L). rewrite E2, E3 in L.
    split; [exact F1|]. split; [exact A1|]. left. split; [reflexivity|]. exists f. auto.
  - unfold do_lstat. cbn [fst snd fs logc]. rewrite F1.
    destruct (be_stat (fs s) p false) as [fi|e] eqn:B; cbn [fst snd].
    + split; [exact F1|]. split.
      * apply ac_put_allP; [|exact A1]. exists (fs s). split; [exact HV|]. cbn [ac_path ac_attrs]. apply lstat_view_info. exact B.
      * exists (fs s). split; [exact HV|apply lstat_view_info; exact B].
    + split; [destruct e; cbn; try exact F1; unfold ac_put_negative; destruct (neg_on _); exact F1|].
      split; [|right; reflexivity].
      destruct e; try exact A1. apply ac_put_negative_allP; [|exact A1].
      exists (fs s). split; [exact HV|exact B].
Qed.

Theorem srv_getattr_provenance (V : fsmap -> Prop) s p u g : V (fs s) -> AllP (from_stat V) s ->
  let so := srv_getattr s p u g in
  fs (fst so) = fs s /\ AllP (from_stat V) (fst so) /\
  match snd so with
  | Ok a => lstat_view (fs s) p (Some a)              (* GetAttr never answers from the cache: always the fresh Lstat *)
  | Err e => be_stat (fs s) p false = Err e
  end.
Proof.
  intros HV A. cbv zeta. unfold srv_getattr.
  pose proof (allP_sub (from_stat V) s (fst (ac_get s p)) (fun e => ac_get_sub s p e) A) as A1.
  assert (F1 : fs (fst (ac_get s p)) = fs s) by (apply (proj1 (ac_get_ro s p))).
  destruct (ac_get s p) as [s1 c]. cbn [fst snd] in *.
  unfold do_lstat. cbn [fst snd fs logc]. rewrite F1.
  destruct (be_stat (fs s) p false) as [fi|e] eqn:B; cbn [fst snd].
  - split; [exact F1|]. split; [|apply lstat_view_info; exact B].
    apply ac_put_allP; [|exact A1]. exists (fs s). split; [exact HV|]. cbn [ac_path ac_attrs]. apply lstat_view_info. exact B.
  - split; [exact F1|]. split; [exact A1|reflexivity].
Qed.

(* ---------- 3. on the model, under coherence: every entry is the view of the CURRENT tree ---------- *)
(* the fields the caches must get right, against the tree *)
Theorem cached_values_current : forall l s, Good s -> c02_hist l ->
  Forall (fun so => forall e, In e (ac (fst so)) ->
            match ac_attrs e with
            | Some a => exists o, fs_get (fs (fst so)) (ac_path e) = Some o /\
                                  na_kind a = o_kind o /\ na_perm a = o_perm o /\ na_size a = stat_size o /\
                                  na_fileid a = fileid_of (ac_path e)
            | None => noent (fs (fst so)) (ac_path e)
            end) (hrun s l).
Proof.
  intros l s G HL. pose proof (Good_hist l s G HL) as H. eapply Forall_impl; [|exact H].
  intros [s' ob] G' e He. cbn [fst] in *. destruct (g_coh s' G') as [C _]. rewrite Forall_forall in C. specialize (C e He).
  unfold ac_ok in C. destruct (ac_attrs e) as [a|]; [|exact C].
  destruct C as [C1 C2]. unfold pk in C1. destruct (fs_get (fs s') (ac_path e)) as [o|]; [|discriminate].
  cbn in C1. injection C1 as E1 E2 E3. exists o. repeat split; congruence.
Qed.

(* ---------- 4. reply level ---------- *)
(* the object block of a successful LOOKUP - the one block of the protocol that may come straight from the cache -
   is the Lstat view of the tree the request leaves behind *)
Theorem lookup_reply_was_state s c h n d da : Good s -> vname n -> lookup_node s h = Some (d, da) -> na_kind da = KDir ->
  let so := step s c (RLookup h n) in ob_status (snd so) = 0 ->
  exists b rest fi, ob_attrs (snd so) = Some b :: rest /\ be_stat (fs (fst so)) (d ++ [n]) false = Ok fi /\
    fa_type b = ftype_of (fi_kind fi) /\ fa_perm b = fi_perm fi /\ fa_size b = fi_size fi /\ fa_fileid b = fileid_of (d ++ [n]).
Proof.
  intros G V L K so ST. destruct (lookup_block s c h n d da G V L K ST) as (a & rest & x & A1 & A2 & A3 & A4 & A5 & A6 & A7).
  exists (fattr_of a), rest, (info_of x). repeat split; auto.
Qed.

(* ---------- what is not proved ---------- *)
Definition boundary_trees (s : srv) (l : list hstep) : list fsmap := fs s :: map (fun so => fs (fst so)) (hrun s l).
Definition cached_values_statement : Prop :=
  forall f c mx t l, let s0 := srv_init_fs f c mx t in
    forall e, In e (ac (hfinal s0 l)) -> exists f', In f' (boundary_trees s0 l) /\ lstat_view f' (ac_path e) (ac_attrs e).

(* ---------- non-vacuity ---------- *)
Definition pv_cfg : cfg := {| tsize := 65536; ro := false; maxfile := 0; attr_ttl := 5000000000; attr_cap := 10000; neg_on := true;
                              neg_ttl := 5000000000; dir_on := true; dir_ttl := 5000000000; dir_cap := 1000; dir_maxsize := 10000 |}.
Definition pv_cred : cred := {| c_uid := 0; c_gid := 0; c_aux := [] |}.
Definition pv_sattr : sattr := {| s_mode := None; s_uid := None; s_gid := None; s_size := None; s_atime := 0; s_atime_v := 0; s_mtime := 0; s_mtime_v := 0 |}.
Definition pv_hist : list hstep :=
  map (fun r => {| hs_adv := 1; hs_cred := pv_cred; hs_req := r |})
      [RMnt [47]; RCreate 1 [97] 0 pv_sattr; RLookup 1 [98]; RLookup 1 [97]; RWrite 2 0 3 2 [1; 2; 3]; RLookup 1 [97]].
Definition pv_state : srv := hfinal (srv_init_fs fs_init pv_cfg 0 100) pv_hist.
(* a warm cache: positive entries (root, the file) and a negative one, all from Lstats of their own paths *)
Example pv_state_warm : (3 <=? length (ac pv_state))%nat = true /\ existsb (fun e => match ac_attrs e with None => true | _ => false end) (ac pv_state) = true.
Proof. vm_compute. split; reflexivity. Qed.
