(* Proofs/RecordMarkProofs.v — record marking: one-step unfolding of the reader loop, reassembly of arbitrary
   fragmentations, the writer produces a fragmentation, the fuel never runs out, allocation and size bounds. *)
From Coq Require Import List Arith NArith ZArith Bool Lia ZifyBool ZifyNat ZifyN.
From Verif Require Import Gen.Facts Model.Bytes Model.Xdr Model.RecordMark Proofs.BytesProofs Proofs.XdrProofs.
Import ListNotations.
Open Scope N_scope.

Ltac Zify.zify_post_hook ::= Z.to_euclidean_division_equations.

Lemma last_flag_val : last_flag = 2147483648. Proof. reflexivity. Qed.
Lemma max_fragment_val : max_fragment = 2147483647. Proof. reflexivity. Qed.

(* ---- one iteration of the reader loop on an arbitrary stream ---- *)
Lemma rr_S f emax acc s :
  rr (S f) emax acc s =
  if 4 <=? len s then
    let h := be_dec (take 4 s) in
    let s1 := drop 4 s in
    let flen := h mod last_flag in
    if max_fragment <? flen then (Err ELimit, s1, [Rd 4] ++ [])
    else if emax <? len acc + flen then (Err ELimit, s1, [Rd 4] ++ [])
    else if flen <=? len s1 then
      if last_flag <=? h then
        (Ok (acc ++ take flen s1), drop flen s1, [Rd 4] ++ rd flen ++ al (len (acc ++ take flen s1)) ++ [])
      else match rr f emax (acc ++ take flen s1) (drop flen s1) with
           | (r, s2, t2) => (r, s2, [Rd 4] ++ rd flen ++ t2)
           end
    else (Err EShort, [], [Rd 4] ++ rd flen)
  else (Err EShort, [], [Rd 4]).
Proof.
  cbn [rr]. destruct (4 <=? len s) eqn:E4.
  - apply N.leb_le in E4. unfold bind at 1. rewrite dec_u32_ok by exact E4. cbv zeta.
    destruct (max_fragment <? _); [reflexivity|].
    destruct (emax <? _); [reflexivity|].
    unfold bind at 1. unfold read_n.
    destruct (_ <=? len (drop 4 s)); [|reflexivity].
    destruct (last_flag <=? _); [reflexivity|].
    destruct (rr f emax _ _) as [[r s2] t2]. reflexivity.
  - apply N.leb_gt in E4. unfold bind. rewrite dec_u32_short by exact E4. reflexivity.
Qed.

(* ---- reassembly of an arbitrary fragmentation ---- *)
Fixpoint frags_trace (acc : N) (frs : list bytes) : list ev :=
  match frs with
  | [] => []
  | [f] => [Rd 4] ++ rd (len f) ++ al (acc + len f) ++ []
  | f :: r => [Rd 4] ++ rd (len f) ++ frags_trace (acc + len f) r
  end.

Lemma step_header (fl : N) rest k :
  k < 4294967296 ->
  4 <=? len (enc_u32 k ++ rest) = true /\ be_dec (take 4 (enc_u32 k ++ rest)) = k /\
  drop 4 (enc_u32 k ++ rest) = rest.
Proof.
  intros Hk. split; [apply N.leb_le; rewrite len_app, enc_u32_len; lia|]. split.
  - pose proof (take_app_len (enc_u32 k) rest) as X. rewrite enc_u32_len in X. rewrite X.
    unfold enc_u32. apply be_dec_enc. rewrite pow_256_4. exact Hk.
  - pose proof (drop_app_len (enc_u32 k) rest) as X. rewrite enc_u32_len in X. exact X.
Qed.

Lemma rr_frags emax rest frs : forall fuel acc,
  frs <> [] -> (length frs <= fuel)%nat ->
  len acc + len (concat frs) <= emax ->
  Forall (fun f => len f < last_flag) frs ->
  rr fuel emax acc (enc_frags frs ++ rest) = (Ok (acc ++ concat frs), rest, frags_trace (len acc) frs).
Proof.
  pose proof last_flag_val as LF. pose proof max_fragment_val as MF.
  induction frs as [|f r IH]; intros fuel acc Hne Hfuel Hsz Hall; [congruence|].
  destruct fuel as [|fuel]; [cbn in Hfuel; lia|].
  inversion Hall as [|? ? Hf Hr]; subst.
  cbn [concat] in Hsz. rewrite len_app in Hsz.
  destruct r as [|g r'].
  - (* the last fragment *)
    cbn [enc_frags concat frags_trace]. rewrite app_nil_r. rewrite <- app_assoc.
    rewrite rr_S.
    destruct (step_header 0 (f ++ rest) (len f + last_flag)) as (E1 & E2 & E3); [lia|].
    rewrite E1, E2, E3. cbv zeta.
    assert (M : (len f + last_flag) mod last_flag = len f) by (rewrite LF; lia). rewrite M.
    assert (C1 : max_fragment <? len f = false) by (apply N.ltb_ge; lia). rewrite C1.
    assert (C2 : emax <? len acc + len f = false) by (apply N.ltb_ge; cbn [concat] in Hsz; rewrite len_nil in Hsz; lia).
    rewrite C2.
    assert (C3 : len f <=? len (f ++ rest) = true) by (apply N.leb_le; rewrite len_app; lia). rewrite C3.
    assert (C4 : last_flag <=? len f + last_flag = true) by (apply N.leb_le; lia). rewrite C4.
    rewrite take_app_len, drop_app_len, len_app. reflexivity.
  - (* a non-final fragment *)
    change (enc_frags (f :: g :: r')) with (enc_u32 (len f) ++ f ++ enc_frags (g :: r')).
    change (frags_trace (len acc) (f :: g :: r')) with ([Rd 4] ++ rd (len f) ++ frags_trace (len acc + len f) (g :: r')).
    rewrite <- !app_assoc. rewrite rr_S.
    destruct (step_header 0 (f ++ enc_frags (g :: r') ++ rest) (len f)) as (E1 & E2 & E3); [lia|].
    rewrite E1, E2, E3. cbv zeta.
    assert (M : len f mod last_flag = len f) by (apply N.mod_small; exact Hf). rewrite M.
    assert (C1 : max_fragment <? len f = false) by (apply N.ltb_ge; lia). rewrite C1.
    assert (C2 : emax <? len acc + len f = false) by (apply N.ltb_ge; lia). rewrite C2.
    assert (C3 : len f <=? len (f ++ enc_frags (g :: r') ++ rest) = true) by (apply N.leb_le; rewrite len_app; lia).
    rewrite C3.
    assert (C4 : last_flag <=? len f = false) by (apply N.leb_gt; exact Hf). rewrite C4.
    rewrite take_app_len, drop_app_len.
    rewrite (IH fuel (acc ++ f)); [| discriminate | cbn [length] in *; lia | rewrite len_app; lia | exact Hr].
    rewrite len_app. cbn [concat]. rewrite <- app_assoc. reflexivity.
Qed.

Lemma enc_frags_length frs : (length frs <= length (enc_frags frs))%nat.
Proof.
  induction frs as [|f r IH]; [cbn; lia|].
  destruct r as [|g r'].
  - cbn [enc_frags]. rewrite app_length. pose proof (be_enc_length 4 (len f + last_flag)). unfold enc_u32. cbn [length]. lia.
  - change (enc_frags (f :: g :: r')) with (enc_u32 (len f) ++ f ++ enc_frags (g :: r')).
    rewrite !app_length. pose proof (be_enc_length 4 (len f)). unfold enc_u32. cbn [length] in *. lia.
Qed.

Lemma read_record_frags mx frs rest :
  frs <> [] -> len (concat frs) <= eff_max mx -> Forall (fun f => len f < last_flag) frs ->
  read_record mx (enc_frags frs ++ rest) = (Ok (concat frs), rest, frags_trace 0 frs).
Proof.
  intros Hne Hsz Hall. unfold read_record.
  apply (rr_frags (eff_max mx) rest frs (S (length (enc_frags frs ++ rest))) []).
  - exact Hne.
  - eapply Nat.le_trans; [apply enc_frags_length|]. rewrite app_length. lia.
  - change (len []) with 0. lia.
  - exact Hall.
Qed.

(* ---- the writer emits a fragmentation of its argument ---- *)
Lemma eff_frag_bounds mf : 0 < eff_frag mf <= 2147483647.
Proof.
  unfold eff_frag.
  assert (f_writer_frag_cap = 2147483647%Z) by reflexivity.
  assert (f_writer_fallback_frag = 1048576%Z) by reflexivity.
  destruct ((mf <=? 0)%Z || (f_writer_frag_cap <? mf)%Z) eqn:E; lia.
Qed.

Lemma wr_frags mf : 0 < mf -> forall fuel data,
  data <> [] -> (length data <= fuel)%nat ->
  exists frs, frs <> [] /\ concat frs = data /\ Forall (fun f => 0 < len f <= mf) frs /\
              wr fuel mf data = enc_frags frs.
Proof.
  intros Hmf. induction fuel as [|fuel IH]; intros data Hne Hfuel.
  - destruct data; [congruence|cbn in Hfuel; lia].
  - cbn [wr]. cbv zeta.
    assert (Hlen : 0 < len data) by (destruct data; [congruence|rewrite len_cons; lia]).
    destruct (len data =? N.min (len data) mf) eqn:E.
    + apply N.eqb_eq in E. exists [data]. repeat split.
      * discriminate.
      * cbn. apply app_nil_r.
      * constructor; [lia|constructor].
      * cbn [enc_frags]. rewrite <- E. reflexivity.
    + apply N.eqb_neq in E. assert (Hmin : N.min (len data) mf = mf) by lia. rewrite Hmin.
      assert (Hlt : mf < len data) by lia.
      destruct (IH (drop mf data)) as (frs & F1 & F2 & F3 & F4).
      * intros X. assert (Y := len_drop mf data). rewrite X in Y. change (len []) with 0 in Y. lia.
      * assert (Y := len_drop mf data). unfold len in *. lia.
      * exists (take mf data :: frs). repeat split.
        -- discriminate.
        -- cbn [concat]. rewrite F2. apply take_drop.
        -- constructor; [rewrite len_take by lia; lia|exact F3].
        -- rewrite F4. destruct frs as [|g frs']; [congruence|].
           change (enc_frags (take mf data :: g :: frs'))
             with (enc_u32 (len (take mf data)) ++ take mf data ++ enc_frags (g :: frs')).
           rewrite len_take by lia. reflexivity.
Qed.

Lemma write_record_frags mf data :
  exists frs, frs <> [] /\ concat frs = data /\ Forall (fun f => len f <= eff_frag mf) frs /\
              (data <> [] -> Forall (fun f => 0 < len f) frs) /\
              write_record mf data = enc_frags frs.
Proof.
  unfold write_record. destruct (len data =? 0) eqn:E.
  - apply N.eqb_eq in E. apply len_zero_nil in E. subst data. exists [[]]. repeat split.
    + discriminate.
    + constructor; [|constructor]. change (len []) with 0. pose proof (eff_frag_bounds mf). lia.
    + intros X. congruence.
  - apply N.eqb_neq in E.
    assert (Hne : data <> []) by (intros X; subst; apply E; reflexivity).
    destruct (wr_frags (eff_frag mf) (proj1 (eff_frag_bounds mf)) (length data) data Hne (le_n _))
      as (frs & F1 & F2 & F3 & F4).
    exists frs. repeat split; auto.
    + eapply Forall_impl; [|exact F3]. cbv beta. intros f Hf. lia.
    + intros _. eapply Forall_impl; [|exact F3]. cbv beta. intros f Hf. lia.
Qed.

Lemma read_write mx mf data rest :
  len data <= eff_max mx ->
  dec_ok (read_record mx (write_record mf data ++ rest)) = Some (data, rest).
Proof.
  intros Hsz. destruct (write_record_frags mf data) as (frs & F1 & F2 & F3 & _ & F5).
  rewrite F5. rewrite read_record_frags; [rewrite F2; reflexivity|exact F1|rewrite F2; exact Hsz|].
  eapply Forall_impl; [|exact F3]. cbv beta. intros f Hf.
  pose proof (eff_frag_bounds mf). rewrite last_flag_val. lia.
Qed.

(* ---- the fuel is never exhausted ---- *)
Lemma rr_no_fuel emax : forall fuel acc s, len s < N.of_nat fuel -> o_res (rr fuel emax acc s) <> Err EFuel.
Proof.
  induction fuel as [|fuel IH]; intros acc s Hlen; [lia|].
  rewrite rr_S. destruct (4 <=? len s) eqn:E4; [|cbn; discriminate].
  apply N.leb_le in E4. cbv zeta.
  destruct (max_fragment <? _); [cbn; discriminate|].
  destruct (emax <? _); [cbn; discriminate|].
  destruct (_ <=? len (drop 4 s)) eqn:E5; [|cbn; discriminate].
  destruct (last_flag <=? _); [cbn; discriminate|].
  specialize (IH (acc ++ take (be_dec (take 4 s) mod last_flag) (drop 4 s))
                 (drop (be_dec (take 4 s) mod last_flag) (drop 4 s))).
  destruct (rr fuel emax _ _) as [[r s2] t2]. unfold o_res in *. cbn [fst] in *. apply IH.
  rewrite !len_drop. lia.
Qed.
Lemma read_record_no_fuel mx s : o_res (read_record mx s) <> Err EFuel.
Proof. unfold read_record. apply rr_no_fuel. unfold len. lia. Qed.

(* ---- bounds on arbitrary streams ---- *)
Lemma rr_bounded emax : forall fuel acc s, len acc <= emax -> tr_le (N.max 4 emax) (o_trace (rr fuel emax acc s)).
Proof.
  induction fuel as [|fuel IH]; intros acc s Hacc; [constructor|].
  rewrite rr_S. destruct (4 <=? len s) eqn:E4; [|repeat constructor; cbn; lia].
  cbv zeta.
  destruct (max_fragment <? _); [repeat constructor; cbn; lia|].
  destruct (emax <? _) eqn:E2; [repeat constructor; cbn; lia|]. apply N.ltb_ge in E2.
  set (flen := be_dec (take 4 s) mod last_flag) in *.
  assert (R4 : tr_le (N.max 4 emax) [Rd 4]) by (repeat constructor; cbn; lia).
  assert (Rf : tr_le (N.max 4 emax) (rd flen)) by (apply tr_le_rd; lia).
  destruct (flen <=? len (drop 4 s)) eqn:E5; [|apply tr_le_app; assumption].
  apply N.leb_le in E5.
  assert (La : len (acc ++ take flen (drop 4 s)) = len acc + flen) by (rewrite len_app, len_take by exact E5; reflexivity).
  destruct (last_flag <=? _).
  - cbn [o_trace snd]. apply tr_le_app; [exact R4|]. apply tr_le_app; [exact Rf|].
    apply tr_le_app; [|constructor]. apply tr_le_al. lia.
  - specialize (IH (acc ++ take flen (drop 4 s)) (drop flen (drop 4 s))).
    destruct (rr fuel emax _ _) as [[r s2] t2]. cbn [o_trace snd] in *.
    apply tr_le_app; [exact R4|]. apply tr_le_app; [exact Rf|]. apply IH. lia.
Qed.
Lemma read_record_bounded mx s : tr_le (N.max 4 (eff_max mx)) (o_trace (read_record mx s)).
Proof. unfold read_record. apply rr_bounded. change (len []) with 0. lia. Qed.

(* a returned record never exceeds the limit *)
Lemma rr_result_size emax : forall fuel acc s r s' t,
  len acc <= emax -> rr fuel emax acc s = (Ok r, s', t) -> len r <= emax.
Proof.
  induction fuel as [|fuel IH]; intros acc s r s' t Hacc H; [discriminate|].
  rewrite rr_S in H. destruct (4 <=? len s); [|discriminate]. cbv zeta in H.
  destruct (max_fragment <? _); [discriminate|].
  destruct (emax <? _) eqn:E2; [discriminate|]. apply N.ltb_ge in E2.
  set (flen := be_dec (take 4 s) mod last_flag) in *.
  destruct (flen <=? len (drop 4 s)) eqn:E5; [|discriminate]. apply N.leb_le in E5.
  assert (La : len (acc ++ take flen (drop 4 s)) = len acc + flen) by (rewrite len_app, len_take by exact E5; reflexivity).
  destruct (last_flag <=? _).
  - injection H as <- _ _. lia.
  - destruct (rr fuel emax _ _) as [[r2 s2] t2] eqn:Er. injection H as -> -> _.
    eapply IH; [|exact Er]. lia.
Qed.
Lemma read_record_result_size mx s r s' t : read_record mx s = (Ok r, s', t) -> len r <= eff_max mx.
Proof. unfold read_record. apply rr_result_size. change (len []) with 0. lia. Qed.

(* a fragment header that would push the record over the limit: rejected behind the header, before the
   fragment buffer is allocated -- at any point of the record (acc = what was accumulated so far) *)
Lemma rr_over fuel emax acc s :
  4 <= len s -> emax < len acc + be_dec (take 4 s) mod last_flag ->
  rr (S fuel) emax acc s = (Err ELimit, drop 4 s, [Rd 4] ++ []).
Proof.
  intros H4 Hov. rewrite rr_S. apply N.leb_le in H4. rewrite H4. cbv zeta.
  destruct (max_fragment <? _); [reflexivity|]. apply N.ltb_lt in Hov. rewrite Hov. reflexivity.
Qed.
Lemma read_record_over mx s :
  4 <= len s -> eff_max mx < be_dec (take 4 s) mod last_flag ->
  read_record mx s = (Err ELimit, drop 4 s, [Rd 4]).
Proof. intros H4 Hov. unfold read_record. rewrite rr_over; auto. Qed.

(* ---- theorem-shaped corollaries (cited by Properties/C13.v) ---- *)
Lemma fragments_lemma : forall mx frs rest,
  frs <> [] -> len (concat frs) <= eff_max mx -> Forall (fun f => len f < last_flag) frs ->
  read_record mx (enc_frags frs ++ rest) = (Ok (concat frs), rest, frags_trace 0 frs).
Proof. exact read_record_frags. Qed.
(* for limits below 2^31 (in particular the default) the per-fragment hypothesis is implied by the total *)
Lemma fragments_small_lemma : forall mx r frs rest,
  eff_max mx < last_flag -> frs <> [] -> concat frs = r -> len r <= eff_max mx ->
  dec_ok (read_record mx (enc_frags frs ++ rest)) = Some (r, rest).
Proof.
  intros mx r frs rest Hmx Hne Hc Hsz. subst r. rewrite read_record_frags; auto.
  clear Hne. induction frs as [|f frs IH]; constructor.
  - cbn [concat] in Hsz. rewrite len_app in Hsz. lia.
  - apply IH. cbn [concat] in Hsz. rewrite len_app in Hsz. lia.
Qed.
Lemma write_read_lemma : forall mx mf r rest, len r <= eff_max mx ->
  dec_ok (read_record mx (write_record mf r ++ rest)) = Some (r, rest).
Proof. intros. apply read_write. assumption. Qed.
Lemma writer_shape_lemma : forall mf data,
  exists frs, frs <> [] /\ concat frs = data /\ Forall (fun f => len f <= eff_frag mf) frs /\
              (data <> [] -> Forall (fun f => 0 < len f) frs) /\ write_record mf data = enc_frags frs.
Proof. exact write_record_frags. Qed.
Lemma record_bounds_lemma :
  (forall mx s, tr_le (N.max 4 (eff_max mx)) (o_trace (read_record mx s))) /\
  (forall mx s r s' t, read_record mx s = (Ok r, s', t) -> len r <= eff_max mx) /\
  (forall mx s, 4 <= len s -> eff_max mx < be_dec (take 4 s) mod last_flag ->
     read_record mx s = (Err ELimit, drop 4 s, [Rd 4])) /\
  (forall fuel emax acc s, 4 <= len s -> emax < len acc + be_dec (take 4 s) mod last_flag ->
     rr (S fuel) emax acc s = (Err ELimit, drop 4 s, [Rd 4] ++ [])) /\
  (forall mx s, o_res (read_record mx s) <> Err EFuel).
Proof.
  split; [exact read_record_bounded|]. split; [exact read_record_result_size|].
  split; [exact read_record_over|]. split; [exact rr_over|exact read_record_no_fuel].
Qed.
