(* Proofs/PortmapProofs.v — lemmas about Model/Portmap.v (C27). *)
From Coq Require Import List NArith ZArith Bool Lia ZifyBool ZifyNat ZifyN.
From Verif Require Import Model.Portmap.
Import ListNotations.
Open Scope N_scope.

Ltac Zify.zify_post_hook ::= Z.div_mod_to_equations.

(* ---------- words and bytes ---------- *)
Lemma get32_enc32 : forall v r, get32 (enc32 v ++ r) = Some (v mod 4294967296, r).
Proof.
  intros v r. unfold enc32, get32. cbn [app]. f_equal. f_equal. lia.
Qed.

Lemma enc32_bytes : forall v, bytes_ok (enc32 v) = true.
Proof.
  intros v. unfold bytes_ok, enc32, is_byte. cbn [forallb].
  repeat rewrite andb_true_iff. repeat split; try reflexivity; apply N.ltb_lt; apply N.mod_lt; discriminate.
Qed.

Lemma bytes_ok_app : forall a b, bytes_ok (a ++ b) = bytes_ok a && bytes_ok b.
Proof. intros a b. unfold bytes_ok. apply forallb_app. Qed.

Lemma get32_ok : forall s v r, bytes_ok s = true -> get32 s = Some (v, r) ->
  v < 4294967296 /\ bytes_ok r = true.
Proof.
  intros s v r Hb Hg. destruct s as [|a [|b [|c [|d s']]]]; try discriminate.
  cbn in Hg. inversion Hg; subst; clear Hg.
  unfold bytes_ok in Hb. cbn [forallb] in Hb. unfold is_byte in Hb.
  repeat rewrite andb_true_iff in Hb. destruct Hb as (Ha & Hb' & Hc & Hd & Hr).
  apply N.ltb_lt in Ha, Hb', Hc, Hd. split; [lia|exact Hr].
Qed.

(* ---------- the guard ---------- *)
(* the code's case analysis decides exactly the spec-level predicate *)
Lemma guard_spec : forall c, is_loopback_addr c = local_caller c.
Proof.
  intros [|i z p|[i|]]; unfold is_loopback_addr, classify, local_caller; try reflexivity;
    destruct (is_loopback i); reflexivity.
Qed.

Lemma v2_set_nonlocal : forall reg c args, local_caller c = false -> fst (v2_set reg c args) = reg.
Proof.
  intros reg c args H. unfold v2_set, v2_refused. rewrite guard_spec, H. reflexivity.
Qed.
Lemma v2_unset_nonlocal : forall reg c args, local_caller c = false -> fst (v2_unset reg c args) = reg.
Proof.
  intros reg c args H. unfold v2_unset, v2_refused. rewrite guard_spec, H. reflexivity.
Qed.

Lemma v2_proc_nonlocal : forall reg c proc args reg' res, local_caller c = false ->
  v2_proc reg c proc args = Some (reg', res) -> reg' = reg.
Proof.
  intros reg c proc args reg' res Hc H. unfold v2_proc in H.
  destruct (proc =? P_NULL); [inversion H; reflexivity|].
  destruct (proc =? P_SET).
  { inversion H as [H1]. rewrite <- (v2_set_nonlocal reg c args Hc). rewrite H1. reflexivity. }
  destruct (proc =? P_UNSET).
  { inversion H as [H1]. rewrite <- (v2_unset_nonlocal reg c args Hc). rewrite H1. reflexivity. }
  destruct (proc =? P_GETPORT); [inversion H; reflexivity|].
  destruct (proc =? P_DUMP); [inversion H; reflexivity|discriminate].
Qed.

Lemma rpcb_proc_nonlocal : forall la reg c proc args reg' res, local_caller c = false ->
  rpcb_proc la reg c proc args = Some (reg', res) -> reg' = reg.
Proof.
  intros la reg c proc args reg' res Hc H. unfold rpcb_proc in H. rewrite guard_spec, Hc in H.
  destruct (proc =? 0); [inversion H; reflexivity|].
  destruct (proc =? 1); [inversion H; reflexivity|].
  destruct (proc =? 2); [inversion H; reflexivity|].
  destruct (proc =? 3); [inversion H; reflexivity|].
  destruct (proc =? 4); [inversion H; reflexivity|discriminate].
Qed.

Lemma dispatch_nonlocal : forall la reg c h args, local_caller c = false ->
  fst (dispatch la reg c h args) = reg.
Proof.
  intros la reg c h args Hc. unfold dispatch.
  destruct (negb (h_prog h =? PMAP_PROG)); [reflexivity|].
  destruct (negb (supported (h_vers h))); [reflexivity|].
  destruct (h_vers h =? 2).
  - destruct (v2_proc reg c (h_proc h) args) as [[reg' res]|] eqn:E; [|reflexivity].
    cbn [fst]. exact (v2_proc_nonlocal _ _ _ _ _ _ Hc E).
  - destruct (rpcb_proc la reg c (h_proc h) args) as [[reg' res]|] eqn:E; [|reflexivity].
    cbn [fst]. exact (rpcb_proc_nonlocal _ _ _ _ _ _ _ Hc E).
Qed.

Lemma handle_call_nonlocal : forall la reg c data, local_caller c = false ->
  fst (handle_call la reg c data) = reg.
Proof.
  intros la reg c data Hc. unfold handle_call.
  destruct (decode_header data) as [[h args]|]; [|reflexivity].
  pose proof (dispatch_nonlocal la reg c h args Hc) as H.
  destruct (dispatch la reg c h args) as [reg' r]. exact H.
Qed.

(* the registry changes only through SET / UNSET of the three versions *)
Lemma dispatch_changes_only_by_set_unset : forall la reg c h args,
  fst (dispatch la reg c h args) <> reg ->
  h_prog h = PMAP_PROG /\ supported (h_vers h) = true /\ (h_proc h = 1 \/ h_proc h = 2) /\ local_caller c = true.
Proof.
  intros la reg c h args H.
  destruct (local_caller c) eqn:Hc; [|exfalso; apply H; apply dispatch_nonlocal; exact Hc].
  unfold dispatch in H.
  destruct (h_prog h =? PMAP_PROG) eqn:Hp; cbn [negb] in H; [|exfalso; apply H; reflexivity].
  destruct (supported (h_vers h)) eqn:Hs; cbn [negb] in H; [|exfalso; apply H; reflexivity].
  apply N.eqb_eq in Hp. repeat split; try assumption.
  destruct (h_vers h =? 2).
  - unfold v2_proc in H. change P_NULL with 0 in H. change P_SET with 1 in H. change P_UNSET with 2 in H.
    destruct (h_proc h =? 0); [exfalso; apply H; reflexivity|].
    destruct (h_proc h =? 1) eqn:E1; [left; apply N.eqb_eq; exact E1|].
    destruct (h_proc h =? 2) eqn:E2; [right; apply N.eqb_eq; exact E2|].
    exfalso; apply H.
    destruct (h_proc h =? P_GETPORT); [reflexivity|]. destruct (h_proc h =? P_DUMP); reflexivity.
  - unfold rpcb_proc in H.
    destruct (h_proc h =? 0); [exfalso; apply H; reflexivity|].
    destruct (h_proc h =? 1) eqn:E1; [left; apply N.eqb_eq; exact E1|].
    destruct (h_proc h =? 2) eqn:E2; [right; apply N.eqb_eq; exact E2|].
    exfalso; apply H.
    destruct (h_proc h =? 3); [reflexivity|]. destruct (h_proc h =? 4); reflexivity.
Qed.

(* ---------- opaque / string round trips ---------- *)
Lemma take_exact_0 : forall s, take_exact 0 s = Some ([], s).
Proof. intros s. unfold take_exact. destruct (len s <? 0) eqn:E; [apply N.ltb_lt in E; lia|reflexivity]. Qed.

Lemma take_exact_app : forall a r, take_exact (len a) (a ++ r) = Some (a, r).
Proof.
  intros a r. unfold take_exact, len. rewrite app_length.
  destruct (N.of_nat (length a + length r) <? N.of_nat (length a)) eqn:E; [apply N.ltb_lt in E; lia|].
  rewrite Nat2N.id. rewrite firstn_app, skipn_app, Nat.sub_diag, firstn_all, skipn_all. cbn.
  rewrite app_nil_r. reflexivity.
Qed.

Lemma len_repeat : forall n, len (repeat 0 (N.to_nat n)) = n.
Proof. intros n. unfold len. rewrite repeat_length. apply N2Nat.id. Qed.

Lemma forallb_repeat0 : forall k, forallb (N.eqb 0) (repeat 0 k) = true.
Proof. induction k; [reflexivity|cbn; exact IHk]. Qed.

Lemma p_opaque_put : forall mx b r, len b <= mx -> len b < 4294967296 ->
  p_opaque mx (put_string b ++ r) = Some (b, r).
Proof.
  intros mx b r Hm Hl. unfold p_opaque, put_string. rewrite <- app_assoc, get32_enc32. cbn [bind].
  rewrite N.mod_small by exact Hl.
  destruct (mx <? len b) eqn:E; [apply N.ltb_lt in E; lia|].
  rewrite <- app_assoc, take_exact_app. cbn [bind].
  pose proof (take_exact_app (repeat 0 (N.to_nat (pad_of (len b)))) r) as T. rewrite len_repeat in T.
  rewrite T. cbn [bind]. rewrite forallb_repeat0. reflexivity.
Qed.

Lemma bytes_ok_repeat0 : forall k, bytes_ok (repeat 0 k) = true.
Proof. induction k; [reflexivity|cbn; exact IHk]. Qed.

Lemma put_string_bytes : forall b, bytes_ok b = true -> bytes_ok (put_string b) = true.
Proof.
  intros b H. unfold put_string. rewrite !bytes_ok_app, enc32_bytes, H, bytes_ok_repeat0. reflexivity.
Qed.

(* ---------- decimal printing ---------- *)
Lemma dec_aux_length : forall f n acc, (length (dec_aux f n acc) <= f + length acc)%nat.
Proof.
  induction f as [|f IH]; intros n acc; cbn [dec_aux]; [lia|].
  destruct (n / 10 =? 0); [cbn [length]; lia|].
  specialize (IH (n / 10) ((48 + n mod 10) :: acc)). cbn [length] in IH. lia.
Qed.

Lemma dec_aux_bytes : forall f n acc, bytes_ok acc = true -> bytes_ok (dec_aux f n acc) = true.
Proof.
  induction f as [|f IH]; intros n acc H; cbn [dec_aux]; [exact H|].
  assert (Hb : bytes_ok ((48 + n mod 10) :: acc) = true).
  { unfold bytes_ok. cbn [forallb]. fold (bytes_ok acc). rewrite H, andb_true_r.
    unfold is_byte. apply N.ltb_lt. lia. }
  destruct (n / 10 =? 0); [exact Hb|apply IH; exact Hb].
Qed.

Lemma dec_length : forall n, n < 4294967296 -> (length (dec n) <= 33)%nat.
Proof.
  intros n Hn. unfold dec. pose proof (dec_aux_length (S (N.to_nat (N.log2 n))) n []) as H.
  cbn [length] in H.
  assert (N.log2 n < 32).
  { destruct (N.eq_dec n 0) as [->|Hz]; [cbn; lia|]. apply N.log2_lt_pow2; lia. }
  lia.
Qed.
Lemma dec_bytes : forall n, bytes_ok (dec n) = true.
Proof. intros n. unfold dec. apply dec_aux_bytes. reflexivity. Qed.

Definition la_ok (la : list N) : bool := bytes_ok la && (len la <? 4294967000).

Lemma listen_host_ok : forall la, la_ok la = true -> la_ok (listen_host la) = true.
Proof. intros [|a la] H; [reflexivity|exact H]. Qed.

Lemma fmt_uaddr_ok : forall host port, la_ok host = true -> port < 4294967296 ->
  bytes_ok (fmt_uaddr host port) = true /\ len (fmt_uaddr host port) < 4294967296.
Proof.
  intros host port Hh Hp. unfold la_ok in Hh. apply andb_true_iff in Hh. destruct Hh as [Hb Hl].
  apply N.ltb_lt in Hl. unfold fmt_uaddr. split.
  - rewrite !bytes_ok_app, Hb, !dec_bytes. reflexivity.
  - unfold len in *. rewrite !app_length. cbn [length].
    assert (H1 : port / 256 < 4294967296) by (apply N.lt_le_trans with (m := port / 256 + 1); [lia|]; lia).
    assert (H2 : port mod 256 < 4294967296) by lia.
    pose proof (dec_length _ H1). pose proof (dec_length _ H2). lia.
Qed.

(* ---------- registry invariants ---------- *)
Definition entry_ok (e : key * N) : bool :=
  let '((p, v, t), port) := e in u32 p && u32 v && u32 t && u32 port.
Definition reg_ok (r : registry) : bool := forallb entry_ok r.

Lemma entry_ok_inv : forall p v t port, entry_ok ((p, v, t), port) = true ->
  p < 4294967296 /\ v < 4294967296 /\ t < 4294967296 /\ port < 4294967296.
Proof.
  intros p v t port H. unfold entry_ok, u32 in H. repeat rewrite andb_true_iff in H.
  destruct H as [[[H1 H2] H3] H4]. apply N.ltb_lt in H1, H2, H3, H4. auto.
Qed.
Lemma entry_ok_intro : forall p v t port,
  p < 4294967296 -> v < 4294967296 -> t < 4294967296 -> port < 4294967296 -> entry_ok ((p, v, t), port) = true.
Proof.
  intros p v t port H1 H2 H3 H4. unfold entry_ok, u32. apply N.ltb_lt in H1, H2, H3, H4.
  rewrite H1, H2, H3, H4. reflexivity.
Qed.

Lemma register_ok : forall k port r, reg_ok r = true -> entry_ok (k, port) = true -> reg_ok (register k port r) = true.
Proof.
  intros k port r. induction r as [|[k' p'] r IH]; intros Hr He; cbn [register].
  - unfold reg_ok. cbn [forallb]. rewrite He. reflexivity.
  - cbn [reg_ok forallb] in Hr. apply andb_true_iff in Hr. destruct Hr as [H1 H2].
    destruct (key_eqb k' k) eqn:E.
    + cbn [reg_ok forallb]. rewrite H2, andb_true_r.
      destruct k' as [[a b] c], k as [[a' b'] c']. unfold entry_ok in *.
      repeat rewrite andb_true_iff in *. tauto.
    + cbn [reg_ok forallb]. rewrite H1. apply IH; assumption.
Qed.
Lemma unregister_ok : forall k r, reg_ok r = true -> reg_ok (unregister k r) = true.
Proof.
  intros k r. induction r as [|[k' p'] r IH]; intros Hr; cbn [unregister]; [reflexivity|].
  cbn [reg_ok forallb] in Hr. apply andb_true_iff in Hr. destruct Hr as [H1 H2].
  destruct (key_eqb k' k); [exact H2|]. cbn [reg_ok forallb]. rewrite H1. apply IH. exact H2.
Qed.

Lemma key_eqb_spec : forall a b, reflect (a = b) (key_eqb a b).
Proof.
  intros [[p v] t] [[p' v'] t']. unfold key_eqb.
  destruct (N.eqb_spec p p'), (N.eqb_spec v v'), (N.eqb_spec t t'); cbn; constructor; congruence.
Qed.
Lemma key_eqb_refl : forall k, key_eqb k k = true.
Proof. intros k. destruct (key_eqb_spec k k); congruence. Qed.

Definition keys (r : registry) : list key := map fst r.

Lemma register_keys_in : forall k port r k0, In k0 (keys (register k port r)) -> k0 = k \/ In k0 (keys r).
Proof.
  intros k port r k0. induction r as [|[k' p'] r IH]; cbn [register keys map fst In].
  - intros [H|[]]; auto.
  - destruct (key_eqb_spec k' k) as [->|Hn]; cbn [map fst In]; intros [H|H]; auto.
    destruct (IH H); auto.
Qed.
Lemma register_nodup : forall k port r, NoDup (keys r) -> NoDup (keys (register k port r)).
Proof.
  intros k port r. induction r as [|[k' p'] r IH]; intros H; cbn [register].
  - cbn. constructor; [intros []|constructor].
  - cbn [keys map fst] in H. inversion H as [|x l Hnin Hnd]; subst.
    destruct (key_eqb_spec k' k) as [->|Hn]; cbn [keys map fst].
    + constructor; assumption.
    + constructor; [|apply IH; exact Hnd].
      intros Hin. apply register_keys_in in Hin. destruct Hin as [->|Hin]; [congruence|exact (Hnin Hin)].
Qed.
Lemma unregister_keys_in : forall k r k0, In k0 (keys (unregister k r)) -> In k0 (keys r).
Proof.
  intros k r k0. induction r as [|[k' p'] r IH]; cbn [unregister keys map fst In]; [auto|].
  destruct (key_eqb k' k); cbn [map fst In]; intros H; [auto|]. destruct H; auto.
Qed.
Lemma unregister_nodup : forall k r, NoDup (keys r) -> NoDup (keys (unregister k r)).
Proof.
  intros k r. induction r as [|[k' p'] r IH]; intros H; cbn [unregister]; [exact H|].
  cbn [keys map fst] in H. inversion H as [|x l Hnin Hnd]; subst.
  destruct (key_eqb k' k); [exact Hnd|]. cbn [keys map fst]. constructor; [|apply IH; exact Hnd].
  intros Hin. apply Hnin. exact (unregister_keys_in _ _ _ Hin).
Qed.

(* the abstract-map reading of register / unregister *)
Lemma lookup_register : forall k port r k0,
  lookup k0 (register k port r) = if key_eqb k k0 then Some port else lookup k0 r.
Proof.
  intros k port r k0. induction r as [|[k' p'] r IH]; cbn [register lookup].
  - reflexivity.
  - destruct (key_eqb_spec k' k) as [->|Hn]; cbn [lookup].
    + destruct (key_eqb k k0); reflexivity.
    + rewrite IH. destruct (key_eqb_spec k' k0) as [->|Hn0]; [|reflexivity].
      destruct (key_eqb_spec k k0) as [->|]; [congruence|reflexivity].
Qed.
Lemma lookup_not_in : forall k r, ~ In k (keys r) -> lookup k r = None.
Proof.
  intros k r. induction r as [|[k' p'] r IH]; intros H; cbn [lookup]; [reflexivity|].
  cbn [keys map fst In] in H. destruct (key_eqb_spec k' k) as [->|Hn]; [exfalso; apply H; auto|].
  apply IH. intros Hin. apply H. auto.
Qed.
Lemma lookup_unregister : forall k r k0, NoDup (keys r) ->
  lookup k0 (unregister k r) = if key_eqb k k0 then None else lookup k0 r.
Proof.
  intros k r k0. induction r as [|[k' p'] r IH]; intros Hnd; cbn [unregister lookup].
  - destruct (key_eqb k k0); reflexivity.
  - cbn [keys map fst] in Hnd. inversion Hnd as [|x l Hnin Hnd']; subst.
    destruct (key_eqb_spec k' k) as [->|Hn].
    + destruct (key_eqb_spec k k0) as [->|Hn0]; [apply lookup_not_in; exact Hnin|reflexivity].
    + cbn [lookup]. rewrite (IH Hnd').
      destruct (key_eqb_spec k' k0) as [->|Hn0]; [|reflexivity].
      destruct (key_eqb_spec k k0) as [->|]; [congruence|reflexivity].
Qed.
(* elements of the map = entries of the registry *)
Lemma lookup_in : forall r k port, NoDup (keys r) -> (In (k, port) r <-> lookup k r = Some port).
Proof.
  intros r k port. induction r as [|[k' p'] r IH]; intros Hnd; cbn [lookup In].
  - split; [intros []|discriminate].
  - cbn [keys map fst] in Hnd. inversion Hnd as [|x l Hnin Hnd']; subst.
    destruct (key_eqb_spec k' k) as [->|Hn].
    + split.
      * intros [H|H]; [congruence|]. exfalso. apply Hnin. change k with (fst (k, port)). apply in_map. exact H.
      * intros H. left. congruence.
    + rewrite <- (IH Hnd'). split; [intros [H|H]; [congruence|exact H]|auto].
Qed.

(* ---------- the DUMP bodies decode to the registry ---------- *)
Lemma p_bool_enc : forall b r, p_bool (enc_bool b ++ r) = Some (b, r).
Proof. intros [|] r; unfold p_bool, enc_bool; rewrite get32_enc32; reflexivity. Qed.
Lemma p_bool_enc1 : forall r, p_bool (enc32 1 ++ r) = Some (true, r).
Proof. intros r. exact (p_bool_enc true r). Qed.
Lemma p_bool_enc0 : forall r, p_bool (enc32 0 ++ r) = Some (false, r).
Proof. intros r. exact (p_bool_enc false r). Qed.

Lemma p_pmaplist_dump : forall reg rest fuel, reg_ok reg = true -> (length reg < fuel)%nat ->
  p_pmaplist fuel (flat_map enc_mapping reg ++ enc32 0 ++ rest) = Some (reg, rest).
Proof.
  induction reg as [|[[[p v] t] port] reg IH]; intros rest fuel Hok Hf;
    (destruct fuel as [|fuel]; [cbn [length] in Hf; lia|]); cbn [p_pmaplist flat_map].
  - cbn [app]. rewrite p_bool_enc0. reflexivity.
  - cbn [reg_ok forallb] in Hok. apply andb_true_iff in Hok. destruct Hok as [He Hok].
    apply entry_ok_inv in He. destruct He as (Hp & Hv & Ht & Hpo).
    unfold enc_mapping. repeat rewrite <- app_assoc. rewrite p_bool_enc1. cbn [bind].
    repeat (rewrite get32_enc32; cbn [bind]).
    rewrite IH; [|exact Hok|cbn [length] in Hf; lia]. cbn [bind].
    rewrite !N.mod_small by assumption. reflexivity.
Qed.

Definition rpcb_view (la : list N) (e : key * N) : rpcb_entry :=
  let '((p, v, t), port) := e in (p, v, netid_of t, fmt_uaddr (listen_host la) port, s_superuser).

Lemma p_string_put : forall b r, len b < 4294967296 -> p_string (put_string b ++ r) = Some (b, r).
Proof. intros b r H. unfold p_string. apply p_opaque_put; lia. Qed.

Lemma netid_of_len : forall t, len (netid_of t) < 4294967296.
Proof. intros t. unfold netid_of. destruct (t =? TCP); cbn; lia. Qed.

Lemma p_rpcblist_dump : forall la reg rest fuel, la_ok la = true -> reg_ok reg = true -> (length reg < fuel)%nat ->
  p_rpcblist fuel (flat_map (enc_rpcb la) reg ++ enc32 0 ++ rest) = Some (map (rpcb_view la) reg, rest).
Proof.
  intros la. induction reg as [|[[[p v] t] port] reg IH]; intros rest fuel Hla Hok Hf;
    (destruct fuel as [|fuel]; [cbn [length] in Hf; lia|]); cbn [p_rpcblist flat_map map].
  - cbn [app]. rewrite p_bool_enc0. reflexivity.
  - cbn [reg_ok forallb] in Hok. apply andb_true_iff in Hok. destruct Hok as [He Hok].
    apply entry_ok_inv in He. destruct He as (Hp & Hv & Ht & Hpo).
    unfold enc_rpcb. repeat rewrite <- app_assoc. rewrite p_bool_enc1. cbn [bind].
    repeat (rewrite get32_enc32; cbn [bind]).
    rewrite p_string_put by apply netid_of_len. cbn [bind].
    rewrite p_string_put by (apply fmt_uaddr_ok; [apply listen_host_ok; exact Hla|exact Hpo]). cbn [bind].
    rewrite p_string_put by (cbn; lia). cbn [bind].
    rewrite IH; [|exact Hla|exact Hok|cbn [length] in Hf; lia]. cbn [bind].
    unfold rpcb_view. rewrite !N.mod_small by assumption. reflexivity.
Qed.

Lemma flat_map_length_ge : forall {A} (f : A -> list N) l, (forall e, (1 <= length (f e))%nat) ->
  (length l <= length (flat_map f l))%nat.
Proof.
  intros A f l Hf. induction l as [|e l IH]; cbn [flat_map length]; [lia|].
  rewrite app_length. specialize (Hf e). lia.
Qed.

Lemma enc_mapping_len : forall e, (1 <= length (enc_mapping e))%nat.
Proof. intros [[[p v] t] port]. unfold enc_mapping. rewrite !app_length. cbn. lia. Qed.
Lemma enc_rpcb_len : forall la e, (1 <= length (enc_rpcb la e))%nat.
Proof. intros la [[[p v] t] port]. unfold enc_rpcb. rewrite !app_length. cbn. lia. Qed.

Lemma v2_dump_decodes : forall reg, reg_ok reg = true ->
  p_pmaplist (S (length (v2_dump reg))) (v2_dump reg) = Some (reg, []).
Proof.
  intros reg Hok. unfold v2_dump.
  rewrite <- (app_nil_r (enc32 0)) at 2. apply p_pmaplist_dump; [exact Hok|].
  rewrite app_length. pose proof (flat_map_length_ge enc_mapping reg enc_mapping_len). cbn [length enc32]. lia.
Qed.
Lemma rpcb_dump_decodes : forall la reg, la_ok la = true -> reg_ok reg = true ->
  p_rpcblist (S (length (rpcb_dump la reg))) (rpcb_dump la reg) = Some (map (rpcb_view la) reg, []).
Proof.
  intros la reg Hla Hok. unfold rpcb_dump.
  rewrite <- (app_nil_r (enc32 0)) at 2. apply p_rpcblist_dump; [exact Hla|exact Hok|].
  rewrite app_length. pose proof (flat_map_length_ge (enc_rpcb la) reg (enc_rpcb_len la)). cbn [length enc32]. lia.
Qed.

Lemma flat_map_bytes : forall {A} (f : A -> list N) l, (forall e, bytes_ok (f e) = true) ->
  bytes_ok (flat_map f l) = true.
Proof.
  intros A f l Hf. induction l as [|e l IH]; cbn [flat_map]; [reflexivity|].
  rewrite bytes_ok_app, Hf, IH. reflexivity.
Qed.
Lemma v2_dump_bytes : forall reg, bytes_ok (v2_dump reg) = true.
Proof.
  intros reg. unfold v2_dump. rewrite bytes_ok_app, enc32_bytes, andb_true_r. apply flat_map_bytes.
  intros [[[p v] t] port]. unfold enc_mapping. rewrite !bytes_ok_app, !enc32_bytes. reflexivity.
Qed.
Lemma netid_of_bytes : forall t, bytes_ok (netid_of t) = true.
Proof. intros t. unfold netid_of. destruct (t =? TCP); reflexivity. Qed.
Lemma rpcb_dump_bytes : forall la reg, la_ok la = true -> reg_ok reg = true -> bytes_ok (rpcb_dump la reg) = true.
Proof.
  intros la reg Hla Hok. unfold rpcb_dump. rewrite bytes_ok_app, enc32_bytes, andb_true_r.
  induction reg as [|[[[p v] t] port] reg IH]; cbn [flat_map]; [reflexivity|].
  cbn [reg_ok forallb] in Hok. apply andb_true_iff in Hok. destruct Hok as [He Hok].
  apply entry_ok_inv in He. destruct He as (Hp & Hv & Ht & Hpo).
  rewrite bytes_ok_app, (IH Hok), andb_true_r. unfold enc_rpcb.
  rewrite !bytes_ok_app, !enc32_bytes. cbn [andb].
  rewrite (put_string_bytes _ (netid_of_bytes t)).
  rewrite put_string_bytes by (apply fmt_uaddr_ok; [apply listen_host_ok; exact Hla|exact Hpo]).
  rewrite put_string_bytes by reflexivity. reflexivity.
Qed.
