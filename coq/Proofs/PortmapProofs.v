(* Proofs/PortmapProofs.v — lemmas about Model/Portmap.v (C27). *)
From Coq Require Import List NArith ZArith Bool Lia ZifyBool ZifyNat ZifyN.
From Verif Require Import Gen.Facts Model.Portmap.
Import ListNotations.
Open Scope N_scope.

Ltac Zify.zify_post_hook ::= Z.div_mod_to_equations.

(* ---------- words and bytes ---------- *)
Lemma get32_enc32 : forall v r, get32 (enc32 v ++ r) = Some (v mod 4294967296, r).
Proof.
  intros v r. unfold enc32, get32. cbn [app]. f_equal. f_equal. lia.
Qed.

Lemma enc32_bytes : forall v, bytes_ok (enc32 v) = true.
Proof.
  intros v. unfold bytes_ok, enc32, is_byte. cbn [forallb].
  repeat rewrite andb_true_iff. repeat split; try reflexivity; apply N.ltb_lt; apply N.mod_lt; discriminate.
Qed.

Lemma bytes_ok_app : forall a b, bytes_ok (a ++ b) = bytes_ok a && bytes_ok b.
Proof. intros a b. unfold bytes_ok. apply forallb_app. Qed.

Lemma get32_ok : forall s v r, bytes_ok s = true -> get32 s = Some (v, r) ->
  v < 4294967296 /\ bytes_ok r = true.
Proof.
  intros s v r Hb Hg. destruct s as [|a [|b [|c [|d s']]]]; try discriminate.
  cbn in Hg. inversion Hg; subst; clear Hg.
  unfold bytes_ok in Hb. cbn [forallb] in Hb. unfold is_byte in Hb.
  repeat rewrite andb_true_iff in Hb. destruct Hb as (Ha & Hb' & Hc & Hd & Hr).
  apply N.ltb_lt in Ha, Hb', Hc, Hd. split; [lia|exact Hr].
Qed.

(* ---------- the guard ---------- *)
(* the code's case analysis decides exactly the spec-level predicate *)
Lemma guard_spec : forall c, is_loopback_addr c = local_caller c.
Proof.
  intros [|i z p|[i|]]; unfold is_loopback_addr, classify, local_caller; try reflexivity;
    destruct (is_loopback i); reflexivity.
Qed.

Lemma v2_set_nonlocal : forall reg c args, local_caller c = false -> fst (v2_set reg c args) = reg.
Proof.
  intros reg c args H. unfold v2_set, v2_refused. rewrite guard_spec, H. reflexivity. (* needs f_pm_v2_set_guarded = true *)
Qed.
Lemma v2_unset_nonlocal : forall reg c args, local_caller c = false -> fst (v2_unset reg c args) = reg.
Proof.
  intros reg c args H. unfold v2_unset, v2_refused. rewrite guard_spec, H. reflexivity. (* needs f_pm_v2_unset_guarded = true *)
Qed.

Lemma v2_proc_nonlocal : forall reg c proc args reg' res, local_caller c = false ->
  v2_proc reg c proc args = Some (reg', res) -> reg' = reg.
Proof.
  intros reg c proc args reg' res Hc H. unfold v2_proc in H.
  destruct (proc =? P_NULL); [inversion H; reflexivity|].
  destruct (proc =? P_SET).
  { inversion H as [H1]. rewrite <- (v2_set_nonlocal reg c args Hc). rewrite H1. reflexivity. }
  destruct (proc =? P_UNSET).
  { inversion H as [H1]. rewrite <- (v2_unset_nonlocal reg c args Hc). rewrite H1. reflexivity. }
  destruct (proc =? P_GETPORT); [inversion H; reflexivity|].
  destruct (proc =? P_DUMP); [inversion H; reflexivity|discriminate].
Qed.

Lemma rpcb_proc_nonlocal : forall la reg c proc args reg' res, local_caller c = false ->
  rpcb_proc la reg c proc args = Some (reg', res) -> reg' = reg.
Proof.
  intros la reg c proc args reg' res Hc H. unfold rpcb_proc, rpcb_admitted in H. rewrite guard_spec, Hc in H.
  (* needs f_pm_rpcb_set_guarded = f_pm_rpcb_unset_guarded = true *)
  change (negb f_pm_rpcb_set_guarded || false) with false in H. change (negb f_pm_rpcb_unset_guarded || false) with false in H.
  destruct (proc =? 0); [inversion H; reflexivity|].
  destruct (proc =? 1); [inversion H; reflexivity|].
  destruct (proc =? 2); [inversion H; reflexivity|].
  destruct (proc =? 3); [inversion H; reflexivity|].
  destruct (proc =? 4); [inversion H; reflexivity|discriminate].
Qed.

Lemma dispatch_nonlocal : forall la reg c h args, local_caller c = false ->
  fst (dispatch la reg c h args) = reg.
Proof.
  intros la reg c h args Hc. unfold dispatch.
  destruct (negb (h_prog h =? PMAP_PROG)); [reflexivity|].
  destruct (negb (supported (h_vers h))); [reflexivity|].
  destruct (h_vers h =? 2).
  - destruct (v2_proc reg c (h_proc h) args) as [[reg' res]|] eqn:E; [|reflexivity].
    cbn [fst]. exact (v2_proc_nonlocal _ _ _ _ _ _ Hc E).
  - destruct (rpcb_proc la reg c (h_proc h) args) as [[reg' res]|] eqn:E; [|reflexivity].
    cbn [fst]. exact (rpcb_proc_nonlocal _ _ _ _ _ _ _ Hc E).
Qed.

Lemma handle_call_nonlocal : forall la reg c data, local_caller c = false ->
  fst (handle_call la reg c data) = reg.
Proof.
  intros la reg c data Hc. unfold handle_call.
  destruct (decode_header data) as [[h args]|]; [|reflexivity].
  pose proof (dispatch_nonlocal la reg c h args Hc) as H.
  destruct (dispatch la reg c h args) as [reg' r]. exact H.
Qed.

(* the registry changes only through SET / UNSET of the three versions *)
Lemma dispatch_changes_only_by_set_unset : forall la reg c h args,
  fst (dispatch la reg c h args) <> reg ->
  h_prog h = PMAP_PROG /\ supported (h_vers h) = true /\ (h_proc h = 1 \/ h_proc h = 2) /\ local_caller c = true.
Proof.
  intros la reg c h args H.
  destruct (local_caller c) eqn:Hc; [|exfalso; apply H; apply dispatch_nonlocal; exact Hc].
  unfold dispatch in H.
  destruct (h_prog h =? PMAP_PROG) eqn:Hp; cbn [negb] in H; [|exfalso; apply H; reflexivity].
  destruct (supported (h_vers h)) eqn:Hs; cbn [negb] in H; [|exfalso; apply H; reflexivity].
  apply N.eqb_eq in Hp. repeat split; try assumption.
  destruct (h_vers h =? 2).
  - unfold v2_proc in H. change P_NULL with 0 in H. change P_SET with 1 in H. change P_UNSET with 2 in H.
    destruct (h_proc h =? 0); [exfalso; apply H; reflexivity|].
    destruct (h_proc h =? 1) eqn:E1; [left; apply N.eqb_eq; exact E1|].
    destruct (h_proc h =? 2) eqn:E2; [right; apply N.eqb_eq; exact E2|].
    exfalso; apply H.
    destruct (h_proc h =? P_GETPORT); [reflexivity|]. destruct (h_proc h =? P_DUMP); reflexivity.
  - unfold rpcb_proc in H.
    destruct (h_proc h =? 0); [exfalso; apply H; reflexivity|].
    destruct (h_proc h =? 1) eqn:E1; [left; apply N.eqb_eq; exact E1|].
    destruct (h_proc h =? 2) eqn:E2; [right; apply N.eqb_eq; exact E2|].
    exfalso; apply H.
    destruct (h_proc h =? 3); [reflexivity|]. destruct (h_proc h =? 4); reflexivity.
Qed.

(* ---------- opaque / string round trips ---------- *)
Lemma take_exact_0 : forall s, take_exact 0 s = Some ([], s).
Proof. intros s. unfold take_exact. destruct (len s <? 0) eqn:E; [apply N.ltb_lt in E; lia|reflexivity]. Qed.

Lemma take_exact_app : forall a r, take_exact (len a) (a ++ r) = Some (a, r).
Proof.
  intros a r. unfold take_exact, len. rewrite app_length.
  destruct (N.of_nat (length a + length r) <? N.of_nat (length a)) eqn:E; [apply N.ltb_lt in E; lia|].
  rewrite Nat2N.id. rewrite firstn_app, skipn_app, Nat.sub_diag, firstn_all, skipn_all. cbn.
  rewrite app_nil_r. reflexivity.
Qed.

Lemma len_repeat : forall n, len (repeat 0 (N.to_nat n)) = n.
Proof. intros n. unfold len. rewrite repeat_length. apply N2Nat.id. Qed.

Lemma forallb_repeat0 : forall k, forallb (N.eqb 0) (repeat 0 k) = true.
Proof. induction k; [reflexivity|cbn; exact IHk]. Qed.

Lemma p_opaque_put : forall mx b r, len b <= mx -> len b < 4294967296 ->
  p_opaque mx (put_string b ++ r) = Some (b, r).
Proof.
  intros mx b r Hm Hl. unfold p_opaque, put_string. rewrite <- app_assoc, get32_enc32. cbn [bind].
  rewrite N.mod_small by exact Hl.
  destruct (mx <? len b) eqn:E; [apply N.ltb_lt in E; lia|].
  rewrite <- app_assoc, take_exact_app. cbn [bind].
  pose proof (take_exact_app (repeat 0 (N.to_nat (pad_of (len b)))) r) as T. rewrite len_repeat in T.
  rewrite T. cbn [bind]. rewrite forallb_repeat0. reflexivity.
Qed.

Lemma bytes_ok_repeat0 : forall k, bytes_ok (repeat 0 k) = true.
Proof. induction k; [reflexivity|cbn; exact IHk]. Qed.

Lemma put_string_bytes : forall b, bytes_ok b = true -> bytes_ok (put_string b) = true.
Proof.
  intros b H. unfold put_string. rewrite !bytes_ok_app, enc32_bytes, H, bytes_ok_repeat0. reflexivity.
Qed.

(* ---------- decimal printing ---------- *)
Lemma dec_aux_length : forall f n acc, (length (dec_aux f n acc) <= f + length acc)%nat.
Proof.
  induction f as [|f IH]; intros n acc; cbn [dec_aux]; [lia|].
  destruct (n / 10 =? 0); [cbn [length]; lia|].
  specialize (IH (n / 10) ((48 + n mod 10) :: acc)). cbn [length] in IH. lia.
Qed.

Lemma dec_aux_bytes : forall f n acc, bytes_ok acc = true -> bytes_ok (dec_aux f n acc) = true.
Proof.
  induction f as [|f IH]; intros n acc H; cbn [dec_aux]; [exact H|].
  assert (Hb : bytes_ok ((48 + n mod 10) :: acc) = true).
  { unfold bytes_ok. cbn [forallb]. fold (bytes_ok acc). rewrite H, andb_true_r.
    unfold is_byte. apply N.ltb_lt. lia. }
  destruct (n / 10 =? 0); [exact Hb|apply IH; exact Hb].
Qed.

Lemma dec_length : forall n, n < 4294967296 -> (length (dec n) <= 33)%nat.
Proof.
  intros n Hn. unfold dec. pose proof (dec_aux_length (S (N.to_nat (N.log2 n))) n []) as H.
  cbn [length] in H.
  assert (N.log2 n < 32).
  { destruct (N.eq_dec n 0) as [->|Hz]; [cbn; lia|]. apply N.log2_lt_pow2; lia. }
  lia.
Qed.
Lemma dec_bytes : forall n, bytes_ok (dec n) = true.
Proof. intros n. unfold dec. apply dec_aux_bytes. reflexivity. Qed.

Definition la_ok (la : list N) : bool := bytes_ok la && (len la <? 4294967000).

Lemma listen_host_ok : forall la, la_ok la = true -> la_ok (listen_host la) = true.
Proof. intros [|a la] H; [reflexivity|exact H]. Qed.

Lemma fmt_uaddr_ok : forall host port, la_ok host = true -> port < 4294967296 ->
  bytes_ok (fmt_uaddr host port) = true /\ len (fmt_uaddr host port) < 4294967296.
Proof.
  intros host port Hh Hp. unfold la_ok in Hh. apply andb_true_iff in Hh. destruct Hh as [Hb Hl].
  apply N.ltb_lt in Hl. unfold fmt_uaddr. split.
  - rewrite !bytes_ok_app, Hb, !dec_bytes. reflexivity.
  - unfold len in *. rewrite !app_length. cbn [length].
    assert (H1 : port / 256 < 4294967296) by (apply N.lt_le_trans with (m := port / 256 + 1); [lia|]; lia).
    assert (H2 : port mod 256 < 4294967296) by lia.
    pose proof (dec_length _ H1). pose proof (dec_length _ H2). lia.
Qed.

(* ---------- registry invariants ---------- *)
Definition entry_ok (e : key * N) : bool :=
  let '((p, v, t), port) := e in u32 p && u32 v && u32 t && u32 port.
Definition reg_ok (r : registry) : bool := forallb entry_ok r.

Lemma entry_ok_inv : forall p v t port, entry_ok ((p, v, t), port) = true ->
  p < 4294967296 /\ v < 4294967296 /\ t < 4294967296 /\ port < 4294967296.
Proof.
  intros p v t port H. unfold entry_ok, u32 in H. repeat rewrite andb_true_iff in H.
  destruct H as [[[H1 H2] H3] H4]. apply N.ltb_lt in H1, H2, H3, H4. auto.
Qed.
Lemma entry_ok_intro : forall p v t port,
  p < 4294967296 -> v < 4294967296 -> t < 4294967296 -> port < 4294967296 -> entry_ok ((p, v, t), port) = true.
Proof.
  intros p v t port H1 H2 H3 H4. unfold entry_ok, u32. apply N.ltb_lt in H1, H2, H3, H4.
  rewrite H1, H2, H3, H4. reflexivity.
Qed.

Lemma register_ok : forall k port r, reg_ok r = true -> entry_ok (k, port) = true -> reg_ok (register k port r) = true.
Proof.
  intros k port r. induction r as [|[k' p'] r IH]; intros Hr He; cbn [register].
  - unfold reg_ok. cbn [forallb]. rewrite He. reflexivity.
  - cbn [reg_ok forallb] in Hr. apply andb_true_iff in Hr. destruct Hr as [H1 H2].
    destruct (key_eqb k' k) eqn:E.
    + cbn [reg_ok forallb]. rewrite H2, andb_true_r.
      destruct k' as [[a b] c], k as [[a' b'] c']. unfold entry_ok in *.
      repeat rewrite andb_true_iff in *. tauto.
    + cbn [reg_ok forallb]. rewrite H1. apply IH; assumption.
Qed.
Lemma unregister_ok : forall k r, reg_ok r = true -> reg_ok (unregister k r) = true.
Proof.
  intros k r. induction r as [|[k' p'] r IH]; intros Hr; cbn [unregister]; [reflexivity|].
  cbn [reg_ok forallb] in Hr. apply andb_true_iff in Hr. destruct Hr as [H1 H2].
  destruct (key_eqb k' k); [exact H2|]. cbn [reg_ok forallb]. rewrite H1. apply IH. exact H2.
Qed.

Lemma key_eqb_spec : forall a b, reflect (a = b) (key_eqb a b).
Proof.
  intros [[p v] t] [[p' v'] t']. unfold key_eqb.
  destruct (N.eqb_spec p p'), (N.eqb_spec v v'), (N.eqb_spec t t'); cbn; constructor; congruence.
Qed.
Lemma key_eqb_refl : forall k, key_eqb k k = true.
Proof. intros k. destruct (key_eqb_spec k k); congruence. Qed.

Definition keys (r : registry) : list key := map fst r.

Lemma register_keys_in : forall k port r k0, In k0 (keys (register k port r)) -> k0 = k \/ In k0 (keys r).
Proof.
  intros k port r k0. induction r as [|[k' p'] r IH]; cbn [register keys map fst In].
  - intros [H|[]]; auto.
  - destruct (key_eqb_spec k' k) as [->|Hn]; cbn [map fst In]; intros [H|H]; auto.
    destruct (IH H); auto.
Qed.
Lemma register_nodup : forall k port r, NoDup (keys r) -> NoDup (keys (register k port r)).
Proof.
  intros k port r. induction r as [|[k' p'] r IH]; intros H; cbn [register].
  - cbn. constructor; [intros []|constructor].
  - cbn [keys map fst] in H. inversion H as [|x l Hnin Hnd]; subst.
    destruct (key_eqb_spec k' k) as [->|Hn]; cbn [keys map fst].
    + constructor; assumption.
    + constructor; [|apply IH; exact Hnd].
      intros Hin. apply register_keys_in in Hin. destruct Hin as [->|Hin]; [congruence|exact (Hnin Hin)].
Qed.
Lemma unregister_keys_in : forall k r k0, In k0 (keys (unregister k r)) -> In k0 (keys r).
Proof.
  intros k r k0. induction r as [|[k' p'] r IH]; cbn [unregister keys map fst In]; [auto|].
  destruct (key_eqb k' k); cbn [map fst In]; intros H; [auto|]. destruct H; auto.
Qed.
Lemma unregister_nodup : forall k r, NoDup (keys r) -> NoDup (keys (unregister k r)).
Proof.
  intros k r. induction r as [|[k' p'] r IH]; intros H; cbn [unregister]; [exact H|].
  cbn [keys map fst] in H. inversion H as [|x l Hnin Hnd]; subst.
  destruct (key_eqb k' k); [exact Hnd|]. cbn [keys map fst]. constructor; [|apply IH; exact Hnd].
  intros Hin. apply Hnin. exact (unregister_keys_in _ _ _ Hin).
Qed.

(* the abstract-map reading of register / unregister *)
Lemma lookup_register : forall k port r k0,
  lookup k0 (register k port r) = if key_eqb k k0 then Some port else lookup k0 r.
Proof.
  intros k port r k0. induction r as [|[k' p'] r IH]; cbn [register lookup].
  - reflexivity.
  - destruct (key_eqb_spec k' k) as [->|Hn]; cbn [lookup].
    + destruct (key_eqb k k0); reflexivity.
    + rewrite IH. destruct (key_eqb_spec k' k0) as [->|Hn0]; [|reflexivity].
      destruct (key_eqb_spec k k0) as [->|]; [congruence|reflexivity].
Qed.
Lemma lookup_not_in : forall k r, ~ In k (keys r) -> lookup k r = None.
Proof.
  intros k r. induction r as [|[k' p'] r IH]; intros H; cbn [lookup]; [reflexivity|].
  cbn [keys map fst In] in H. destruct (key_eqb_spec k' k) as [->|Hn]; [exfalso; apply H; auto|].
  apply IH. intros Hin. apply H. auto.
Qed.
Lemma lookup_unregister : forall k r k0, NoDup (keys r) ->
  lookup k0 (unregister k r) = if key_eqb k k0 then None else lookup k0 r.
Proof.
  intros k r k0. induction r as [|[k' p'] r IH]; intros Hnd; cbn [unregister lookup].
  - destruct (key_eqb k k0); reflexivity.
  - cbn [keys map fst] in Hnd. inversion Hnd as [|x l Hnin Hnd']; subst.
    destruct (key_eqb_spec k' k) as [->|Hn].
    + destruct (key_eqb_spec k k0) as [->|Hn0]; [apply lookup_not_in; exact Hnin|reflexivity].
    + cbn [lookup]. rewrite (IH Hnd').
      destruct (key_eqb_spec k' k0) as [->|Hn0]; [|reflexivity].
      destruct (key_eqb_spec k k0) as [->|]; [congruence|reflexivity].
Qed.
(* elements of the map = entries of the registry *)
Lemma lookup_in : forall r k port, NoDup (keys r) -> (In (k, port) r <-> lookup k r = Some port).
Proof.
  intros r k port. induction r as [|[k' p'] r IH]; intros Hnd; cbn [lookup In].
  - split; [intros []|discriminate].
  - cbn [keys map fst] in Hnd. inversion Hnd as [|x l Hnin Hnd']; subst.
    destruct (key_eqb_spec k' k) as [->|Hn].
    + split.
      * intros [H|H]; [congruence|]. exfalso. apply Hnin. change k with (fst (k, port)). apply in_map. exact H.
      * intros H. left. congruence.
    + rewrite <- (IH Hnd'). split; [intros [H|H]; [congruence|exact H]|auto].
Qed.

(* ---------- the DUMP bodies decode to the registry ---------- *)
Lemma p_bool_enc : forall b r, p_bool (enc_bool b ++ r) = Some (b, r).
Proof. intros [|] r; unfold p_bool, enc_bool; rewrite get32_enc32; reflexivity. Qed.
Lemma p_bool_enc1 : forall r, p_bool (enc32 1 ++ r) = Some (true, r).
Proof. intros r. exact (p_bool_enc true r). Qed.
Lemma p_bool_enc0 : forall r, p_bool (enc32 0 ++ r) = Some (false, r).
Proof. intros r. exact (p_bool_enc false r). Qed.

Lemma p_pmaplist_dump : forall reg rest fuel, reg_ok reg = true -> (length reg < fuel)%nat ->
  p_pmaplist fuel (flat_map enc_mapping reg ++ enc32 0 ++ rest) = Some (reg, rest).
Proof.
  induction reg as [|[[[p v] t] port] reg IH]; intros rest fuel Hok Hf;
    (destruct fuel as [|fuel]; [cbn [length] in Hf; lia|]); cbn [p_pmaplist flat_map].
  - cbn [app]. rewrite p_bool_enc0. reflexivity.
  - cbn [reg_ok forallb] in Hok. apply andb_true_iff in Hok. destruct Hok as [He Hok].
    apply entry_ok_inv in He. destruct He as (Hp & Hv & Ht & Hpo).
    unfold enc_mapping. repeat rewrite <- app_assoc. rewrite p_bool_enc1. cbn [bind].
    repeat (rewrite get32_enc32; cbn [bind]).
    rewrite IH; [|exact Hok|cbn [length] in Hf; lia]. cbn [bind].
    rewrite !N.mod_small by assumption. reflexivity.
Qed.

Definition rpcb_view (la : list N) (e : key * N) : rpcb_entry :=
  let '((p, v, t), port) := e in (p, v, netid_of t, fmt_uaddr (listen_host la) port, s_superuser).

Lemma p_string_put : forall b r, len b < 4294967296 -> p_string (put_string b ++ r) = Some (b, r).
Proof. intros b r H. unfold p_string. apply p_opaque_put; lia. Qed.

Lemma netid_of_len : forall t, len (netid_of t) < 4294967296.
Proof. intros t. unfold netid_of. destruct (t =? TCP); cbn; lia. Qed.

Lemma p_rpcblist_dump : forall la reg rest fuel, la_ok la = true -> reg_ok reg = true -> (length reg < fuel)%nat ->
  p_rpcblist fuel (flat_map (enc_rpcb la) reg ++ enc32 0 ++ rest) = Some (map (rpcb_view la) reg, rest).
Proof.
  intros la. induction reg as [|[[[p v] t] port] reg IH]; intros rest fuel Hla Hok Hf;
    (destruct fuel as [|fuel]; [cbn [length] in Hf; lia|]); cbn [p_rpcblist flat_map map].
  - cbn [app]. rewrite p_bool_enc0. reflexivity.
  - cbn [reg_ok forallb] in Hok. apply andb_true_iff in Hok. destruct Hok as [He Hok].
    apply entry_ok_inv in He. destruct He as (Hp & Hv & Ht & Hpo).
    unfold enc_rpcb. repeat rewrite <- app_assoc. rewrite p_bool_enc1. cbn [bind].
    repeat (rewrite get32_enc32; cbn [bind]).
    rewrite p_string_put by apply netid_of_len. cbn [bind].
    rewrite p_string_put by (apply fmt_uaddr_ok; [apply listen_host_ok; exact Hla|exact Hpo]). cbn [bind].
    rewrite p_string_put by (cbn; lia). cbn [bind].
    rewrite IH; [|exact Hla|exact Hok|cbn [length] in Hf; lia]. cbn [bind].
    unfold rpcb_view. rewrite !N.mod_small by assumption. reflexivity.
Qed.

Lemma flat_map_length_ge : forall {A} (f : A -> list N) l, (forall e, (1 <= length (f e))%nat) ->
  (length l <= length (flat_map f l))%nat.
Proof.
  intros A f l Hf. induction l as [|e l IH]; cbn [flat_map length]; [lia|].
  rewrite app_length. specialize (Hf e). lia.
Qed.

Lemma enc_mapping_len : forall e, (1 <= length (enc_mapping e))%nat.
Proof. intros [[[p v] t] port]. unfold enc_mapping. rewrite !app_length. cbn. lia. Qed.
Lemma enc_rpcb_len : forall la e, (1 <= length (enc_rpcb la e))%nat.
Proof. intros la [[[p v] t] port]. unfold enc_rpcb. rewrite !app_length. cbn. lia. Qed.

Lemma v2_dump_decodes : forall reg, reg_ok reg = true ->
  p_pmaplist (S (length (v2_dump reg))) (v2_dump reg) = Some (reg, []).
Proof.
  intros reg Hok. unfold v2_dump.
  rewrite <- (app_nil_r (enc32 0)) at 2. apply p_pmaplist_dump; [exact Hok|].
  rewrite app_length. pose proof (flat_map_length_ge enc_mapping reg enc_mapping_len). cbn [length enc32]. lia.
Qed.
Lemma rpcb_dump_decodes : forall la reg, la_ok la = true -> reg_ok reg = true ->
  p_rpcblist (S (length (rpcb_dump la reg))) (rpcb_dump la reg) = Some (map (rpcb_view la) reg, []).
Proof.
  intros la reg Hla Hok. unfold rpcb_dump.
  rewrite <- (app_nil_r (enc32 0)) at 2. apply p_rpcblist_dump; [exact Hla|exact Hok|].
  rewrite app_length. pose proof (flat_map_length_ge (enc_rpcb la) reg (enc_rpcb_len la)). cbn [length enc32]. lia.
Qed.

Lemma flat_map_bytes : forall {A} (f : A -> list N) l, (forall e, bytes_ok (f e) = true) ->
  bytes_ok (flat_map f l) = true.
Proof.
  intros A f l Hf. induction l as [|e l IH]; cbn [flat_map]; [reflexivity|].
  rewrite bytes_ok_app, Hf, IH. reflexivity.
Qed.
Lemma v2_dump_bytes : forall reg, bytes_ok (v2_dump reg) = true.
Proof.
  intros reg. unfold v2_dump. rewrite bytes_ok_app, enc32_bytes, andb_true_r. apply flat_map_bytes.
  intros [[[p v] t] port]. unfold enc_mapping. rewrite !bytes_ok_app, !enc32_bytes. reflexivity.
Qed.
Lemma netid_of_bytes : forall t, bytes_ok (netid_of t) = true.
Proof. intros t. unfold netid_of. destruct (t =? TCP); reflexivity. Qed.
Lemma rpcb_dump_bytes : forall la reg, la_ok la = true -> reg_ok reg = true -> bytes_ok (rpcb_dump la reg) = true.
Proof.
  intros la reg Hla Hok. unfold rpcb_dump. rewrite bytes_ok_app, enc32_bytes, andb_true_r.
  induction reg as [|[[[p v] t] port] reg IH]; cbn [flat_map]; [reflexivity|].
  cbn [reg_ok forallb] in Hok. apply andb_true_iff in Hok. destruct Hok as [He Hok].
  apply entry_ok_inv in He. destruct He as (Hp & Hv & Ht & Hpo).
  rewrite bytes_ok_app, (IH Hok), andb_true_r. unfold enc_rpcb.
  rewrite !bytes_ok_app, !enc32_bytes. cbn [andb].
  rewrite (put_string_bytes _ (netid_of_bytes t)).
  rewrite put_string_bytes by (apply fmt_uaddr_ok; [apply listen_host_ok; exact Hla|exact Hpo]).
  rewrite put_string_bytes by reflexivity. reflexivity.
Qed.

(* ---------- replies satisfy the grammar ---------- *)
Lemma reply_head_parse : forall xid rest,
  get32 (reply_head xid ++ rest) = Some (xid mod 4294967296, enc32 RPC_REPLY ++ enc32 MSG_ACCEPTED ++ enc32 0 ++ enc32 0 ++ rest).
Proof. intros. unfold reply_head. repeat rewrite <- app_assoc. apply get32_enc32. Qed.

Lemma p_reply_make : forall h xid status data,
  p_reply h (make_reply xid status data) =
  if status =? MSG_ACCEPTED then p_result h data
  else p_reply h (reply_head xid ++ enc32 status ++ (if status =? PROG_MISMATCH then enc32 VERS_LOW ++ enc32 VERS_HIGH else [])).
Proof.
  intros h xid status data. unfold make_reply. destruct (status =? MSG_ACCEPTED); [|reflexivity].
  unfold p_reply. rewrite reply_head_parse. cbn [bind].
  repeat (rewrite get32_enc32; cbn [bind]).
  change (RPC_REPLY mod 4294967296 =? 1) with true. change (MSG_ACCEPTED mod 4294967296 =? 0) with true. cbn [negb].
  unfold p_opaque. rewrite get32_enc32. cbn [bind]. change (0 mod 4294967296) with 0.
  change (400 <? 0) with false. cbn iota. rewrite take_exact_0. cbn [bind]. change (pad_of 0) with 0.
  rewrite take_exact_0. cbn [bind forallb]. rewrite get32_enc32. cbn [bind]. reflexivity.
Qed.

Lemma p_reply_status : forall h xid status, status < 4294967296 -> status <> 0 ->
  p_reply h (reply_head xid ++ enc32 status ++ (if status =? PROG_MISMATCH then enc32 VERS_LOW ++ enc32 VERS_HIGH else [])) =
  if status =? 2 then (if negb ((2 <=? h_vers h) && (h_vers h <=? 4)) then Some [] else None)
  else if (status =? 1) || (status =? 3) || (status =? 4) || (status =? 5) then Some [] else None.
Proof.
  intros h xid status Hlt Hnz. unfold p_reply. rewrite reply_head_parse. cbn [bind].
  repeat (rewrite get32_enc32; cbn [bind]).
  change (RPC_REPLY mod 4294967296 =? 1) with true. change (MSG_ACCEPTED mod 4294967296 =? 0) with true. cbn [negb].
  unfold p_opaque. rewrite get32_enc32. cbn [bind]. change (0 mod 4294967296) with 0.
  change (400 <? 0) with false. cbn iota. rewrite take_exact_0. cbn [bind]. change (pad_of 0) with 0.
  rewrite take_exact_0. cbn [bind forallb]. rewrite get32_enc32. cbn [bind].
  rewrite N.mod_small by exact Hlt.
  destruct (status =? 0) eqn:E0; [apply N.eqb_eq in E0; contradiction|].
  change PROG_MISMATCH with 2.
  destruct (status =? 2) eqn:E2.
  - rewrite get32_enc32. cbn [bind]. rewrite <- (app_nil_r (enc32 VERS_HIGH)). rewrite get32_enc32. cbn [bind].
    change (VERS_LOW mod 4294967296) with 2. change (VERS_HIGH mod 4294967296) with 4. change (2 <=? 4) with true.
    cbn [andb]. destruct (negb ((2 <=? h_vers h) && (h_vers h <=? 4))); reflexivity.
  - destruct ((status =? 1) || (status =? 3) || (status =? 4) || (status =? 5)); reflexivity.
Qed.

Lemma make_reply_bytes : forall xid status data, bytes_ok data = true -> bytes_ok (make_reply xid status data) = true.
Proof.
  intros xid status data H. unfold make_reply, reply_head.
  rewrite !bytes_ok_app, !enc32_bytes. cbn [andb].
  destruct (status =? MSG_ACCEPTED).
  - rewrite bytes_ok_app, enc32_bytes, H. reflexivity.
  - rewrite bytes_ok_app, enc32_bytes. destruct (status =? PROG_MISMATCH); [|reflexivity].
    rewrite bytes_ok_app, !enc32_bytes. reflexivity.
Qed.

Lemma supported_range : forall v, supported v = (VERS_LOW <=? v) && (v <=? VERS_HIGH).
Proof.
  intros v. change (supported v) with ((v =? 2) || ((v =? 3) || ((v =? 4) || false))).
  change VERS_LOW with 2. change VERS_HIGH with 4.
  destruct (N.eqb_spec v 2), (N.eqb_spec v 3), (N.eqb_spec v 4), (N.leb_spec 2 v), (N.leb_spec v 4);
    cbn; try reflexivity; lia.
Qed.

(* results of the individual procedures *)
Lemma p_bool_res : forall b, drop (p_bool (enc_bool b)) = Some [].
Proof. intros b. rewrite <- (app_nil_r (enc_bool b)), p_bool_enc. reflexivity. Qed.
Lemma enc_bool_bytes : forall b, bytes_ok (enc_bool b) = true.
Proof. intros b. apply enc32_bytes. Qed.

Lemma v2_set_res : forall reg c args, exists b, snd (v2_set reg c args) = enc_bool b.
Proof.
  intros. unfold v2_set. destruct (v2_refused f_pm_v2_set_guarded c); [eexists; reflexivity|].
  destruct (args4 args) as [[[[p v] t] port]|]; eexists; reflexivity.
Qed.
Lemma v2_unset_res : forall reg c args, exists b, snd (v2_unset reg c args) = enc_bool b.
Proof.
  intros. unfold v2_unset. destruct (v2_refused f_pm_v2_unset_guarded c); [eexists; reflexivity|].
  destruct (args4 args) as [[[[p v] t] port]|]; eexists; reflexivity.
Qed.
Lemma rpcb_set_res : forall reg args, exists b, snd (rpcb_set reg args) = enc_bool b.
Proof.
  intros. unfold rpcb_set. destruct (rpcb_head args) as [[[[p v] n] s]|]; [|eexists; reflexivity].
  destruct (get_string s) as [[u s']|]; eexists; reflexivity.
Qed.
Lemma rpcb_unset_res : forall reg args, exists b, snd (rpcb_unset reg args) = enc_bool b.
Proof.
  intros. unfold rpcb_unset. destruct (rpcb_head args) as [[[[p v] n] s]|]; eexists; reflexivity.
Qed.
Lemma v2_getport_res : forall reg args, exists x, v2_getport reg args = enc32 x.
Proof. intros. unfold v2_getport. destruct (args4 args) as [[[[p v] t] port]|]; eexists; reflexivity. Qed.

Lemma get_port_ok : forall k reg, reg_ok reg = true -> get_port k reg < 4294967296.
Proof.
  intros k reg. unfold get_port. induction reg as [|[k' p'] reg IH]; intros Hok; cbn [lookup]; [lia|].
  cbn [reg_ok forallb] in Hok. apply andb_true_iff in Hok. destruct Hok as [He Hok].
  destruct (key_eqb k' k); [|apply IH; exact Hok].
  destruct k' as [[a b] c]. apply entry_ok_inv in He. tauto.
Qed.

Lemma s_lo6_ok : la_ok s_lo6 = true. Proof. reflexivity. Qed.

Lemma rpcb_getaddr_res : forall la reg args, la_ok la = true -> reg_ok reg = true ->
  exists s, rpcb_getaddr la reg args = put_string s /\ bytes_ok s = true /\ len s < 4294967296.
Proof.
  intros la reg args Hla Hok. unfold rpcb_getaddr.
  destruct (rpcb_head args) as [[[[p v] n] s]|]; [|exists []; repeat split; cbn; lia].
  destruct (0 <? get_port (p, v, prot_getaddr n) reg); [|exists []; repeat split; cbn; lia].
  eexists. split; [reflexivity|]. apply fmt_uaddr_ok; [|apply get_port_ok; exact Hok].
  destruct (is_v6_netid n); [exact s_lo6_ok|apply listen_host_ok; exact Hla].
Qed.

Lemma v2_proc_wf : forall reg c h args reg' res, reg_ok reg = true ->
  h_prog h = 100000 -> h_vers h = 2 -> v2_proc reg c (h_proc h) args = Some (reg', res) ->
  p_result h res = Some [] /\ bytes_ok res = true.
Proof.
  intros reg c h args reg' res Hok Hp Hv H. unfold p_result. rewrite Hp, Hv.
  change (100000 =? 100000) with true. change (2 =? 2) with true. cbn [negb]. cbv iota.
  unfold v2_proc in H. change P_NULL with 0 in H. change P_SET with 1 in H. change P_UNSET with 2 in H.
  change P_GETPORT with 3 in H. change P_DUMP with 4 in H.
  destruct (h_proc h =? 0) eqn:E0; [inversion H; subst; split; reflexivity|].
  destruct (h_proc h =? 1) eqn:E1.
  { cbn [orb]. inversion H as [H1]. destruct (v2_set_res reg c args) as [b Hb]. rewrite H1 in Hb. cbn [snd] in Hb.
    subst res. split; [apply p_bool_res|apply enc_bool_bytes]. }
  destruct (h_proc h =? 2) eqn:E2.
  { cbn [orb]. inversion H as [H1]. destruct (v2_unset_res reg c args) as [b Hb]. rewrite H1 in Hb. cbn [snd] in Hb.
    subst res. split; [apply p_bool_res|apply enc_bool_bytes]. }
  cbn [orb]. destruct (h_proc h =? 3) eqn:E3.
  { inversion H; subst. destruct (v2_getport_res reg' args) as [x Hx]. rewrite Hx.
    split; [|apply enc32_bytes]. rewrite <- (app_nil_r (enc32 x)), get32_enc32. reflexivity. }
  destruct (h_proc h =? 4) eqn:E4; [|discriminate].
  inversion H; subst. split; [|apply v2_dump_bytes]. rewrite (v2_dump_decodes _ Hok). reflexivity.
Qed.

Lemma rpcb_proc_wf : forall la reg c h args reg' res, la_ok la = true -> reg_ok reg = true ->
  h_prog h = 100000 -> (h_vers h = 3 \/ h_vers h = 4) -> rpcb_proc la reg c (h_proc h) args = Some (reg', res) ->
  p_result h res = Some [] /\ bytes_ok res = true.
Proof.
  intros la reg c h args reg' res Hla Hok Hp Hv H. unfold p_result. rewrite Hp.
  change (100000 =? 100000) with true. cbn [negb]. cbv iota.
  assert (Hv2 : (h_vers h =? 2) = false) by (apply N.eqb_neq; lia).
  assert (Hv34 : (h_vers h =? 3) || (h_vers h =? 4) = true).
  { destruct Hv as [-> | ->]; reflexivity. }
  rewrite Hv2, Hv34. unfold rpcb_proc in H.
  destruct (h_proc h =? 0) eqn:E0; [inversion H; subst; split; reflexivity|].
  destruct (h_proc h =? 1) eqn:E1.
  { cbn [orb]. inversion H as [H1]. destruct (rpcb_set_res reg args) as [b Hb].
    destruct (rpcb_admitted f_pm_rpcb_set_guarded c).
    - rewrite H1 in Hb. cbn [snd] in Hb. subst res. split; [apply p_bool_res|apply enc_bool_bytes].
    - inversion H1; subst. split; [apply p_bool_res|apply enc_bool_bytes]. }
  destruct (h_proc h =? 2) eqn:E2.
  { cbn [orb]. inversion H as [H1]. destruct (rpcb_unset_res reg args) as [b Hb].
    destruct (rpcb_admitted f_pm_rpcb_unset_guarded c).
    - rewrite H1 in Hb. cbn [snd] in Hb. subst res. split; [apply p_bool_res|apply enc_bool_bytes].
    - inversion H1; subst. split; [apply p_bool_res|apply enc_bool_bytes]. }
  cbn [orb]. destruct (h_proc h =? 3) eqn:E3.
  { inversion H; subst. destruct (rpcb_getaddr_res la reg' args Hla Hok) as (s & Hs & Hb & Hl). rewrite Hs.
    split; [|apply put_string_bytes; exact Hb].
    rewrite <- (app_nil_r (put_string s)), p_string_put by exact Hl. reflexivity. }
  destruct (h_proc h =? 4) eqn:E4; [|discriminate].
  inversion H; subst. split; [|apply rpcb_dump_bytes; assumption].
  rewrite (rpcb_dump_decodes _ _ Hla Hok). reflexivity.
Qed.

Lemma dispatch_wellformed : forall la reg c h args, la_ok la = true -> reg_ok reg = true ->
  wellformed_reply h (snd (dispatch la reg c h args)) = true.
Proof.
  intros la reg c h args Hla Hok. unfold wellformed_reply, dispatch.
  change PMAP_PROG with 100000.
  destruct (h_prog h =? 100000) eqn:Hp; cbn [negb].
  2:{ cbn [snd]. rewrite make_reply_bytes by reflexivity. rewrite p_reply_make.
      change (PROG_UNAVAIL =? MSG_ACCEPTED) with false. cbv iota.
      rewrite p_reply_status by (cbv; (reflexivity || discriminate)). reflexivity. }
  apply N.eqb_eq in Hp.
  destruct (supported (h_vers h)) eqn:Hs; cbn [negb].
  2:{ cbn [snd]. rewrite make_reply_bytes by reflexivity. rewrite p_reply_make.
      change (PROG_MISMATCH =? MSG_ACCEPTED) with false. cbv iota.
      rewrite p_reply_status by (cbv; (reflexivity || discriminate)).
      change (PROG_MISMATCH =? 2) with true. cbv iota. change 2 with VERS_LOW at 1. change 4 with VERS_HIGH. rewrite <- supported_range, Hs. reflexivity. }
  assert (Hcases : h_vers h = 2 \/ h_vers h = 3 \/ h_vers h = 4).
  { rewrite supported_range in Hs. change VERS_LOW with 2 in Hs. change VERS_HIGH with 4 in Hs.
    apply andb_true_iff in Hs. destruct Hs as [H1 H2]. apply N.leb_le in H1, H2. lia. }
  destruct (h_vers h =? 2) eqn:Hv.
  - apply N.eqb_eq in Hv.
    destruct (v2_proc reg c (h_proc h) args) as [[reg' res]|] eqn:E; cbn [snd].
    + destruct (v2_proc_wf _ _ _ _ _ _ Hok Hp Hv E) as [Hr Hb].
      rewrite make_reply_bytes by exact Hb. rewrite p_reply_make. change (MSG_ACCEPTED =? MSG_ACCEPTED) with true.
      cbv iota. rewrite Hr. reflexivity.
    + rewrite make_reply_bytes by reflexivity. rewrite p_reply_make.
      change (PROC_UNAVAIL =? MSG_ACCEPTED) with false. cbv iota.
      rewrite p_reply_status by (cbv; (reflexivity || discriminate)). reflexivity.
  - apply N.eqb_neq in Hv. assert (Hv34 : h_vers h = 3 \/ h_vers h = 4) by tauto.
    destruct (rpcb_proc la reg c (h_proc h) args) as [[reg' res]|] eqn:E; cbn [snd].
    + destruct (rpcb_proc_wf _ _ _ _ _ _ _ Hla Hok Hp Hv34 E) as [Hr Hb].
      rewrite make_reply_bytes by exact Hb. rewrite p_reply_make. change (MSG_ACCEPTED =? MSG_ACCEPTED) with true.
      cbv iota. rewrite Hr. reflexivity.
    + rewrite make_reply_bytes by reflexivity. rewrite p_reply_make.
      change (PROC_UNAVAIL =? MSG_ACCEPTED) with false. cbv iota.
      rewrite p_reply_status by (cbv; (reflexivity || discriminate)). reflexivity.
Qed.

(* ---------- XID echo ---------- *)
Lemma bytes_eqb_refl : forall a, bytes_eqb a a = true.
Proof.
  intros a. unfold bytes_eqb. rewrite Nat.eqb_refl. cbn [andb].
  induction a as [|x a IH]; [reflexivity|]. cbn [combine forallb fst snd]. rewrite N.eqb_refl. exact IH.
Qed.

Lemma make_reply_xid : forall xid status data, firstn 4 (make_reply xid status data) = enc32 xid.
Proof. intros. unfold make_reply, reply_head, enc32. reflexivity. Qed.

Lemma header_xid : forall data h args, bytes_ok data = true -> decode_header data = Some (h, args) ->
  firstn 4 data = enc32 (h_xid h).
Proof.
  intros data h args Hb Hd. destruct data as [|a [|b [|c [|d s']]]]; try discriminate.
  unfold decode_header in Hd. cbn [get32 bind] in Hd.
  destruct (get32 s') as [[mt s1]|]; [|discriminate]. cbn [bind] in Hd.
  destruct (negb (mt =? RPC_CALL)); [discriminate|].
  destruct (get32 s1) as [[rv s2]|]; [|discriminate]. cbn [bind] in Hd.
  destruct (get32 s2) as [[prog s3]|]; [|discriminate]. cbn [bind] in Hd.
  destruct (get32 s3) as [[vers s4]|]; [|discriminate]. cbn [bind] in Hd.
  destruct (get32 s4) as [[proc s5]|]; [|discriminate]. cbn [bind] in Hd.
  destruct (skip_auth s5) as [s6|]; [|discriminate]. cbn [bind] in Hd.
  destruct (skip_auth s6) as [s7|]; [|discriminate]. cbn [bind] in Hd.
  inversion Hd; subst; clear Hd. cbn [h_xid firstn].
  unfold bytes_ok in Hb. cbn [forallb] in Hb. unfold is_byte in Hb.
  repeat rewrite andb_true_iff in Hb. destruct Hb as (Ha & Hb' & Hc & Hd & _).
  apply N.ltb_lt in Ha, Hb', Hc, Hd. unfold enc32.
  repeat f_equal; lia.
Qed.

Lemma handle_call_wellformed : forall la reg c data reg' r, la_ok la = true -> reg_ok reg = true ->
  handle_call la reg c data = (reg', Some r) ->
  exists h args, decode_header data = Some (h, args) /\ wellformed_reply h r = true /\
                 (bytes_ok data = true -> xid_echoed data r = true).
Proof.
  intros la reg c data reg' r Hla Hok H. unfold handle_call in H.
  destruct (decode_header data) as [[h args]|] eqn:Hd; [|discriminate].
  exists h, args. split; [reflexivity|].
  pose proof (dispatch_wellformed la reg c h args Hla Hok) as Hw.
  destruct (dispatch la reg c h args) as [reg1 r1] eqn:E. inversion H; subst. cbn [snd] in Hw.
  split; [exact Hw|]. intros Hb. unfold xid_echoed.
  rewrite (header_xid _ _ _ Hb Hd).
  assert (Hr : r = snd (dispatch la reg c h args)) by (rewrite E; reflexivity).
  assert (Hx : firstn 4 r = enc32 (h_xid h)).
  { rewrite Hr. unfold dispatch.
    destruct (negb (h_prog h =? PMAP_PROG)); [apply make_reply_xid|].
    destruct (negb (supported (h_vers h))); [apply make_reply_xid|].
    destruct (if h_vers h =? 2 then v2_proc reg c (h_proc h) args else rpcb_proc la reg c (h_proc h) args)
      as [[a b]|]; apply make_reply_xid. }
  rewrite Hx. apply bytes_eqb_refl.
Qed.

(* ---------- reg_ok is preserved by every event on byte strings ---------- *)
Lemma bytes_ok_skipn : forall n s, bytes_ok s = true -> bytes_ok (skipn n s) = true.
Proof.
  induction n as [|n IH]; intros s H; [exact H|]. destruct s as [|x s]; [reflexivity|].
  cbn [skipn]. apply IH. unfold bytes_ok in H. cbn [forallb] in H. apply andb_true_iff in H. tauto.
Qed.
Lemma take_exact_ok : forall n s a r, bytes_ok s = true -> take_exact n s = Some (a, r) -> bytes_ok r = true.
Proof.
  intros n s a r Hb H. unfold take_exact in H. destruct (len s <? n); [discriminate|].
  inversion H; subst. apply bytes_ok_skipn. exact Hb.
Qed.
Lemma skip_auth_ok : forall s r, bytes_ok s = true -> skip_auth s = Some r -> bytes_ok r = true.
Proof.
  intros s r Hb H. unfold skip_auth in H.
  destruct (get32 s) as [[f s1]|] eqn:E1; [|discriminate]. cbn [bind] in H.
  destruct (get32_ok _ _ _ Hb E1) as [_ Hb1].
  destruct (get32 s1) as [[n s2]|] eqn:E2; [|discriminate]. cbn [bind] in H.
  destruct (get32_ok _ _ _ Hb1 E2) as [_ Hb2].
  destruct (MAX_AUTH <? n); [discriminate|]. destruct (n =? 0); [inversion H; subst; exact Hb2|].
  destruct (take_exact n s2) as [[a s3]|] eqn:E3; [|discriminate]. cbn [bind] in H.
  pose proof (take_exact_ok _ _ _ _ Hb2 E3) as Hb3.
  destruct (take_exact (pad_of n) s3) as [[a' s4]|] eqn:E4; [|discriminate]. cbn [bind] in H.
  inversion H; subst. exact (take_exact_ok _ _ _ _ Hb3 E4).
Qed.
Lemma decode_header_ok : forall data h args, bytes_ok data = true -> decode_header data = Some (h, args) ->
  bytes_ok args = true.
Proof.
  intros data h args Hb H. unfold decode_header in H.
  destruct (get32 data) as [[x s0]|] eqn:E0; [|discriminate]. cbn [bind] in H.
  destruct (get32_ok _ _ _ Hb E0) as [_ Hb0].
  destruct (get32 s0) as [[mt s1]|] eqn:E1; [|discriminate]. cbn [bind] in H.
  destruct (get32_ok _ _ _ Hb0 E1) as [_ Hb1].
  destruct (negb (mt =? RPC_CALL)); [discriminate|].
  destruct (get32 s1) as [[rv s2]|] eqn:E2; [|discriminate]. cbn [bind] in H.
  destruct (get32_ok _ _ _ Hb1 E2) as [_ Hb2].
  destruct (get32 s2) as [[pg s3]|] eqn:E3; [|discriminate]. cbn [bind] in H.
  destruct (get32_ok _ _ _ Hb2 E3) as [_ Hb3].
  destruct (get32 s3) as [[vs s4]|] eqn:E4; [|discriminate]. cbn [bind] in H.
  destruct (get32_ok _ _ _ Hb3 E4) as [_ Hb4].
  destruct (get32 s4) as [[pc s5]|] eqn:E5; [|discriminate]. cbn [bind] in H.
  destruct (get32_ok _ _ _ Hb4 E5) as [_ Hb5].
  destruct (skip_auth s5) as [s6|] eqn:E6; [|discriminate]. cbn [bind] in H.
  pose proof (skip_auth_ok _ _ Hb5 E6) as Hb6.
  destruct (skip_auth s6) as [s7|] eqn:E7; [|discriminate]. cbn [bind] in H.
  inversion H; subst. exact (skip_auth_ok _ _ Hb6 E7).
Qed.

Lemma args4_ok : forall s p v t port, bytes_ok s = true -> args4 s = Some (p, v, t, port) ->
  entry_ok ((p, v, t), port) = true.
Proof.
  intros s p v t port Hb H. unfold args4 in H.
  destruct (get32 s) as [[a s1]|] eqn:E1; [|discriminate]. cbn [bind] in H.
  destruct (get32_ok _ _ _ Hb E1) as [Ha Hb1].
  destruct (get32 s1) as [[b s2]|] eqn:E2; [|discriminate]. cbn [bind] in H.
  destruct (get32_ok _ _ _ Hb1 E2) as [Hb' Hb2].
  destruct (get32 s2) as [[c s3]|] eqn:E3; [|discriminate]. cbn [bind] in H.
  destruct (get32_ok _ _ _ Hb2 E3) as [Hc Hb3].
  destruct (get32 s3) as [[d s4]|] eqn:E4; [|discriminate]. cbn [bind] in H.
  destruct (get32_ok _ _ _ Hb3 E4) as [Hd _].
  inversion H; subst. apply entry_ok_intro; assumption.
Qed.
Lemma rpcb_head_ok : forall s p v n r, bytes_ok s = true -> rpcb_head s = Some (p, v, n, r) ->
  p < 4294967296 /\ v < 4294967296.
Proof.
  intros s p v n r Hb H. unfold rpcb_head in H.
  destruct (get32 s) as [[a s1]|] eqn:E1; [|discriminate]. cbn [bind] in H.
  destruct (get32_ok _ _ _ Hb E1) as [Ha Hb1].
  destruct (get32 s1) as [[b s2]|] eqn:E2; [|discriminate]. cbn [bind] in H.
  destruct (get32_ok _ _ _ Hb1 E2) as [Hb' Hb2].
  destruct (get_string s2) as [[n' s3]|]; [|discriminate]. cbn [bind] in H.
  inversion H; subst. split; assumption.
Qed.
Lemma uaddr_port_lt : forall u, uaddr_port u < 4294967296.
Proof.
  intros u. unfold uaddr_port. destruct u as [|x u]; [lia|].
  destruct (scan6 (x :: u)) as [[hi lo]|]; [|lia].
  pose proof (Z.mod_pos_bound (hi * 256 + lo) 4294967296 eq_refl). lia.
Qed.
Lemma prot_set_lt : forall n, prot_set n < 4294967296.
Proof. intros n. unfold prot_set. destruct (is_udp_netid n); cbv; reflexivity. Qed.

Lemma dispatch_reg_ok : forall la reg c h args, bytes_ok args = true -> reg_ok reg = true ->
  reg_ok (fst (dispatch la reg c h args)) = true.
Proof.
  intros la reg c h args Hb Hok. unfold dispatch.
  destruct (negb (h_prog h =? PMAP_PROG)); [exact Hok|].
  destruct (negb (supported (h_vers h))); [exact Hok|].
  destruct (h_vers h =? 2).
  - unfold v2_proc. destruct (h_proc h =? P_NULL); [exact Hok|].
    destruct (h_proc h =? P_SET).
    { cbn [fst]. unfold v2_set. destruct (v2_refused f_pm_v2_set_guarded c); [exact Hok|].
      destruct (args4 args) as [[[[p v] t] port]|] eqn:E; [|exact Hok]. cbn [fst].
      apply register_ok; [exact Hok|exact (args4_ok _ _ _ _ _ Hb E)]. }
    destruct (h_proc h =? P_UNSET).
    { cbn [fst]. unfold v2_unset. destruct (v2_refused f_pm_v2_unset_guarded c); [exact Hok|].
      destruct (args4 args) as [[[[p v] t] port]|]; [|exact Hok]. cbn [fst]. apply unregister_ok; exact Hok. }
    destruct (h_proc h =? P_GETPORT); [exact Hok|]. destruct (h_proc h =? P_DUMP); exact Hok.
  - unfold rpcb_proc. destruct (h_proc h =? 0); [exact Hok|].
    destruct (h_proc h =? 1).
    { cbn [fst]. destruct (rpcb_admitted f_pm_rpcb_set_guarded c); [|exact Hok]. unfold rpcb_set.
      destruct (rpcb_head args) as [[[[p v] n] s]|] eqn:E; [|exact Hok].
      destruct (get_string s) as [[u s']|]; [|exact Hok]. cbn [fst].
      destruct (0 <? uaddr_port u); [|exact Hok].
      destruct (rpcb_head_ok _ _ _ _ _ Hb E) as [Hp Hv].
      apply register_ok; [exact Hok|]. apply entry_ok_intro; try assumption; [apply prot_set_lt|apply uaddr_port_lt]. }
    destruct (h_proc h =? 2).
    { cbn [fst]. destruct (rpcb_admitted f_pm_rpcb_unset_guarded c); [|exact Hok]. unfold rpcb_unset.
      destruct (rpcb_head args) as [[[[p v] n] s]|]; [|exact Hok]. cbn [fst]. apply unregister_ok; exact Hok. }
    destruct (h_proc h =? 3); [exact Hok|]. destruct (h_proc h =? 4); exact Hok.
Qed.

Lemma step_reg_ok : forall la reg e, event_ok e = true -> reg_ok reg = true -> reg_ok (fst (step la reg e)) = true.
Proof.
  intros la reg [c data|p v t port|p v t] He Hok; cbn [step event_ok] in *.
  - unfold handle_call. destruct (decode_header data) as [[h args]|] eqn:Hd; [|exact Hok].
    pose proof (dispatch_reg_ok la reg c h args (decode_header_ok _ _ _ He Hd) Hok) as H.
    destruct (dispatch la reg c h args). exact H.
  - cbn [fst]. apply register_ok; [exact Hok|exact He].
  - cbn [fst]. apply unregister_ok; exact Hok.
Qed.

Lemma dispatch_nodup : forall la reg c h args, NoDup (keys reg) -> NoDup (keys (fst (dispatch la reg c h args))).
Proof.
  intros la reg c h args Hnd. unfold dispatch.
  destruct (negb (h_prog h =? PMAP_PROG)); [exact Hnd|].
  destruct (negb (supported (h_vers h))); [exact Hnd|].
  destruct (h_vers h =? 2).
  - unfold v2_proc. destruct (h_proc h =? P_NULL); [exact Hnd|].
    destruct (h_proc h =? P_SET).
    { cbn [fst]. unfold v2_set. destruct (v2_refused f_pm_v2_set_guarded c); [exact Hnd|].
      destruct (args4 args) as [[[[p v] t] port]|]; [|exact Hnd]. apply register_nodup; exact Hnd. }
    destruct (h_proc h =? P_UNSET).
    { cbn [fst]. unfold v2_unset. destruct (v2_refused f_pm_v2_unset_guarded c); [exact Hnd|].
      destruct (args4 args) as [[[[p v] t] port]|]; [|exact Hnd]. apply unregister_nodup; exact Hnd. }
    destruct (h_proc h =? P_GETPORT); [exact Hnd|]. destruct (h_proc h =? P_DUMP); exact Hnd.
  - unfold rpcb_proc. destruct (h_proc h =? 0); [exact Hnd|].
    destruct (h_proc h =? 1).
    { cbn [fst]. destruct (rpcb_admitted f_pm_rpcb_set_guarded c); [|exact Hnd]. unfold rpcb_set.
      destruct (rpcb_head args) as [[[[p v] n] s]|]; [|exact Hnd].
      destruct (get_string s) as [[u s']|]; [|exact Hnd]. cbn [fst].
      destruct (0 <? uaddr_port u); [|exact Hnd]. apply register_nodup; exact Hnd. }
    destruct (h_proc h =? 2).
    { cbn [fst]. destruct (rpcb_admitted f_pm_rpcb_unset_guarded c); [|exact Hnd]. unfold rpcb_unset.
      destruct (rpcb_head args) as [[[[p v] n] s]|]; [|exact Hnd]. apply unregister_nodup; exact Hnd. }
    destruct (h_proc h =? 3); [exact Hnd|]. destruct (h_proc h =? 4); exact Hnd.
Qed.
Lemma step_nodup : forall la reg e, NoDup (keys reg) -> NoDup (keys (fst (step la reg e))).
Proof.
  intros la reg [c data|p v t port|p v t] Hnd; cbn [step].
  - unfold handle_call. destruct (decode_header data) as [[h args]|]; [|exact Hnd].
    pose proof (dispatch_nodup la reg c h args Hnd) as H. destruct (dispatch la reg c h args). exact H.
  - apply register_nodup; exact Hnd.
  - apply unregister_nodup; exact Hnd.
Qed.

(* every state reached from the empty registry by any history of well-typed events *)
Definition reachable (la : list N) (reg : registry) : Prop :=
  exists evs, forallb event_ok evs = true /\ reg = run la [] evs.

Lemma run_inv : forall la evs reg, forallb event_ok evs = true -> reg_ok reg = true -> NoDup (keys reg) ->
  reg_ok (run la reg evs) = true /\ NoDup (keys (run la reg evs)).
Proof.
  intros la evs. unfold run. induction evs as [|e evs IH]; intros reg He Hok Hnd; cbn [fold_left]; [auto|].
  cbn [forallb] in He. apply andb_true_iff in He. destruct He as [He1 He2].
  apply IH; [exact He2|apply step_reg_ok; assumption|apply step_nodup; assumption].
Qed.
Lemma reachable_inv : forall la reg, reachable la reg -> reg_ok reg = true /\ NoDup (keys reg).
Proof.
  intros la reg (evs & He & ->). apply run_inv; [exact He|reflexivity|constructor].
Qed.

(* ---------- the procedures as operations on the abstract map ---------- *)
(* a call record whose header decodes to portmapper version [vers], procedure [proc] *)
Definition pm_call (data : list N) (vers proc xid : N) (args : list N) : Prop :=
  exists h, decode_header data = Some (h, args) /\ h_prog h = 100000 /\ h_vers h = vers /\ h_proc h = proc /\ h_xid h = xid.
Definition accepted (xid : N) (res : list N) : list N := make_reply xid MSG_ACCEPTED res.
Definition port_of (o : option N) : N := match o with Some p => p | None => 0 end.

Lemma handle_call_v2 : forall la reg c data proc xid args, pm_call data 2 proc xid args ->
  handle_call la reg c data =
  match v2_proc reg c proc args with
  | None => (reg, Some (make_reply xid PROC_UNAVAIL []))
  | Some (reg', res) => (reg', Some (accepted xid res))
  end.
Proof.
  intros la reg c data proc xid args (h & Hd & Hp & Hv & Hpr & Hx). unfold handle_call. rewrite Hd.
  unfold dispatch. rewrite Hp, Hv, Hpr, Hx. change (negb (100000 =? PMAP_PROG)) with false.
  change (negb (supported 2)) with false. change (2 =? 2) with true. cbv iota.
  destruct (v2_proc reg c proc args) as [[reg' res]|]; reflexivity.
Qed.
Lemma handle_call_rpcb : forall la reg c data vers proc xid args, vers = 3 \/ vers = 4 -> pm_call data vers proc xid args ->
  handle_call la reg c data =
  match rpcb_proc la reg c proc args with
  | None => (reg, Some (make_reply xid PROC_UNAVAIL []))
  | Some (reg', res) => (reg', Some (accepted xid res))
  end.
Proof.
  intros la reg c data vers proc xid args Hvers (h & Hd & Hp & Hv & Hpr & Hx). unfold handle_call. rewrite Hd.
  unfold dispatch. rewrite Hp, Hv, Hpr, Hx. change (negb (100000 =? PMAP_PROG)) with false.
  assert (H1 : negb (supported vers) = false) by (destruct Hvers as [-> | ->]; reflexivity).
  assert (H2 : (vers =? 2) = false) by (destruct Hvers as [-> | ->]; reflexivity).
  rewrite H1, H2. destruct (rpcb_proc la reg c proc args) as [[reg' res]|]; reflexivity.
Qed.

Lemma map_getport : forall la reg c data xid args p v t x,
  pm_call data 2 3 xid args -> args4 args = Some (p, v, t, x) ->
  handle_call la reg c data = (reg, Some (accepted xid (enc32 (port_of (lookup (p, v, t) reg))))).
Proof.
  intros la reg c data xid args p v t x Hc Ha. rewrite (handle_call_v2 _ _ _ _ _ _ _ Hc).
  change (v2_proc reg c 3 args) with (Some (reg, v2_getport reg args)). unfold v2_getport. rewrite Ha. reflexivity.
Qed.

Definition getaddr_answer (la : list N) (netid : list N) (o : option N) : list N :=
  match o with
  | Some port => if 0 <? port then fmt_uaddr (if is_v6_netid netid then s_lo6 else listen_host la) port else []
  | None => []
  end.
Lemma map_getaddr : forall la reg c data vers xid args p v netid rest, vers = 3 \/ vers = 4 ->
  pm_call data vers 3 xid args -> rpcb_head args = Some (p, v, netid, rest) ->
  handle_call la reg c data =
  (reg, Some (accepted xid (put_string (getaddr_answer la netid (lookup (p, v, prot_getaddr netid) reg))))).
Proof.
  intros la reg c data vers xid args p v netid rest Hv Hc Ha. rewrite (handle_call_rpcb _ _ _ _ _ _ _ _ Hv Hc).
  change (rpcb_proc la reg c 3 args) with (Some (reg, rpcb_getaddr la reg args)).
  unfold rpcb_getaddr, getaddr_answer, get_port. rewrite Ha.
  destruct (lookup (p, v, prot_getaddr netid) reg) as [port|]; [|reflexivity].
  destruct (0 <? port); reflexivity.
Qed.

Lemma map_dump : forall la reg c data xid args, pm_call data 2 4 xid args ->
  handle_call la reg c data = (reg, Some (accepted xid (v2_dump reg))).
Proof. intros la reg c data xid args Hc. rewrite (handle_call_v2 _ _ _ _ _ _ _ Hc). reflexivity. Qed.
Lemma map_rpcb_dump : forall la reg c data vers xid args, vers = 3 \/ vers = 4 -> pm_call data vers 4 xid args ->
  handle_call la reg c data = (reg, Some (accepted xid (rpcb_dump la reg))).
Proof. intros la reg c data vers xid args Hv Hc. rewrite (handle_call_rpcb _ _ _ _ _ _ _ _ Hv Hc). reflexivity. Qed.

Lemma map_set : forall la reg c data xid args p v t port,
  pm_call data 2 1 xid args -> args4 args = Some (p, v, t, port) ->
  handle_call la reg c data =
  if local_caller c then (register (p, v, t) port reg, Some (accepted xid (enc_bool true)))
  else (reg, Some (accepted xid (enc_bool false))).
Proof.
  intros la reg c data xid args p v t port Hc Ha. rewrite (handle_call_v2 _ _ _ _ _ _ _ Hc).
  change (v2_proc reg c 1 args) with (Some (v2_set reg c args)). unfold v2_set, v2_refused.
  rewrite guard_spec, Ha. change f_pm_v2_set_guarded with true. destruct (local_caller c); reflexivity.
Qed.
Lemma map_unset : forall la reg c data xid args p v t port,
  pm_call data 2 2 xid args -> args4 args = Some (p, v, t, port) ->
  handle_call la reg c data =
  if local_caller c then (unregister (p, v, t) reg, Some (accepted xid (enc_bool true)))
  else (reg, Some (accepted xid (enc_bool false))).
Proof.
  intros la reg c data xid args p v t port Hc Ha. rewrite (handle_call_v2 _ _ _ _ _ _ _ Hc).
  change (v2_proc reg c 2 args) with (Some (v2_unset reg c args)). unfold v2_unset, v2_refused.
  rewrite guard_spec, Ha. change f_pm_v2_unset_guarded with true. destruct (local_caller c); reflexivity.
Qed.
Lemma map_rpcb_set : forall la reg c data vers xid args p v netid rest uaddr rest', vers = 3 \/ vers = 4 ->
  pm_call data vers 1 xid args -> rpcb_head args = Some (p, v, netid, rest) -> get_string rest = Some (uaddr, rest') ->
  handle_call la reg c data =
  if local_caller c
  then (if 0 <? uaddr_port uaddr then register (p, v, prot_set netid) (uaddr_port uaddr) reg else reg,
        Some (accepted xid (enc_bool true)))
  else (reg, Some (accepted xid (enc_bool false))).
Proof.
  intros la reg c data vers xid args p v netid rest uaddr rest' Hv Hc Ha Hu.
  rewrite (handle_call_rpcb _ _ _ _ _ _ _ _ Hv Hc).
  change (rpcb_proc la reg c 1 args) with (Some (if is_loopback_addr c then rpcb_set reg args else (reg, enc_bool false))).
  rewrite guard_spec. unfold rpcb_set. rewrite Ha, Hu. destruct (local_caller c); reflexivity.
Qed.
Lemma map_rpcb_unset : forall la reg c data vers xid args p v netid rest, vers = 3 \/ vers = 4 ->
  pm_call data vers 2 xid args -> rpcb_head args = Some (p, v, netid, rest) ->
  handle_call la reg c data =
  if local_caller c then (unregister (p, v, prot_set netid) reg, Some (accepted xid (enc_bool true)))
  else (reg, Some (accepted xid (enc_bool false))).
Proof.
  intros la reg c data vers xid args p v netid rest Hv Hc Ha.
  rewrite (handle_call_rpcb _ _ _ _ _ _ _ _ Hv Hc).
  change (rpcb_proc la reg c 2 args) with (Some (if is_loopback_addr c then rpcb_unset reg args else (reg, enc_bool false))).
  rewrite guard_spec. unfold rpcb_unset. rewrite Ha. destruct (local_caller c); reflexivity.
Qed.

(* an AUTH_NONE call record built by the obvious encoder decodes to its fields *)
Definition enc_call (xid rpcvers prog vers proc : N) (args : list N) : list N :=
  enc32 xid ++ enc32 RPC_CALL ++ enc32 rpcvers ++ enc32 prog ++ enc32 vers ++ enc32 proc ++
  enc32 0 ++ enc32 0 ++ enc32 0 ++ enc32 0 ++ args.
Lemma skip_auth_none : forall r, skip_auth (enc32 0 ++ enc32 0 ++ r) = Some r.
Proof. intros r. unfold skip_auth. rewrite get32_enc32. cbn [bind]. rewrite get32_enc32. reflexivity. Qed.
Lemma decode_enc_call : forall xid rpcvers prog vers proc args,
  xid < 4294967296 -> rpcvers < 4294967296 -> prog < 4294967296 -> vers < 4294967296 -> proc < 4294967296 ->
  decode_header (enc_call xid rpcvers prog vers proc args) =
  Some ({| h_xid := xid; h_rpcvers := rpcvers; h_prog := prog; h_vers := vers; h_proc := proc |}, args).
Proof.
  intros xid rpcvers prog vers proc args H1 H2 H3 H4 H5. unfold decode_header, enc_call.
  repeat (rewrite get32_enc32; cbn [bind]). change (negb (RPC_CALL mod 4294967296 =? RPC_CALL)) with false. cbv iota.
  repeat (rewrite get32_enc32; cbn [bind]).
  rewrite skip_auth_none. cbn [bind]. rewrite skip_auth_none. cbn [bind].
  rewrite !N.mod_small by assumption. reflexivity.
Qed.
Lemma pm_call_enc : forall xid rpcvers vers proc args,
  xid < 4294967296 -> rpcvers < 4294967296 -> vers < 4294967296 -> proc < 4294967296 ->
  pm_call (enc_call xid rpcvers 100000 vers proc args) vers proc xid args.
Proof.
  intros. eexists. split; [apply decode_enc_call; try assumption; lia|]. cbn. auto.
Qed.

(* ---------- universal address: what GETADDR / DUMP print, v3/v4 SET parses back ---------- *)
Lemma dec_aux_acc : forall f n acc, dec_aux f n acc = dec_aux f n [] ++ acc.
Proof.
  induction f as [|f IH]; intros n acc; cbn [dec_aux]; [reflexivity|].
  destruct (n / 10 =? 0); [reflexivity|].
  rewrite (IH (n / 10) ((48 + n mod 10) :: acc)), (IH (n / 10) [48 + n mod 10]).
  rewrite <- app_assoc. reflexivity.
Qed.
Lemma dec_aux_step : forall f n,
  dec_aux (S f) n [] = if n / 10 =? 0 then [48 + n mod 10] else dec_aux f (n / 10) [] ++ [48 + n mod 10].
Proof. intros f n. cbn [dec_aux]. destruct (n / 10 =? 0); [reflexivity|apply dec_aux_acc]. Qed.

Lemma digits_val_snoc : forall t c, digits_val (t ++ [c]) = digits_val t * 10 + (c - 48).
Proof. intros t c. unfold digits_val. rewrite fold_left_app. reflexivity. Qed.

Lemma dec_aux_val : forall f n, n < 10 ^ N.of_nat f -> digits_val (dec_aux f n []) = n.
Proof.
  induction f as [|f IH]; intros n Hn.
  - cbn in Hn. cbn. lia.
  - rewrite dec_aux_step. rewrite Nat2N.inj_succ, N.pow_succ_r' in Hn.
    destruct (n / 10 =? 0) eqn:E.
    + apply N.eqb_eq in E. unfold digits_val. cbn [fold_left]. lia.
    + rewrite digits_val_snoc, IH by lia. lia.
Qed.
Lemma dec_fuel : forall n, n < 10 ^ N.of_nat (S (N.to_nat (N.log2 n))).
Proof.
  intros n. rewrite Nat2N.inj_succ, N2Nat.id.
  destruct (N.eq_dec n 0) as [->|Hz]; [cbn; lia|].
  destruct (N.log2_spec n) as [_ H]; [lia|].
  eapply N.lt_le_trans; [exact H|]. apply N.pow_le_mono_l. lia.
Qed.
Lemma dec_val : forall n, digits_val (dec n) = n.
Proof. intros n. unfold dec. apply dec_aux_val. apply dec_fuel. Qed.

Lemma dec_aux_digits : forall f n, forallb is_digit (dec_aux f n []) = true.
Proof.
  induction f as [|f IH]; intros n; [reflexivity|]. rewrite dec_aux_step.
  assert (Hd : is_digit (48 + n mod 10) = true).
  { unfold is_digit. apply andb_true_iff. split; apply N.leb_le; lia. }
  destruct (n / 10 =? 0); [cbn [forallb]; rewrite Hd; reflexivity|].
  rewrite forallb_app, IH. cbn [forallb]. rewrite Hd. reflexivity.
Qed.
Lemma dec_digits : forall n, forallb is_digit (dec n) = true.
Proof. intros n. apply dec_aux_digits. Qed.
Lemma dec_nonempty : forall n, dec n <> [].
Proof.
  intros n. unfold dec. rewrite dec_aux_step. destruct (n / 10 =? 0); [discriminate|].
  intros H. apply app_eq_nil in H. destruct H; discriminate.
Qed.

Lemma digit_facts : forall c, is_digit c = true ->
  (c =? 10) = false /\ ascii_space c = false /\ (c =? 194) = false /\ (c =? 225) = false /\ (c =? 226) = false /\
  (c =? 227) = false /\ (c =? 45) = false /\ (c =? 43) = false /\ (c =? UNDERSCORE) = false.
Proof.
  intros c H. unfold is_digit in H. apply andb_true_iff in H. destruct H as [H1 H2].
  apply N.leb_le in H1, H2. unfold ascii_space, UNDERSCORE.
  repeat split; repeat (apply orb_false_iff; split); apply N.eqb_neq; lia.
Qed.
Lemma skip_space_digit : forall c r, is_digit c = true -> skip_space (c :: r) = Some (c :: r).
Proof.
  intros c r H. destruct (digit_facts c H) as (H1 & H2 & H3 & H4 & H5 & H6 & _).
  cbn [skip_space]. rewrite H1, H2, H3, H4, H5, H6. reflexivity.
Qed.
(* the token stops at the dot / at the end *)
Lemma span_num_digits : forall t r, forallb is_digit t = true ->
  (r = [] \/ exists r', r = DOT :: r') -> span_num (t ++ r) = (t, r).
Proof.
  induction t as [|c t IH]; intros r Ht Hr.
  - cbn [app]. destruct Hr as [->|[r' ->]]; reflexivity.
  - cbn [forallb] in Ht. apply andb_true_iff in Ht. destruct Ht as [Hc Ht].
    cbn [app span_num]. rewrite Hc. cbn [orb]. rewrite (IH r Ht Hr). reflexivity.
Qed.
Lemma no_underscore : forall t, forallb is_digit t = true -> existsb (N.eqb UNDERSCORE) t = false.
Proof.
  induction t as [|c t IH]; intros H; [reflexivity|]. cbn [forallb] in H. apply andb_true_iff in H.
  destruct H as [Hc Ht]. cbn [existsb]. rewrite (IH Ht), orb_false_r.
  destruct (digit_facts c Hc) as (_ & _ & _ & _ & _ & _ & _ & _ & H). rewrite N.eqb_sym. exact H.
Qed.

Lemma scan_int_dec : forall n r, n < 9223372036854775808 -> (r = [] \/ exists r', r = DOT :: r') ->
  scan_int (dec n ++ r) = Some (Z.of_N n, r).
Proof.
  intros n r Hn Hr. pose proof (dec_digits n) as Hd. pose proof (dec_nonempty n) as Hne.
  pose proof (dec_val n) as Hv. pose proof (span_num_digits (dec n) r Hd Hr) as Hs.
  pose proof (no_underscore _ Hd) as Hu.
  destruct (dec n) as [|c t] eqn:E; [congruence|].
  cbn [forallb] in Hd. apply andb_true_iff in Hd. destruct Hd as [Hc Ht].
  destruct (digit_facts c Hc) as (_ & _ & _ & _ & _ & _ & H45 & H43 & _).
  unfold scan_int. cbn [app]. rewrite (skip_space_digit c (t ++ r) Hc). cbn [bind].
  rewrite H45, H43. cbn [app] in Hs. rewrite Hs. rewrite Hu, Hv.
  destruct (n <? 9223372036854775808) eqn:El; [reflexivity|apply N.ltb_ge in El; lia].
Qed.

Definition dotted (a b c d : N) : list N := dec a ++ [DOT] ++ dec b ++ [DOT] ++ dec c ++ [DOT] ++ dec d.

Lemma uaddr_roundtrip : forall a b c d port,
  a < 9223372036854775808 -> b < 9223372036854775808 -> c < 9223372036854775808 -> d < 9223372036854775808 ->
  port < 4294967296 -> uaddr_port (fmt_uaddr (dotted a b c d) port) = port.
Proof.
  intros a b c d port Ha Hb Hc Hd Hp. unfold uaddr_port, fmt_uaddr, dotted.
  repeat rewrite <- app_assoc. cbn [app].
  destruct (dec a ++ DOT :: dec b ++ DOT :: dec c ++ DOT :: dec d ++ DOT :: dec (port / 256) ++ DOT :: dec (port mod 256)) eqn:E.
  { exfalso. apply app_eq_nil in E. destruct E as [E _]. exact (dec_nonempty a E). }
  rewrite <- E. clear E. unfold scan6.
  rewrite scan_int_dec by (try assumption; right; eexists; reflexivity). cbn [bind expect_dot]. rewrite N.eqb_refl. cbv iota. cbn [bind].
  rewrite scan_int_dec by (try assumption; right; eexists; reflexivity). cbn [bind expect_dot]. rewrite N.eqb_refl. cbv iota. cbn [bind].
  rewrite scan_int_dec by (try assumption; right; eexists; reflexivity). cbn [bind expect_dot]. rewrite N.eqb_refl. cbv iota. cbn [bind].
  rewrite scan_int_dec by (try assumption; right; eexists; reflexivity). cbn [bind expect_dot]. rewrite N.eqb_refl. cbv iota. cbn [bind].
  rewrite scan_int_dec by (try lia; right; eexists; reflexivity). cbn [bind expect_dot]. rewrite N.eqb_refl. cbv iota. cbn [bind].
  rewrite <- (app_nil_r (dec (port mod 256))). rewrite scan_int_dec by (try lia; left; reflexivity). cbn [bind].
  lia.
Qed.

(* ---------- statements of Properties/C27.v that need more than one lemma ---------- *)
Lemma C27_map_invariant_lemma : forall la reg, reachable la reg ->
  NoDup (keys reg) /\ reg_ok reg = true /\
  (forall k port, In (k, port) reg <-> lookup k reg = Some port).
Proof.
  intros la reg H. destruct (reachable_inv la reg H) as [Hok Hnd].
  split; [exact Hnd|]. split; [exact Hok|]. intros k port. apply lookup_in. exact Hnd.
Qed.

Lemma C27_map_dump_lemma : forall la reg c data xid args, reachable la reg -> pm_call data 2 4 xid args ->
  exists body, handle_call la reg c data = (reg, Some (accepted xid body)) /\
               p_pmaplist (S (length body)) body = Some (reg, []) /\
               forall k port, In (k, port) reg <-> lookup k reg = Some port.
Proof.
  intros la reg c data xid args Hr Hc. destruct (reachable_inv la reg Hr) as [Hok Hnd].
  exists (v2_dump reg). split; [exact (map_dump la reg c data xid args Hc)|].
  split; [exact (v2_dump_decodes reg Hok)|]. intros k port. apply lookup_in. exact Hnd.
Qed.

Lemma C27_map_rpcb_dump_lemma : forall la reg c data vers xid args, la_ok la = true -> reachable la reg ->
  vers = 3 \/ vers = 4 -> pm_call data vers 4 xid args ->
  exists body, handle_call la reg c data = (reg, Some (accepted xid body)) /\
               p_rpcblist (S (length body)) body = Some (map (rpcb_view la) reg, []).
Proof.
  intros la reg c data vers xid args Hla Hr Hv Hc. destruct (reachable_inv la reg Hr) as [Hok _].
  exists (rpcb_dump la reg). split; [exact (map_rpcb_dump la reg c data vers xid args Hv Hc)|].
  exact (rpcb_dump_decodes la reg Hla Hok).
Qed.

Lemma C27_map_set_lemma : forall la reg c data xid args p v t port reg' r,
  pm_call data 2 1 xid args -> args4 args = Some (p, v, t, port) -> handle_call la reg c data = (reg', r) ->
  if local_caller c
  then r = Some (accepted xid (enc_bool true)) /\
       forall k, lookup k reg' = if key_eqb (p, v, t) k then Some port else lookup k reg
  else r = Some (accepted xid (enc_bool false)) /\ reg' = reg.
Proof.
  intros la reg c data xid args p v t port reg' r Hc Ha H. rewrite (map_set _ _ _ _ _ _ _ _ _ _ Hc Ha) in H.
  destruct (local_caller c); inversion H; subst; split; try reflexivity.
  intros k. apply lookup_register.
Qed.

Lemma C27_map_unset_lemma : forall la reg c data xid args p v t port reg' r, reachable la reg ->
  pm_call data 2 2 xid args -> args4 args = Some (p, v, t, port) -> handle_call la reg c data = (reg', r) ->
  if local_caller c
  then r = Some (accepted xid (enc_bool true)) /\
       forall k, lookup k reg' = if key_eqb (p, v, t) k then None else lookup k reg
  else r = Some (accepted xid (enc_bool false)) /\ reg' = reg.
Proof.
  intros la reg c data xid args p v t port reg' r Hr Hc Ha H. rewrite (map_unset _ _ _ _ _ _ _ _ _ _ Hc Ha) in H.
  destruct (reachable_inv la reg Hr) as [_ Hnd].
  destruct (local_caller c); inversion H; subst; split; try reflexivity.
  intros k. apply lookup_unregister. exact Hnd.
Qed.

Lemma C27_map_rpcb_set_lemma : forall la reg c data vers xid args p v netid rest uaddr rest' reg' r,
  vers = 3 \/ vers = 4 -> pm_call data vers 1 xid args ->
  rpcb_head args = Some (p, v, netid, rest) -> get_string rest = Some (uaddr, rest') ->
  handle_call la reg c data = (reg', r) ->
  if local_caller c
  then r = Some (accepted xid (enc_bool true)) /\
       forall k, lookup k reg' = if (0 <? uaddr_port uaddr) && key_eqb (p, v, prot_set netid) k
                                 then Some (uaddr_port uaddr) else lookup k reg
  else r = Some (accepted xid (enc_bool false)) /\ reg' = reg.
Proof.
  intros la reg c data vers xid args p v netid rest uaddr rest' reg' r Hv Hc Ha Hu H.
  rewrite (map_rpcb_set _ _ _ _ _ _ _ _ _ _ _ _ _ Hv Hc Ha Hu) in H.
  destruct (local_caller c); inversion H; subst; split; try reflexivity.
  intros k. destruct (0 <? uaddr_port uaddr); [apply lookup_register|reflexivity].
Qed.

Lemma C27_map_rpcb_unset_lemma : forall la reg c data vers xid args p v netid rest reg' r, reachable la reg ->
  vers = 3 \/ vers = 4 -> pm_call data vers 2 xid args -> rpcb_head args = Some (p, v, netid, rest) ->
  handle_call la reg c data = (reg', r) ->
  if local_caller c
  then r = Some (accepted xid (enc_bool true)) /\
       forall k, lookup k reg' = if key_eqb (p, v, prot_set netid) k then None else lookup k reg
  else r = Some (accepted xid (enc_bool false)) /\ reg' = reg.
Proof.
  intros la reg c data vers xid args p v netid rest reg' r Hr Hv Hc Ha H.
  rewrite (map_rpcb_unset _ _ _ _ _ _ _ _ _ _ _ Hv Hc Ha) in H.
  destruct (reachable_inv la reg Hr) as [_ Hnd].
  destruct (local_caller c); inversion H; subst; split; try reflexivity.
  intros k. apply lookup_unregister. exact Hnd.
Qed.

Lemma C27_map_api_lemma : forall la reg p v t port k,
  lookup k (fst (step la reg (ApiRegister p v t port))) = (if key_eqb (p, v, t) k then Some port else lookup k reg) /\
  (NoDup (keys reg) ->
   lookup k (fst (step la reg (ApiUnregister p v t))) = if key_eqb (p, v, t) k then None else lookup k reg).
Proof.
  intros la reg p v t port k. split; [apply lookup_register|apply lookup_unregister].
Qed.

Lemma C27_uaddr_roundtrip_lemma : forall a b c d port,
  a < 256 -> b < 256 -> c < 256 -> d < 256 -> port < 4294967296 ->
  uaddr_port (fmt_uaddr (dotted a b c d) port) = port.
Proof.
  intros a b c d port Ha Hb Hc Hd Hp. apply uaddr_roundtrip; try assumption;
    eapply N.lt_trans; try eassumption; reflexivity.
Qed.

Lemma C27_wellformed_reachable_lemma : forall la reg c data reg' r, la_ok la = true -> reachable la reg ->
  handle_call la reg c data = (reg', Some r) ->
  exists h args, decode_header data = Some (h, args) /\ wellformed_reply h r = true.
Proof.
  intros la reg c data reg' r Hla Hr H. destruct (reachable_inv la reg Hr) as [Hok _].
  destruct (handle_call_wellformed la reg c data reg' r Hla Hok H) as (h & args & Hd & Hw & _).
  exists h, args. split; assumption.
Qed.
