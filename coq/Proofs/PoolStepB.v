(* Proofs/PoolStepB.v — the Stop and Resize steps preserve Str (continuation of PoolStep.v). *)
From Coq Require Import List Arith Bool Lia.
From Verif Require Import Model.PoolLTS Proofs.PoolProofs Proofs.PoolStr Proofs.PoolStep.
Import ListNotations.

Ltac it := intuition (try discriminate; try congruence).
Ltac rw_pc := repeat match goal with
  | E : stop _ = _ |- _ => rewrite E
  | E : rz _ = _ |- _ => rewrite E
  | E : running _ = _ |- _ => rewrite E
  end.

Lemma Str_StopClose c s s' : good c -> Str s -> step c s StopClose = Some s' -> Str s'.
Proof.
  start. pose proof (Str_Str0 _ St) as Z. break H; injection H as <-.
  match goal with E : nth_error (gens s) _ = Some ?G0 |- _ => pose proof (gen_is_cur _ _ _ St eq_refl E) as EG end. subst.
  match goal with E : no_pending s = true |- _ => rename E into NP end.
  set (G' := g_close (curgen s)).
  assert (CG : curgen (put_gen s (cur s) G') = G') by (apply curgen_put; apply Z).
  apply Str_make.
  - apply (Str0_eq (put_gen s (cur s) G')); try reflexivity.
    apply (Str0_put_gen_shrink s G' Z); [reflexivity|apply le_n|]. intros _. right. exact NP.
  - revert PC. pcopen. pcproj. norm s. normg s G'. rewrite CG. cbn [g_closed g_cancel G' g_close].
    match goal with E : stop s = _ |- _ => rewrite E end.
    intros (A & B & C). destruct A as (RF & A). unfold rz_free in RF. destruct (rz s); try discriminate; it.
Qed.

Lemma Str_StopWait c s s' : good c -> Str s -> step c s StopWait = Some s' -> Str s'.
Proof.
  start. pose proof (Str_Str0 _ St) as Z. break H; injection H as <-.
  match goal with E : all_exited s = true |- _ => rename E into AE end.
  assert (RS : resizing s = false).
  { pose proof (s_stop _ St) as A. unfold stop_inv in A. match goal with E : stop s = _ |- _ => rewrite E in A end. tauto. }
  rewrite RS. cbn [orb].
  apply Str_make; [same0 s Z|].
  revert PC. pcopen. pcproj. norm s. norm1 curgen s.
  match goal with E : stop s = _ |- _ => rewrite E end.
  intros (A & B & C). destruct A as (RF & A). unfold rz_free in RF. destruct (rz s); try discriminate; it.
Qed.

Lemma Str_StopDrain c s s' : good c -> Str s -> step c s StopDrain = Some s' -> Str s'.
Proof.
  start. pose proof (Str_Str0 _ St) as Z.
  assert (SI := s_stop _ St). unfold stop_inv in SI.
  break H; injection H as <-; try match goal with E : stop s = SpDrain _ |- _ => rewrite E in SI end;
  destruct SI as (RF & RN & RS & GC & CL & NP & AE);
  match goal with E : nth_error (gens s) _ = Some ?G0 |- _ => pose proof (gen_is_cur _ _ _ St GC E) as EG end; subst.
  - (* queue empty: Stop returns *)
    apply Str_make; [same0 s Z|].
    revert PC. pcopen. pcproj. norm s. norm1 curgen s.
    match goal with E : stop s = _ |- _ => rewrite E end.
    unfold rz_free in RF. destruct (rz s); try discriminate; it.
  - (* one queued task is told "not executed" *)
    match goal with E : g_items (curgen s) = ?t :: ?q |- _ => rename E into EI; set (G' := g_set_items (curgen s) q) end.
    apply Str_make.
    + apply Str0_tell; [discriminate|]. apply (Str0_put_gen_shrink s G' Z); [reflexivity| |intros Q; left; exact Q].
      rewrite EI. cbn. lia.
    + apply pcs_tell; [discriminate|]. apply (pcs_put_curgen s G'); [apply Z|reflexivity|reflexivity| |exact PC].
      intros Q. congruence.
Qed.

Lemma Str_RzCall c s s' n : good c -> Str s -> step c s (RzCall n) = Some s' -> Str s'.
Proof.
  start. break H. injection H as <-. apply Str_make; [same0 s (Str_Str0 _ St)|].
  revert PC. pcopen. pcproj. norm s. norm1 curgen s.
  match goal with E : rz s = _ |- _ => rewrite E end. destruct (stop s); it.
Qed.

Lemma Str_RzBegin c s s' : good c -> Str s -> step c s RzBegin = Some s' -> Str s'.
Proof.
  start. break H; injection H as <-; (apply Str_make; [same0 s (Str_Str0 _ St)|]);
  revert PC; pcopen; pcproj; norm s; norm1 curgen s;
  match goal with E : rz s = _ |- _ => rewrite E end;
  match goal with E : negb _ = false |- _ => apply negb_false_iff in E; unfold stop_free in E end;
  destruct (stop s); try discriminate; it.
Qed.

Ltac rzinv St :=
  let RI := fresh "RI" in pose proof (s_rz _ St) as RI; unfold rz_inv in RI;
  try match goal with E : rz _ = _ |- _ => rewrite E in RI end.

Lemma Str_RzStop c s s' : good c -> Str s -> step c s RzStop = Some s' -> Str s'.
Proof.
  start. pose proof (Str_Str0 _ St) as Z. rzinv St.
  break H; injection H as <-; destruct RI as (SF & OL & WR & RS & RT & RF); subst;
  match goal with E : nth_error (gens s) _ = Some ?G0 |- _ => pose proof (gen_is_cur _ _ _ St eq_refl E) as EG; subst | _ => idtac end.
  - (* the pool runs: Resize's own Stop() wins the CAS *)
    match goal with E : running s = true |- _ => specialize (RT E); destruct RT as (R1 & R2 & R3) end.
    set (G' := g_cancelled (curgen s)).
    assert (CG : curgen (put_gen s (cur s) G') = G') by (apply curgen_put; apply Z).
    apply Str_make.
    + apply (Str0_eq (put_gen s (cur s) G')); try reflexivity.
      apply (Str0_put_gen_shrink s G' Z); [reflexivity|apply le_n|]. intros Q. left. exact Q.
    + revert PC. pcopen. pcproj. norm s. normg s G'. rewrite CG. cbn [g_closed g_cancel G' g_cancelled].
      match goal with E : rz s = _ |- _ => rewrite E end. unfold stop_free in SF. destruct (stop s); try discriminate; it.
  - congruence.
  - (* the pool was not running: close(oldQueue) *)
    match goal with E : false = running s |- _ => symmetry in E; specialize (RF E); destruct RF as (R1 & R2 & R3); rename E into RN end.
    set (G' := g_close (curgen s)).
    assert (CG : curgen (put_gen s (cur s) G') = G') by (apply curgen_put; apply Z).
    apply Str_make.
    + apply (Str0_eq (put_gen s (cur s) G')); try reflexivity.
      apply (Str0_put_gen_shrink s G' Z); [reflexivity|apply le_n|]. intros _. right. exact R3.
    + revert PC. pcopen. pcproj. norm s. normg s G'. rewrite CG. cbn [g_closed g_cancel G' g_close].
      match goal with E : rz s = _ |- _ => rewrite E end. unfold stop_free in SF. destruct (stop s); try discriminate; it.
Qed.

Lemma Str_RzClose c s s' : good c -> Str s -> step c s RzClose = Some s' -> Str s'.
Proof.
  start. pose proof (Str_Str0 _ St) as Z. rzinv St.
  break H; injection H as <-. destruct RI as (SF & OL & RN & RS & CA & CL); subst.
  match goal with E : nth_error (gens s) _ = Some ?G0 |- _ => pose proof (gen_is_cur _ _ _ St eq_refl E) as EG; subst end.
  match goal with E : no_pending s = true |- _ => rename E into NP end.
  set (G' := g_close (curgen s)).
  assert (CG : curgen (put_gen s (cur s) G') = G') by (apply curgen_put; apply Z).
  apply Str_make.
  - apply (Str0_eq (put_gen s (cur s) G')); try reflexivity.
    apply (Str0_put_gen_shrink s G' Z); [reflexivity|apply le_n|]. intros _. right. exact NP.
  - revert PC. pcopen. pcproj. norm s. normg s G'. rewrite CG. cbn [g_closed g_cancel G' g_close].
    match goal with E : rz s = _ |- _ => rewrite E end. unfold stop_free in SF. destruct (stop s); try discriminate; it.
Qed.

Lemma Str_RzWait c s s' : good c -> Str s -> step c s RzWait = Some s' -> Str s'.
Proof.
  start. pose proof (Str_Str0 _ St) as Z. rzinv St.
  break H; injection H as <-. destruct RI as (SF & OL & RN & CA & CL & NP); subst.
  match goal with E : all_exited s = true |- _ => rename E into AE end.
  apply Str_make; [same0 s Z|].
  revert PC. pcopen. pcproj. norm s. norm1 curgen s.
  match goal with E : rz s = _ |- _ => rewrite E end. unfold stop_free in SF. destruct (stop s); try discriminate; it.
Qed.

Lemma Str_RzDrain c s s' : good c -> Str s -> step c s RzDrain = Some s' -> Str s'.
Proof.
  start. pose proof (Str_Str0 _ St) as Z. rzinv St.
  break H; injection H as <-; destruct RI as (SF & OL & RN & RS & CL & NP & AE); subst;
  match goal with E : nth_error (gens s) _ = Some ?G0 |- _ => pose proof (gen_is_cur _ _ _ St eq_refl E) as EG; subst end.
  - (* old queue empty: on to the swap *)
    apply Str_make; [same0 s Z|].
    revert PC. pcopen. pcproj. norm s. norm1 curgen s.
    match goal with E : rz s = _ |- _ => rewrite E end. unfold stop_free in SF. destruct (stop s); try discriminate; it.
  - (* one task moves from the old queue to the pending list *)
    match goal with E : g_items (curgen s) = ?t :: ?q |- _ => rename E into EI; set (G' := g_set_items (curgen s) q) end.
    assert (CG : curgen (put_gen s (cur s) G') = G') by (apply curgen_put; apply Z).
    apply Str_make.
    + apply (Str0_eq (put_gen s (cur s) G')); try reflexivity.
      apply (Str0_put_gen_shrink s G' Z); [reflexivity| |intros Q; left; exact Q]. rewrite EI. cbn. lia.
    + revert PC. pcopen. pcproj. norm s. normg s G'. rewrite CG. cbn [g_closed g_cancel g_items G' g_set_items].
      match goal with E : rz s = _ |- _ => rewrite E end. unfold stop_free in SF. destruct (stop s); try discriminate; it.
Qed.

Lemma all_exited_live0 ws : forallb is_exit ws = true -> length (filter (fun w => negb (is_exit w)) ws) = 0.
Proof. induction ws as [|w r IH]; cbn; [reflexivity|]. rewrite andb_true_iff. intros (A & B). rewrite A. cbn. auto. Qed.
Lemma curgen_swap s' gs F : cur s' = length gs -> gens s' = gs ++ [F] -> curgen s' = F.
Proof. intros C E. unfold curgen. rewrite C, E. rewrite app_nth2 by lia. rewrite Nat.sub_diag. reflexivity. Qed.
Lemma no_pending_none s : no_pending s = true -> forall t g, ~ In (t, SPending g) (subs s).
Proof. intros N t g. apply no_pending_in. exact N. Qed.

Lemma Str_RzSwap c s s' : good c -> Str s -> step c s RzSwap = Some s' -> Str s'.
Proof.
  start. pose proof (Str_Str0 _ St) as Z. rzinv St.
  break H; injection H as <-; destruct RI as (SF & RN & RS & NP & AE & EI); try congruence.
  - (* the pool was running: new queue, new context, Start() *)
    match goal with |- Str ?x => set (s2 := x) end.
    assert (CG : curgen s2 = g_fresh (queue_factor * new)) by (apply (curgen_swap s2 (gens s)); reflexivity).
    assert (L0 := all_exited_live0 _ AE).
    assert (LV : live s2 = new).
    { unfold live, s2. cbn [workers set_rz set_workers]. rewrite filter_app, app_length, live_repeat_idle. lia. }
    apply Str_make.
    + split; rewrite ?CG.
      * reflexivity.
      * cbn. rewrite app_length. cbn. lia.
      * intros g G0 EN NE. cbn in EN, NE. assert (g < length (gens s)).
        { apply nth_error_lt in EN. rewrite app_length in EN. cbn in EN. lia. }
        rewrite nth_error_app1 in EN by assumption.
        destruct (Nat.eq_dec g (cur s)) as [->|N]; [|exact (z_old _ Z _ _ EN N)].
        rewrite (curgen_nth s (z_cur _ Z)) in EN. injection EN as <-. exact EI.
      * intros w g EN. cbn in EN. destruct (Nat.lt_ge_cases w (length (workers s))) as [LT|GE].
        -- rewrite nth_error_app1 in EN by assumption. exfalso. exact (all_exited_not s _ _ AE EN eq_refl).
        -- rewrite nth_error_app2 in EN by assumption. apply nth_error_In in EN. apply repeat_spec in EN. injection EN as ->. reflexivity.
      * intros u g I. exfalso. exact (no_pending_none s NP _ _ I).
      * rewrite LV. cbn. lia.
      * reflexivity.
      * cbn. lia.
    + pcopen. rewrite CG, LV. cbn [stop rz running resizing maxw s2 set_rz set_workers set_running g_closed g_cancel g_fresh].
      unfold stop_free in SF. rewrite RS. destruct (stop s); try discriminate; it.
  - (* the pool was not running: new queue and context only *)
    match goal with |- Str ?x => set (s2 := x) end.
    assert (CG : curgen s2 = g_fresh (queue_factor * new)) by (apply (curgen_swap s2 (gens s)); reflexivity).
    apply Str_make.
    + split; rewrite ?CG.
      * reflexivity.
      * cbn. rewrite app_length. cbn. lia.
      * intros g G0 EN NE. cbn in EN, NE. assert (g < length (gens s)).
        { apply nth_error_lt in EN. rewrite app_length in EN. cbn in EN. lia. }
        rewrite nth_error_app1 in EN by assumption.
        destruct (Nat.eq_dec g (cur s)) as [->|N]; [|exact (z_old _ Z _ _ EN N)].
        rewrite (curgen_nth s (z_cur _ Z)) in EN. injection EN as <-. exact EI.
      * intros w g EN. cbn in EN. exfalso. exact (all_exited_not s _ _ AE EN eq_refl).
      * intros u g I. exfalso. exact (no_pending_none s NP _ _ I).
      * unfold live, s2. cbn [workers set_rz maxw]. rewrite (all_exited_live0 _ AE). lia.
      * reflexivity.
      * cbn. lia.
    + pcopen. rewrite CG. change (all_exited s2) with (all_exited s). change (no_pending s2) with (no_pending s).
      cbn [stop rz running resizing maxw s2 set_rz g_closed g_cancel g_items g_fresh].
      unfold stop_free in SF. rewrite RS, RN. destruct (stop s); try discriminate; it.
Qed.

(* only the pending list of the Resize program counter changes *)
Lemma pcs_reenq_next s p p' : rz s = RpReenq p -> pcs s -> pcs (set_rz s (RpReenq p')).
Proof.
  intros E. pcopen. pcproj. norm s. norm1 curgen s. rewrite E. destruct (stop s); it.
Qed.
Lemma pcs_drop_next s p p' : rz s = RpDrop p -> pcs s -> pcs (set_rz s (RpDrop p')).
Proof.
  intros E. pcopen. pcproj. norm s. norm1 curgen s. rewrite E. destruct (stop s); it.
Qed.

Lemma Str_RzReenq c s s' : good c -> Str s -> step c s RzReenq = Some s' -> Str s'.
Proof.
  start. pose proof (Str_Str0 _ St) as Z. rzinv St.
  assert (DR : dropped c = SNotExec) by (unfold dropped; rewrite OC; reflexivity).
  break H; injection H as <-;
  try match goal with E : nth_error (gens s) _ = Some ?G0 |- _ => pose proof (gen_is_cur _ _ _ St eq_refl E) as EG; subst end.
  - (* all re-enqueued: Resize returns, pool running *)
    destruct RI as (SF & RN & RS & R1 & R2 & R3).
    apply Str_make; [same0 s Z|].
    revert PC. pcopen. pcproj. norm s. norm1 curgen s.
    match goal with E : rz s = _ |- _ => rewrite E end. unfold stop_free in SF. destruct (stop s); try discriminate; it.
  - (* the new queue cannot be closed here *)
    destruct RI as (SF & RN & RS & R1 & R2 & R3). congruence.
  - (* room in the new queue *)
    destruct RI as (SF & RN & RS & R1 & R2 & R3).
    match goal with E : (_ <? _) = true |- _ => apply Nat.ltb_lt in E; rename E into LT end.
    match goal with |- Str (set_rz (put_gen s (cur s) ?G) _) => set (G' := G) end.
    assert (P1 : pcs (put_gen s (cur s) G')).
    { apply (pcs_put_curgen s G'); [apply Z|reflexivity|reflexivity| |exact PC]. intros _ _ AE. exfalso.
      (* the pool runs with all its workers alive, and it has at least one (its queue has room) *)
      unfold running_facts in *. pose proof (all_exited_live0 _ AE) as L0. fold (live s) in L0.
      pose proof (z_cap _ Z). unfold queue_factor in *. lia. }
    apply Str_make.
    + apply (Str0_eq (put_gen s (cur s) G')); try reflexivity.
      apply (Str0_put_gen s G' Z); [reflexivity| |intros Q; left; exact Q]. unfold G'. cbn. rewrite app_length. cbn. lia.
    + apply (pcs_reenq_next (put_gen s (cur s) G') (t :: l)); [assumption|exact P1].
  - (* no room: the submitter is told "not executed" *)
    rewrite DR. apply Str_make.
    + apply (Str0_eq (tell s t SNotExec)); try reflexivity. apply Str0_tell; [discriminate|exact Z].
    + apply (pcs_reenq_next (tell s t SNotExec) (t :: l)); [assumption|]. apply pcs_tell; [discriminate|exact PC].
  - (* not running, nothing left: Resize returns *)
    destruct RI as (SF & RN & RS & R1 & R2 & R3).
    apply Str_make; [same0 s Z|].
    revert PC. pcopen. pcproj. norm s. norm1 curgen s.
    match goal with E : rz s = _ |- _ => rewrite E end. unfold stop_free in SF. destruct (stop s); try discriminate; it.
  - rewrite DR. apply Str_make.
    + apply (Str0_eq (tell s t SNotExec)); try reflexivity. apply Str0_tell; [discriminate|exact Z].
    + apply (pcs_drop_next (tell s t SNotExec) (t :: l)); [assumption|]. apply pcs_tell; [discriminate|exact PC].
Qed.
