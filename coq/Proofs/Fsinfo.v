(* Proofs/Fsinfo.v — FSINFO limits versus READ / WRITE (property C23).
   Part A: the server model (Model/Srv.v, tsize an unbounded N): what fsinfo_nums advertises, that a WRITE within
   wtmax never takes the count check, that NFS3ERR_INVAL then has only the two other documented causes, that a
   READ within rtmax before EOF returns min(count, size - offset) >= 1 bytes.
   Part B: the width-faithful model (Model/Fsinfo32.v: uint32(TransferSize) in handleFsinfo / handleWrite):
   advertised <= accepted for EVERY TransferSize >= 1, agreement with part A below 2^32, difference from 2^32 on.
   Part C: a WRITE call within wtmax fits one RPC record (and the READ reply too). *)
From Coq Require Import String List NArith ZArith Bool Lia ZifyBool ZifyNat ZifyN.
From Verif Require Import Gen.Facts Model.Handles Model.Backend Model.Srv Model.Fsinfo32
  Proofs.SrvRO Proofs.BackendData Proofs.SrvData.
Import ListNotations.
Open Scope N_scope.

(* ====================================================================================================== *)
(* A. Model/Srv.v                                                                                          *)
(* ====================================================================================================== *)
Definition srv_cap : N := st c_DefaultMaxRecordSize - record_headroom.
Lemma srv_cap_val : srv_cap = 1044480. Proof. reflexivity. Qed.

Definition rtmax (s : srv) : N := nth 0 (fsinfo_nums s) 0.
Definition rtpref (s : srv) : N := nth 1 (fsinfo_nums s) 0.
Definition rtmult (s : srv) : N := nth 2 (fsinfo_nums s) 0.
Definition wtmax (s : srv) : N := nth 3 (fsinfo_nums s) 0.
Definition wtpref (s : srv) : N := nth 4 (fsinfo_nums s) 0.
Definition wtmult (s : srv) : N := nth 5 (fsinfo_nums s) 0.

Lemma fsinfo_max_cases s :
  fsinfo_max s = if tsize (conf s) =? 0 then srv_cap else N.min (tsize (conf s)) srv_cap.
Proof.
  unfold fsinfo_max. cbv zeta. change (st c_DefaultMaxRecordSize - record_headroom) with srv_cap.
  destruct (tsize (conf s) =? 0) eqn:Z; destruct ((0 <? tsize (conf s)) && (tsize (conf s) <? srv_cap)) eqn:E; lia.
Qed.
Lemma fsinfo_max_spec s : 1 <= tsize (conf s) -> fsinfo_max s = N.min (tsize (conf s)) srv_cap.
Proof. intros H. rewrite fsinfo_max_cases. replace (tsize (conf s) =? 0) with false by lia. reflexivity. Qed.
Lemma fsinfo_nums_eq s :
  let m := fsinfo_max s in
  fsinfo_nums s = [m; N.min 65536 m; N.min 4096 m; m; N.min 65536 m; N.min 4096 m].
Proof. reflexivity. Qed.

(* every advertised number is positive, at most TransferSize, at most the record limit minus the headroom; the
   preferred sizes and multiples are at most the maxima *)
Lemma fsinfo_maxima s : 1 <= tsize (conf s) ->
  rtmax s = N.min (tsize (conf s)) srv_cap /\ wtmax s = N.min (tsize (conf s)) srv_cap /\
  Forall (fun x => 1 <= x /\ x <= tsize (conf s) /\ x <= srv_cap) (fsinfo_nums s) /\
  rtpref s <= rtmax s /\ rtmult s <= rtmax s /\ wtpref s <= wtmax s /\ wtmult s <= wtmax s /\
  length (fsinfo_nums s) = 6%nat.
Proof.
  intros H. unfold rtmax, rtpref, rtmult, wtmax, wtpref, wtmult. rewrite fsinfo_nums_eq. cbv zeta.
  rewrite (fsinfo_max_spec s H). cbn [nth length]. rewrite srv_cap_val.
  split; [reflexivity|]. split; [reflexivity|]. split; [repeat constructor; lia|]. repeat split; lia.
Qed.
(* with TransferSize 0 (never in force: New and UpdateTuningOptions default it) the model advertises the cap *)
Lemma fsinfo_max_zero s : tsize (conf s) = 0 -> fsinfo_max s = srv_cap.
Proof. intros H. rewrite fsinfo_max_cases, H. reflexivity. Qed.

(* ---------- WRITE ---------- *)
Lemma map_error_not_inval e : map_error e <> NFSERR_INVAL.
Proof. destruct e; vm_compute; discriminate. Qed.
Lemma kind_eqb_link k : kind_eqb k KLink = true -> k = KLink.
Proof. destruct k; (reflexivity || discriminate). Qed.

Ltac leaf_inval :=
  cbn [snd fst fail_wcc ob_mk ob_status]; let H := fresh in intros H; exfalso; revert H;
  first [apply map_error_not_inval | vm_compute; discriminate].

(* when the count check does not fire, NFS3ERR_INVAL has exactly two causes: offset + count overflows 64 bits,
   or the handle denotes a symbolic link *)
Lemma handle_write_inval s h off cnt stable data :
  (tsize (conf s) <? cnt) = false ->
  ob_status (snd (handle_write s h off cnt stable data)) = NFSERR_INVAL ->
  (two64 - 1 - cnt <? off) = true \/ exists p na, lookup_node s h = Some (p, na) /\ na_kind na = KLink.
Proof.
  intros T. unfold handle_write.
  destruct (ro (conf s)); [leaf_inval|].
  destruct (two64 - 1 - cnt <? off) eqn:OV; [intros _; left; reflexivity|].
  destruct (negb (cnt =? N.of_nat (length data))); [leaf_inval|].
  rewrite T.
  match goal with |- context [if ?c then (s, fail_wcc NFSERR_FBIG) else _] => destruct c end; [leaf_inval|].
  destruct (lookup_node s h) as [[p na]|] eqn:L; [|leaf_inval].
  destruct (kind_eqb (na_kind na) KLink) eqn:K.
  { intros _. right. exists p, na. split; [reflexivity|apply kind_eqb_link; exact K]. }
  destruct (getattr_h s h p) as [s1 [prea|e]]; [|leaf_inval].
  destruct (two63N <=? off).
  { match goal with |- context [getattr_h ?X h p] => destruct (getattr_h X h p) as [s2 post] end. leaf_inval. }
  cbv zeta.
  match goal with |- context [be_open ?f p true] => destruct (be_open f p true) as [q|e] end.
  2:{ match goal with |- context [getattr_h ?X h p] => destruct (getattr_h X h p) as [s3 post] end. leaf_inval. }
  match goal with |- context [match snd ?w with Ok _ => _ | Err _ => _ end] => destruct (snd w) as [n|e] end.
  2:{ match goal with |- context [getattr_h ?X h p] => destruct (getattr_h X h p) as [s4 post] end. leaf_inval. }
  unfold do_stat. cbn [fst snd lift_unit].
  match goal with |- context [getattr_h ?X h p] => destruct (getattr_h X h p) as [s9 [a|e]] end; leaf_inval.
Qed.

(* a WRITE within wtmax never takes the count check *)
Lemma write_count_check s cnt : 1 <= tsize (conf s) -> cnt <= wtmax s -> (tsize (conf s) <? cnt) = false.
Proof. intros H C. destruct (fsinfo_maxima s H) as (_ & W & _). rewrite W in C. lia. Qed.

Lemma write_within_wtmax s h p na o off cnt stable data :
  1 <= tsize (conf s) -> cnt <= wtmax s ->
  lookup_node s h = Some (p, na) -> na_kind na <> KLink -> plain_file (fs s) p o -> nodup_keys (fs s) ->
  ro (conf s) = false -> cnt = N.of_nat (length data) -> off + cnt < two63N -> no_fbig_write s off cnt ->
  let r := handle_write s h off cnt stable data in
  ob_rpc (snd r) = 0 /\ ob_status (snd r) = 0 /\ ob_nums (snd r) = [cnt; 2] /\
  (exists o', fs_get (fs (fst r)) p = Some o' /\ o_kind o' = KFile /\
              bf_eq (file_of o') (spec_write (file_of o) off data cnt) /\ bf_eq (durable_of o') (file_of o')).
Proof.
  intros T C L K P ND RO CL O63 FB.
  assert (CT : cnt <= tsize (conf s)) by (pose proof (write_count_check s cnt T C); lia).
  destruct (handle_write_ok s h p na o off cnt stable data L K P ND RO CL CT O63 FB) as (A1 & A2 & A3 & (o' & B1 & B2 & _ & _ & _ & B3 & B4) & _).
  cbv zeta. split; [exact A1|]. split; [exact A2|]. split; [exact A3|]. exists o'. auto.
Qed.

(* ---------- READ ---------- *)
Lemma read_within_rtmax s h p na o off cnt :
  1 <= tsize (conf s) -> 1 <= cnt -> cnt <= rtmax s -> off < o_size o ->
  lookup_node s h = Some (p, na) -> na_kind na <> KLink -> plain_file (fs s) p o -> off + cnt < two64 -> off < two63N ->
  let r := handle_read s h off cnt in
  let n := N.min cnt (o_size o - off) in
  ob_rpc (snd r) = 0 /\ ob_status (snd r) = 0 /\ ob_nums (snd r) = [n] /\ 1 <= n /\
  length (ob_bytes (snd r)) = N.to_nat n /\ ob_bytes (snd r) = spec_read (file_of o) off n /\
  ob_eof (snd r) = (o_size o <=? off + n).
Proof.
  intros T C1 C2 B L K P O64 O63. cbv zeta.
  destruct (handle_read_ok s h p na o off cnt L K P O64 O63) as (A1 & A2 & A3 & A4 & A5 & _). cbv zeta in *.
  destruct (fsinfo_maxima s T) as (R & _). rewrite R in C2.
  assert (RC : read_count s o off cnt = N.min cnt (o_size o - off)).
  { unfold read_count. replace (o_size o <=? off) with false by lia. lia. }
  rewrite RC in *. split; [exact A1|]. split; [exact A2|]. split; [exact A3|]. split; [lia|].
  split; [rewrite A4; apply spec_read_length|]. split; [exact A4|exact A5].
Qed.
(* whatever the count (>= 1), a READ before EOF returns at least one byte when TransferSize >= 1 *)
Lemma read_progress s h p na o off cnt :
  1 <= tsize (conf s) -> 1 <= cnt -> off < o_size o ->
  lookup_node s h = Some (p, na) -> na_kind na <> KLink -> plain_file (fs s) p o -> off + cnt < two64 -> off < two63N ->
  let r := handle_read s h off cnt in
  ob_status (snd r) = 0 /\ exists n, ob_nums (snd r) = [n] /\ 1 <= n /\ n <= cnt.
Proof.
  intros T C1 B L K P O64 O63. cbv zeta.
  destruct (handle_read_ok s h p na o off cnt L K P O64 O63) as (_ & A2 & A3 & _). cbv zeta in *.
  split; [exact A2|]. eexists. split; [exact A3|]. unfold read_count. replace (o_size o <=? off) with false by lia. lia.
Qed.

(* ====================================================================================================== *)
(* B. Model/Fsinfo32.v: the 32-bit conversions of the Go code                                              *)
(* ====================================================================================================== *)
Lemma go_cap_val : go_cap = 1044480. Proof. reflexivity. Qed.
Lemma go_cap_srv : go_cap = srv_cap. Proof. reflexivity. Qed.
Lemma u32_lt x : u32 x < two32. Proof. unfold u32. apply N.mod_lt. discriminate. Qed.
Lemma u32_le x : u32 x <= x. Proof. unfold u32. apply N.mod_le. discriminate. Qed.
Lemma u32_small x : x < two32 -> u32 x = x. Proof. unfold u32. apply N.mod_small. Qed.

Lemma go_fsinfo_max_le ts : go_fsinfo_max ts <= go_cap.
Proof. unfold go_fsinfo_max. destruct ((0 <? ts) && (u32 ts <? go_cap)) eqn:E; lia. Qed.
(* advertised <= accepted, for every TransferSize >= 1: never more than the count check of WRITE admits, never
   more than READ's clamp (the true TransferSize), never more than the record limit minus the headroom *)
Lemma go_advertised_le_accepted ts : 1 <= ts ->
  go_fsinfo_max ts <= go_write_max ts /\ go_fsinfo_max ts <= ts /\ go_fsinfo_max ts <= go_cap.
Proof.
  intros H. pose proof (u32_le ts) as U. unfold go_fsinfo_max, go_write_max.
  change (Z.to_N f_write_zero_fallback) with 1048576. rewrite go_cap_val.
  destruct (u32 ts =? 0) eqn:Z; destruct ((0 <? ts) && (u32 ts <? 1044480)) eqn:E; lia.
Qed.
Lemma go_field_le m f x : go_field m f = Some x -> (String.eqb (fst f) "max" || String.eqb (fst f) "atmost") = true -> x <= m.
Proof.
  unfold go_field. destruct (String.eqb (fst f) "max"); [intros [= <-] _; lia|].
  destruct (String.eqb (fst f) "atmost"); [intros [= <-] _; lia|]. cbn [orb]. discriminate.
Qed.
Lemma somes_in {A} (l : list (option A)) x : In x (somes l) -> In (Some x) l.
Proof.
  induction l as [|[y|] r IH]; cbn [somes In]; [tauto| |].
  - intros [->|H]; [left; reflexivity|right; exact (IH H)].
  - intros H. right. exact (IH H).
Qed.
(* every transfer-size field of the reply, whatever literals the source holds, is at most maxXfer *)
Lemma go_fsinfo_nums_le ts x : In x (go_fsinfo_nums ts) -> x <= go_fsinfo_max ts.
Proof.
  unfold go_fsinfo_nums, go_clamped_fields. intros H. apply somes_in in H. apply in_map_iff in H.
  destruct H as (f & E & I). apply filter_In in I. destruct I as [_ I]. exact (go_field_le _ f x E I).
Qed.
Lemma go_fsinfo_nums_eq ts :
  let m := go_fsinfo_max ts in
  go_fsinfo_nums ts = [m; N.min 65536 m; N.min 4096 m; m; N.min 65536 m; N.min 4096 m].
Proof. reflexivity. Qed.

Lemma go_write_accepted ts cnt : 1 <= ts -> cnt <= go_fsinfo_max ts -> go_write_refused ts cnt = false /\ go_write_status ts cnt = 0.
Proof.
  intros H C. destruct (go_advertised_le_accepted ts H) as (A & _). unfold go_write_status, go_write_refused.
  replace (go_write_max ts <? cnt) with false by lia. split; reflexivity.
Qed.
Lemma go_read_served ts cnt size off : 1 <= ts -> 1 <= cnt -> cnt <= go_fsinfo_max ts -> off < size ->
  go_read_count ts cnt size off = N.min cnt (size - off) /\ 1 <= go_read_count ts cnt size off.
Proof.
  intros H C1 C2 B. destruct (go_advertised_le_accepted ts H) as (_ & A & _). unfold go_read_count.
  replace (size <=? off) with false by lia. lia.
Qed.
Lemma go_read_progress ts cnt size off : 1 <= ts -> 1 <= cnt -> off < size -> 1 <= go_read_count ts cnt size off <= cnt.
Proof. intros H C B. unfold go_read_count. replace (size <=? off) with false by lia. lia. Qed.

(* below 2^32 the two models coincide *)
Lemma go_srv_agree s : tsize (conf s) < two32 ->
  go_fsinfo_max (tsize (conf s)) = fsinfo_max s /\ go_fsinfo_nums (tsize (conf s)) = fsinfo_nums s /\
  (1 <= tsize (conf s) -> forall cnt, go_write_refused (tsize (conf s)) cnt = (tsize (conf s) <? cnt)).
Proof.
  intros H.
  assert (E : go_fsinfo_max (tsize (conf s)) = fsinfo_max s).
  { unfold go_fsinfo_max, fsinfo_max. cbv zeta. rewrite (u32_small _ H). reflexivity. }
  split; [exact E|]. split; [rewrite go_fsinfo_nums_eq, fsinfo_nums_eq; cbv zeta; rewrite E; reflexivity|].
  intros T cnt. unfold go_write_refused, go_write_max. rewrite (u32_small _ H).
  replace (tsize (conf s) =? 0) with false by lia. reflexivity.
Qed.
(* the advertised maximum is 0 exactly for the multiples of 2^32 *)
Lemma go_fsinfo_max_zero ts : 1 <= ts -> (go_fsinfo_max ts = 0 <-> u32 ts = 0).
Proof.
  intros H. unfold go_fsinfo_max. rewrite go_cap_val.
  destruct ((0 <? ts) && (u32 ts <? 1044480)) eqn:E; lia.
Qed.
Lemma go_fsinfo_positive ts : 1 <= ts -> u32 ts <> 0 -> 1 <= go_fsinfo_max ts.
Proof. intros H U. pose proof (proj1 (go_fsinfo_max_zero ts H)). lia. Qed.

(* ====================================================================================================== *)
(* C. one RPC record                                                                                       *)
(* ====================================================================================================== *)
Lemma pad4n_le a b : a <= b -> pad4n a <= pad4n b.
Proof. intros H. unfold pad4n. lia. Qed.
Lemma pad4n_mult4 k : pad4n (4 * k) = 4 * k.
Proof. unfold pad4n. lia. Qed.

(* the call: any credential and verifier the decoder admits, any count within the advertised maximum *)
Lemma write_record_fits cred verf cnt ts :
  cred <= Z.to_N f_cred_limit -> verf <= Z.to_N f_verf_limit -> cnt <= go_fsinfo_max ts ->
  write_record_len cred verf cnt <= record_limit /\ record_accepted (write_record_len cred verf cnt) = true.
Proof.
  intros C V K. pose proof (go_fsinfo_max_le ts) as M. rewrite go_cap_val in M.
  change (Z.to_N f_cred_limit) with (4 * 100) in C. change (Z.to_N f_verf_limit) with (4 * 100) in V.
  pose proof (pad4n_le _ _ C) as PC. pose proof (pad4n_le _ _ V) as PV.
  assert (K' : cnt <= 4 * 261120) by lia. pose proof (pad4n_le _ _ K') as PK.
  rewrite pad4n_mult4 in PC, PV, PK.
  assert (L : write_record_len cred verf cnt <= record_limit).
  { unfold write_record_len, rpc_call_header_len, write_args_len, record_limit.
    change (Z.to_N f_fh_len) with 8. change (Z.to_N c_DefaultMaxRecordSize) with 1048576. lia. }
  split; [exact L|]. unfold record_accepted. lia.
Qed.
(* the overhead the headroom has to cover, and the largest count that still fits *)
Lemma write_record_overhead cred verf cnt :
  write_record_len cred verf cnt = 72 + pad4n cred + pad4n verf + pad4n cnt.
Proof. unfold write_record_len, rpc_call_header_len, write_args_len. change (Z.to_N f_fh_len) with 8. lia. Qed.
Lemma read_reply_fits verf cnt ts :
  verf <= Z.to_N f_verf_limit -> cnt <= go_fsinfo_max ts -> read_reply_len verf cnt <= record_limit.
Proof.
  intros V K. pose proof (go_fsinfo_max_le ts) as M. rewrite go_cap_val in M.
  change (Z.to_N f_verf_limit) with (4 * 100) in V. pose proof (pad4n_le _ _ V) as PV.
  assert (K' : cnt <= 4 * 261120) by lia. pose proof (pad4n_le _ _ K') as PK. rewrite pad4n_mult4 in PV, PK.
  unfold read_reply_len, rpc_reply_header_len, record_limit. change (Z.to_N c_DefaultMaxRecordSize) with 1048576. lia.
Qed.

(* ====================================================================================================== *)
(* D. the property in one statement (width-faithful model), and example states                             *)
(* ====================================================================================================== *)
Definition go_rtmax (ts : N) : N := nth 0 (go_fsinfo_nums ts) 0.
Definition go_wtmax (ts : N) : N := nth 3 (go_fsinfo_nums ts) 0.
Lemma go_rtmax_eq ts : go_rtmax ts = go_fsinfo_max ts. Proof. reflexivity. Qed.
Lemma go_wtmax_eq ts : go_wtmax ts = go_fsinfo_max ts. Proof. reflexivity. Qed.

(* for every configured TransferSize: a READ within rtmax before EOF returns at least one byte (exactly
   min(count, size - offset)); a WRITE within wtmax passes the count check and its call, with any credential and
   verifier the decoder admits, fits one record; every advertised number is at most what WRITE accepts, what READ
   returns at once, and the record limit minus the headroom *)
Definition c23_statement : Prop :=
  forall ts, 1 <= ts ->
    (forall cnt size off, 1 <= cnt -> cnt <= go_rtmax ts -> off < size ->
       go_read_count ts cnt size off = N.min cnt (size - off) /\ 1 <= go_read_count ts cnt size off) /\
    (forall cnt cred verf, cnt <= go_wtmax ts -> cred <= Z.to_N f_cred_limit -> verf <= Z.to_N f_verf_limit ->
       go_write_status ts cnt = 0 /\ record_accepted (write_record_len cred verf cnt) = true) /\
    (forall x, In x (go_fsinfo_nums ts) -> x <= go_write_max ts /\ x <= ts /\ x <= record_limit - Z.to_N f_fsinfo_record_headroom).
Theorem c23_holds : c23_statement.
Proof.
  intros ts H. destruct (go_advertised_le_accepted ts H) as (A1 & A2 & A3). split; [|split].
  - intros cnt size off C1 C2 B. rewrite go_rtmax_eq in C2. exact (go_read_served ts cnt size off H C1 C2 B).
  - intros cnt cred verf C CR VF. rewrite go_wtmax_eq in C. split; [exact (proj2 (go_write_accepted ts cnt H C))|].
    exact (proj2 (write_record_fits cred verf cnt ts CR VF C)).
  - intros x I. pose proof (go_fsinfo_nums_le ts x I) as L. rewrite go_cap_val in A3.
    change (record_limit - Z.to_N f_fsinfo_record_headroom) with 1044480. lia.
Qed.

(* example states: "/" holding a sparse 3 000 000-byte file "a"; handle 1 = "/", handle 2 = the file *)
Definition c23_cfg (ts : N) : cfg :=
  {| tsize := ts; ro := false; maxfile := 0; attr_ttl := 5; attr_cap := 10; neg_on := true; neg_ttl := 5;
     dir_on := true; dir_ttl := 5; dir_cap := 10; dir_maxsize := 10 |}.
Definition c23_file : obj :=
  {| o_kind := KFile; o_perm := 420; o_uid := 0; o_gid := 0; o_mtime := 7; o_size := 3000000; o_data := [];
     o_dsize := 3000000; o_ddata := []; o_target := [] |}.
Definition c23_cred : cred := {| c_uid := 0; c_gid := 0; c_aux := [] |}.
Definition c23_state (ts : N) : srv :=
  let s0 := srv_init_fs (fs_set fs_init [[97]] c23_file) (c23_cfg ts) 0 100 in
  let s1 := fst (step s0 c23_cred (RMnt [47])) in
  fst (step s1 c23_cred (RLookup 1 [97])).
Lemma c23_state_hyps ts :
  (exists na, lookup_node (c23_state ts) 2 = Some ([[97]], na) /\ na_kind na <> KLink) /\
  plain_file (fs (c23_state ts)) [[97]] c23_file /\ nodup_keys (fs (c23_state ts)) /\
  ro (conf (c23_state ts)) = false /\ tsize (conf (c23_state ts)) = ts /\ maxfile (conf (c23_state ts)) = 0.
Proof.
  split; [eexists; split; [vm_compute; reflexivity|discriminate]|].
  split; [repeat split; vm_compute; reflexivity|].
  split; [vm_compute; repeat constructor; cbn; intuition discriminate|].
  repeat split; reflexivity.
Qed.
(* TransferSize 2 MiB: the advertised maximum is the record cap 1 044 480; a READ and a WRITE of exactly that size
   are served in full (obtained from the theorems, not by computing megabyte lists) *)
Lemma c23_example_big :
  let s := c23_state 2097152 in
  fsinfo_nums s = [1044480; 65536; 4096; 1044480; 65536; 4096] /\
  (let r := handle_read s 2 5 1044480 in ob_status (snd r) = 0 /\ ob_nums (snd r) = [1044480] /\ N.of_nat (length (ob_bytes (snd r))) = 1044480) /\
  (forall data, N.of_nat (length data) = 1044480 ->
     let r := handle_write s 2 5 1044480 2 data in ob_status (snd r) = 0 /\ ob_nums (snd r) = [1044480; 2]) /\
  (forall data, N.of_nat (length data) = 2097153 -> ob_status (snd (handle_write s 2 5 2097153 2 data)) = NFSERR_INVAL).
Proof.
  cbv zeta. destruct (c23_state_hyps 2097152) as ((na & L & K) & P & ND & RO & TS & MF).
  assert (T1 : 1 <= tsize (conf (c23_state 2097152))) by (rewrite TS; lia).
  assert (RM : rtmax (c23_state 2097152) = 1044480) by reflexivity.
  assert (WM : wtmax (c23_state 2097152) = 1044480) by reflexivity.
  split; [reflexivity|]. split; [|split].
  - destruct (read_within_rtmax (c23_state 2097152) 2 [[97]] na c23_file 5 1044480 T1 ltac:(lia) ltac:(rewrite RM; lia)
                ltac:(cbn; lia) L K P ltac:(unfold two64; lia) ltac:(unfold two63N; lia)) as (_ & A2 & A3 & _ & A5 & _).
    split; [exact A2|]. split; [exact A3|]. rewrite A5, N2Nat.id. reflexivity.
  - intros data LD.
    destruct (write_within_wtmax (c23_state 2097152) 2 [[97]] na c23_file 5 1044480 2 data T1 ltac:(rewrite WM; lia) L K P ND RO
                (eq_sym LD) ltac:(unfold two63N; lia) (or_introl MF)) as (_ & A2 & A3 & _).
    split; [exact A2|exact A3].
  - intros data LD. destruct (handle_write_guard (c23_state 2097152) 2 5 2097153 2 data) as (_ & _ & _ & G & _).
    rewrite G; [reflexivity|exact RO|unfold two64; lia|symmetry; exact LD|rewrite TS; lia].
Qed.
(* the two models from 2^32 on *)
Lemma c23_example_2_32 :
  fsinfo_nums (c23_state two32) = [1044480; 65536; 4096; 1044480; 65536; 4096] /\
  go_fsinfo_nums two32 = [0; 0; 0; 0; 0; 0] /\ go_write_max two32 = 1048576 /\
  go_fsinfo_nums (two32 + 5) = [5; 5; 5; 5; 5; 5] /\ go_write_max (two32 + 5) = 5 /\
  fsinfo_nums (c23_state (two32 + 5)) = [1044480; 65536; 4096; 1044480; 65536; 4096] /\
  go_write_refused (two32 + 5) 6 = true /\ (tsize (conf (c23_state (two32 + 5))) <? 6) = false /\
  go_fsinfo_nums (two32 + 1048576) = [1044480; 65536; 4096; 1044480; 65536; 4096] /\
  go_fsinfo_nums 1 = [1; 1; 1; 1; 1; 1] /\ go_fsinfo_nums 512 = [512; 512; 512; 512; 512; 512] /\
  go_fsinfo_nums 65536 = [65536; 65536; 4096; 65536; 65536; 4096] /\
  go_fsinfo_all 65536 = [65536; 65536; 4096; 65536; 65536; 4096; 8192; 1099511627776; 0; 1000000].
Proof. vm_compute. repeat split; reflexivity. Qed.
