(* Proofs/Rfc1813Shape.v — C14 for the server model: (1) an observation of the right shape encodes to bytes that
   parse back under the RFC grammar; (2) EVERY reply of Model/Srv.v, in every state, for every credential and request,
   has the shape its procedure's grammar demands and a status inside nfsstat3 / mountstat3 (or 4 when the request does
   not decode: known finding k=1); (3) hence every reply of the model is a well-formed RFC 1813 result inside a
   well-formed RFC 1831 reply; (4) so are the answers HandleCall gives without a handler (drain, unknown program /
   version / procedure, MOUNT's own procedures, rate limiting). *)
From Coq Require Import List NArith ZArith Bool Lia.
From Verif Require Import Gen.Facts Model.Bytes Model.Handles Model.Backend Model.Srv Model.Rfc1813 Model.Rfc1813Enc.
From Verif Require Import Proofs.BytesProofs Proofs.Rfc1813Proofs.
Import ListNotations.
Open Scope N_scope.

(* ---------------- observation shape => tree form ---------------- *)
Lemma fh_bytes_ok h : fh_ok (fh_bytes h) = true.
Proof. unfold fh_ok, fh_bytes. rewrite be_enc_len. reflexivity. Qed.
Lemma verf_bytes_len v : len (verf_bytes v) = 8. Proof. unfold verf_bytes. apply be_enc_len. Qed.
Lemma forallb_map {A B} (f : B -> bool) (g : A -> B) l : forallb f (map g l) = forallb (fun x => f (g x)) l.
Proof. induction l; cbn; [reflexivity|]. rewrite IHl. reflexivity. Qed.
Lemma forallb_ext_in {A} (f g : A -> bool) l : (forall x, f x = g x) -> forallb f l = forallb g l.
Proof. intros H. induction l; cbn; [reflexivity|]. rewrite H, IHl. reflexivity. Qed.
Lemma attrs_ok_map l : forallb (opt_ok attr_ok) (map (option_map wf_of_fattr) l) = forallb (opt_ok fattr_ok) l.
Proof. rewrite forallb_map. apply forallb_ext_in. intros [a|]; reflexivity. Qed.
Lemma ents_plain_map l : forallb ent_plain (map went_of l) = forallb dent_plain l.
Proof.
  rewrite forallb_map. apply forallb_ext_in. intros e. unfold ent_plain, dent_plain, went_of. cbn [we_attr we_fh].
  destruct (de_attr e), (de_fh e); reflexivity.
Qed.
Lemma ents_plus_map l : forallb ent_plus (map went_of l) = forallb dent_plus l.
Proof.
  rewrite forallb_map. apply forallb_ext_in. intros e. unfold ent_plus, dent_plus, went_of. cbn [we_attr we_fh].
  destruct (de_attr e) as [a|], (de_fh e) as [h|]; cbn [option_map opt_ok]; rewrite ?fh_bytes_ok, ?andb_true_r; reflexivity.
Qed.

Lemma obs_pf_check pf n o st (xn : list N) (xv : bytes) :
  obs_check pf n o = true ->
  (match pf_nums pf with Some k => (n + length xn = k)%nat | None => True end) ->
  (if pf_verf pf then len xv = 8 else xv = []) ->
  pf_check pf (mkRT st (map (option_map wf_of_fattr) (ob_attrs o)) (map (option_map ww_of) (ob_wcc o))
                    (option_map fh_bytes (ob_fh o)) (ob_nums o ++ xn) (ob_bytes o) xv (map went_of (ob_entries o)) (ob_eof o) []) = true.
Proof.
  unfold obs_check, pf_check. intros H Hn Hv.
  apply andb_prop in H as [H H8]. apply andb_prop in H as [H H7]. apply andb_prop in H as [H H6]. apply andb_prop in H as [H H5].
  apply andb_prop in H as [H H4]. apply andb_prop in H as [H H3]. apply andb_prop in H as [H1 H2].
  cbn [rt_attrs rt_wcc rt_fh rt_nums rt_data rt_verf rt_entries rt_eof rt_list].
  repeat (apply andb_true_intro; split).
  - rewrite map_length. exact H1.
  - rewrite attrs_ok_map. exact H2.
  - rewrite map_length. exact H3.
  - destruct (pf_fh pf), (ob_fh o); cbn [option_map] in *; rewrite ?fh_bytes_ok; try reflexivity; discriminate.
  - destruct (pf_nums pf) as [k|]; [|reflexivity]. apply Nat.eqb_eq in H5. rewrite app_length, H5. apply Nat.eqb_eq. exact Hn.
  - exact H6.
  - destruct (pf_verf pf); [rewrite Hv; reflexivity|subst xv; reflexivity].
  - destruct (pf_ents pf); [destruct (ob_entries o); [reflexivity|discriminate]|rewrite ents_plain_map; auto|rewrite ents_plus_map; auto].
  - exact H8.
  - apply orb_true_r.
Qed.

Lemma nb_le1 b : (nb b <=? 1) = true. Proof. destruct b; reflexivity. Qed.
Lemma obs_check_nums pf n o : obs_check pf n o = true -> length (ob_nums o) = n.
Proof.
  unfold obs_check. intros H. apply andb_prop in H as [H _]. apply andb_prop in H as [H _]. apply andb_prop in H as [H _].
  apply andb_prop in H as [_ H]. apply Nat.eqb_eq in H. exact H.
Qed.

Lemma shape_form extra p o ex :
  shape_ok p o = true -> (stat_member p (ob_status o) || extra (ob_status o)) = true ->
  tree_form_x extra p (tree_of_obs p o ex) = true.
Proof.
  unfold shape_ok, tree_form_x, tree_of_obs. cbn [rt_status]. intros H Hm. apply andb_prop in H as [_ H].
  destruct (has_status p) eqn:Hs.
  - apply andb_prop in H as [H32 H]. rewrite H32. cbn [andb].
    destruct (ob_status o =? 0) eqn:E0.
    + apply andb_prop in H as [Hc Hx]. apply andb_true_intro. split.
      * apply obs_pf_check with (n := obs_nums p); [exact Hc| |].
        -- destruct p; try discriminate Hs; cbn [pf_nums pf_ok pf_fail pf_plain obs_nums extra_nums length Nat.add]; try reflexivity;
           try exact I.
           ++ destruct (ex_fsstat ex) as [[[[[[a b] c] d] e] f] g]. reflexivity.
           ++ destruct (ex_fsinfo ex) as [[[[a b] c] d] e]. reflexivity.
           ++ destruct (ex_pathconf ex) as [[[[[a b] c] d] e] f]. reflexivity.
        -- destruct p; try discriminate Hs; cbn [pf_verf pf_ok pf_fail pf_plain verf_of]; try reflexivity; apply verf_bytes_len.
      * pose proof (obs_check_nums _ _ _ Hc) as Hn.
        destruct p; try discriminate Hs; cbn [ok_extra obs_extra] in *; try reflexivity; try discriminate Hx.
        -- unfold nth_attr. cbn [rt_attrs]. destruct (ob_attrs o) as [|[a|] l]; try discriminate Hx. reflexivity.
        -- unfold nth_num. cbn [rt_nums rt_data extra_nums]. rewrite app_nil_r. exact Hx.
        -- unfold nth_num. cbn [rt_nums extra_nums]. rewrite app_nil_r. exact Hx.
        -- unfold nth_num. cbn [rt_nums extra_nums obs_nums] in *. destruct (ob_nums o); [|discriminate Hn].
           destruct (ex_pathconf ex) as [[[[[a b] c] d] e] f]. cbn [app nth]. rewrite !nb_le1. reflexivity.
    + rewrite Hm. cbn [andb]. apply obs_pf_check with (n := O); [exact H| |].
      * destruct (fail_shape p); reflexivity.
      * destruct (fail_shape p); reflexivity.
  - apply andb_prop in H as [E0 Hc]. rewrite E0. cbn [negb andb forallb rt_list]. rewrite andb_true_r.
    replace (extra_nums p ex) with (@nil N) by (destruct p; try discriminate Hs; reflexivity).
    replace (verf_of p ex) with (@nil N) by (destruct p; try discriminate Hs; reflexivity).
    apply obs_pf_check with (n := O); [exact Hc| |]; destruct p; try discriminate Hs; reflexivity.
Qed.

Lemma shape_nums p o : shape_ok p o = true -> (length (ob_nums o) <= 6)%nat.
Proof.
  unfold shape_ok. intros H. apply andb_prop in H as [_ H]. destruct (has_status p).
  - apply andb_prop in H as [_ H]. destruct (ob_status o =? 0).
    + apply andb_prop in H as [H _]. rewrite (obs_check_nums _ _ _ H). destruct p; cbn; lia.
    + rewrite (obs_check_nums _ _ _ H). lia.
  - apply andb_prop in H as [_ H]. rewrite (obs_check_nums _ _ _ H). lia.
Qed.
Lemma extra_nums_len p ex : (length (extra_nums p ex) <= 7 + length (ex_flavors ex))%nat.
Proof.
  destruct p; cbn [extra_nums length]; try lia.
  - destruct (ex_fsstat ex) as [[[[[[a b] c] d] e] f] g]. cbn. lia.
  - destruct (ex_fsinfo ex) as [[[[a b] c] d] e]. cbn. lia.
  - destruct (ex_pathconf ex) as [[[[[a b] c] d] e] f]. cbn. lia.
Qed.
Lemma shape_sizes p o ex : shape_ok p o = true -> sizes_ok o ex = true -> tree_sizes (tree_of_obs p o ex) = true.
Proof.
  intros Hs Hz. unfold sizes_ok in Hz. apply andb_prop in Hz as [Hz H3]. apply andb_prop in Hz as [H1 H2].
  unfold tree_sizes, tree_of_obs. cbn [rt_data rt_entries rt_nums]. rewrite H1. cbn [andb].
  rewrite forallb_map. cbn [went_of we_name]. rewrite H2. cbn [andb].
  apply N.ltb_lt in H3. apply N.ltb_lt. pose proof (shape_nums p o Hs) as L1. pose proof (extra_nums_len p ex) as L2.
  unfold len in *. rewrite app_length. destruct (ob_status o =? 0); cbn [length]; lia.
Qed.

(* C14_encode_parse: an observation of the right shape encodes to bytes that parse back, consuming everything *)
Theorem encode_parse extra prog vers proc p o ex :
  rproc_of prog vers proc = Some p ->
  shape_ok p o = true -> (stat_member p (ob_status o) || extra (ob_status o)) = true -> sizes_ok o ex = true ->
  parse_results_x extra prog vers proc (encode_results p o ex) = Some (norm_tree p (tree_of_obs p o ex)).
Proof.
  intros Hp Hs Hm Hz. unfold encode_results. apply parse_results_enc; [exact Hp|apply shape_form; assumption|apply shape_sizes; assumption].
Qed.

(* ================= every reply of the server model has the shape of its procedure's result ================= *)
Definition good (p : rproc) (dec : bool) (o : obs) : Prop :=
  reply_ok p dec o = true /\ (stat_member p (ob_status o) || (negb dec && k1 (ob_status o))) = true.
(* an admissible failure status *)
Definition stf (p : rproc) (dec : bool) (st : N) : Prop :=
  (st =? 0) = false /\ (st <? two32) = true /\ (stat_member p st || (negb dec && k1 st)) = true.

Ltac des :=
  repeat match goal with
  | |- context [match ?x with _ => _ end] =>
      match type of x with
      | sumbool _ _ => destruct x
      | _ => destruct x eqn:?
      end
  end.

Lemma ftype_ok k : ftype3_ok (ftype_of k) = true. Proof. destruct k; vm_compute; reflexivity. Qed.
Lemma sf_ok a : opt_ok fattr_ok (sf a) = true. Proof. unfold sf, fattr_of, fattr_ok. cbn. apply ftype_ok. Qed.
Lemma none_ok : opt_ok fattr_ok None = true. Proof. reflexivity. Qed.
Lemma current_attrs_ok s h p : opt_ok fattr_ok (snd (current_attrs s h p)) = true.
Proof. unfold current_attrs. des; cbn [snd]; auto using sf_ok, none_ok. Qed.

Ltac unf := unfold good, reply_ok, shape_ok, obs_check, obs_extra, fail_post, fail_wcc, fail_wcc2, ob_fail, ob_mk;
  cbn [ob_rpc ob_status ob_attrs ob_wcc ob_fh ob_nums ob_bytes ob_entries ob_eof].
(* failure replies *)
Lemma good_fail p dec st attrs wcc :
  has_status p = true -> stf p dec st ->
  Nat.eqb (length attrs) (pf_attrs (pf_fail (fail_shape p))) = true -> forallb (opt_ok fattr_ok) attrs = true ->
  Nat.eqb (length wcc) (pf_wcc (pf_fail (fail_shape p))) = true ->
  good p dec (ob_mk st attrs wcc None [] []).
Proof.
  intros Hs (H0 & H32 & Hm) Ha Hok Hw. unf. rewrite Hs, H0, H32, Ha, Hok, Hw. cbn [N.eqb andb].
  split; [|exact Hm]. destruct (fail_shape p); reflexivity.
Qed.
(* success replies *)
Lemma good_ok p dec (o : obs) :
  has_status p = true -> ob_rpc o = 0 -> ob_status o = 0 -> obs_check (pf_ok p) (obs_nums p) o = true -> obs_extra p o = true ->
  good p dec o.
Proof.
  intros Hs Hr H0 Hc Hx. unfold good, reply_ok, shape_ok. rewrite Hs, Hr, H0, Hc, Hx. cbn [N.eqb andb orb].
  split; [reflexivity|]. destruct p; try discriminate Hs; reflexivity.
Qed.

Lemma map_error_stf p dec e : has_status p = true -> is_mount p = false -> stf p dec (map_error e).
Proof.
  intros Hs Hm. unfold stf, stat_member. destruct p; try discriminate Hs; try discriminate Hm; cbn [is_mount];
  destruct e; vm_compute; auto.
Qed.
Lemma validate_name_cases n : validate_name n = st_ok \/ validate_name n = NFSERR_INVAL \/ validate_name n = NFSERR_NAMETOOLONG.
Proof. unfold validate_name. des; auto. Qed.
Lemma validate_name_stf p dec n : has_status p = true -> is_mount p = false ->
  negb (validate_name n =? st_ok) = true -> stf p dec (validate_name n).
Proof.
  intros Hs Hm H. destruct (validate_name_cases n) as [E|[E|E]]; rewrite E in *.
  - discriminate H.
  - unfold stf, stat_member. destruct p; try discriminate Hs; try discriminate Hm; vm_compute; auto.
  - unfold stf, stat_member. destruct p; try discriminate Hs; try discriminate Hm; vm_compute; auto.
Qed.
Ltac cst := unfold stf, stat_member; cbn [is_mount];
  (split; [vm_compute; reflexivity | split; [vm_compute; reflexivity | apply orb_true_intro; left; vm_compute; reflexivity]]).
Ltac stfs := first [ apply map_error_stf; reflexivity | apply validate_name_stf; [reflexivity|reflexivity|assumption] | cst ].
Ltac hyps := repeat match goal with H : opt_ok fattr_ok _ = true |- _ => rewrite H end.
Ltac oks := cbn [forallb andb]; rewrite ?sf_ok, ?none_ok, ?current_attrs_ok; hyps; reflexivity.
Ltac fin_fail := unfold fail_post, fail_wcc, fail_wcc2, ob_fail;
  apply good_fail; [reflexivity | stfs | reflexivity | oks | reflexivity].

Ltac ocb := cbn [ob_rpc ob_status ob_attrs ob_wcc ob_fh ob_nums ob_bytes ob_entries ob_eof pf_ok pf_fail pf_plain fail_shape pf_attrs pf_wcc pf_fh
                 pf_nums pf_data pf_verf pf_ents pf_eof pf_list length Nat.eqb forallb obs_nums isnil orb negb andb nth].
Ltac fin_ok := apply good_ok; [reflexivity | reflexivity | reflexivity
  | unfold obs_check, ob_mk; ocb; rewrite ?sf_ok, ?none_ok, ?current_attrs_ok; hyps; reflexivity
  | unfold obs_extra, ob_mk; ocb; first [reflexivity | apply N.eqb_refl] ].
Ltac fin := cbn [snd]; first [fin_fail | fin_ok].

Lemma handle_getattr_good s h dec : good NfsGetattr dec (snd (handle_getattr s h)).
Proof. unfold handle_getattr. des; fin. Qed.
Lemma handle_access_good s c h m dec : good NfsAccess dec (snd (handle_access s c h m)).
Proof. unfold handle_access. des; fin. Qed.
Lemma handle_commit_good s h dec : good NfsCommit dec (snd (handle_commit s h)).
Proof. unfold handle_commit. des; fin. Qed.
Lemma handle_readlink_good s h dec : good NfsReadlink dec (snd (handle_readlink s h)).
Proof. unfold handle_readlink. des; fin. Qed.
Ltac ca_facts :=
  repeat match goal with E : current_attrs ?s ?h ?p = (_, ?a) |- _ =>
    let H := fresh "CA" in pose proof (current_attrs_ok s h p) as H; rewrite E in H; cbn [snd] in H; revert E end; intros.
Lemma handle_lookup_good s h n dec : good NfsLookup dec (snd (handle_lookup s h n)).
Proof. unfold handle_lookup. des; ca_facts; fin. Qed.

Lemma handle_read_good s h off cnt dec : good NfsRead dec (snd (handle_read s h off cnt)).
Proof. unfold handle_read. cbv zeta. des; fin. Qed.
Lemma handle_write_good s h off cnt stable data :
  good NfsWrite (cnt =? N.of_nat (length data)) (snd (handle_write s h off cnt stable data)).
Proof.
  unfold handle_write. cbv zeta. des; try fin.
  cbn [snd]. unfold fail_wcc. apply good_fail; try reflexivity.
  unfold stf. repeat split; try (vm_compute; reflexivity).
  apply negb_true_iff in Heqb1. rewrite Heqb1. vm_compute. reflexivity.
Qed.
Lemma handle_setattr_good s c h sa g dec : good NfsSetattr dec (snd (handle_setattr s c h sa g)).
Proof.
  unfold handle_setattr. cbv zeta.
  destruct (ro (conf s)); [fin|].
  destruct (match s_mode sa with Some m => N.testbit m 15 | None => false end); [fin|].
  destruct (lookup_node s h) as [[p nd]|]; [|fin].
  destruct (kind_eqb (na_kind nd) KLink); [fin|].
  destruct (getattr_h s h p) as [s1 pre]. destruct pre as [prea|e]; [|fin].
  match goal with |- context [if ?b then (s1, fail_wcc NFSERR_NOT_SYNC) else _] => destruct b; [fin|] end.
  match goal with |- context [match snd ?X with Some _ => _ | None => _ end] =>
    assert (HR : forall e, snd X = Some e -> stf NfsSetattr dec e);
    [ des; cbn [snd]; intros e0 He; inversion He; subst; stfs | destruct (snd X) as [e0|] eqn:ER ] end.
  - cbn [snd]. unfold fail_wcc. apply good_fail; [reflexivity|apply HR; reflexivity|reflexivity|oks|reflexivity].
  - clear HR ER. des; fin.
Qed.

Definition creates (p : rproc) : Prop := p = NfsCreate \/ p = NfsMkdir \/ p = NfsSymlink.
Lemma created_reply_good p dec s h d pth a dpre : creates p -> good p dec (snd (created_reply s h d pth a dpre)).
Proof. intros [->|[->| ->]]; unfold created_reply; des; fin. Qed.
Lemma failed_reply_good p dec s h d st dpre : fail_shape p = FWcc -> has_status p = true -> stf p dec st ->
  good p dec (snd (failed_reply s h d st dpre)).
Proof.
  intros Hf Hs Hst. unfold failed_reply. des; cbn [snd]; apply good_fail; try assumption; rewrite ?Hf; try reflexivity; oks.
Qed.
Ltac fin2 := cbn [snd]; first
  [ fin_fail | fin_ok
  | apply created_reply_good; unfold creates; auto
  | apply failed_reply_good; [reflexivity | reflexivity | stfs] ].

Lemma handle_create_good s c h n how sa dec : good NfsCreate dec (snd (handle_create s c h n how sa)).
Proof. unfold handle_create. cbv zeta. des; fin2. Qed.
Lemma handle_mkdir_good s c h n sa dec : good NfsMkdir dec (snd (handle_mkdir s c h n sa)).
Proof. unfold handle_mkdir. cbv zeta. des; fin2. Qed.
Lemma handle_symlink_good s c h n sa t dec : good NfsSymlink dec (snd (handle_symlink s c h n sa t)).
Proof. unfold handle_symlink. cbv zeta. des; fin2. Qed.
Lemma handle_remove_good s h n dec : good NfsRemove dec (snd (handle_remove s h n)).
Proof. unfold handle_remove. cbv zeta. des; fin2. Qed.

Lemma rmdir_code_stf dec e :
  stf NfsRmdir dec (match e with ENOENT => NFSERR_NOENT
                    | _ => let m := map_error e in if (m =? NFSERR_EXIST) || (m =? NFSERR_IO) then NFSERR_NOTEMPTY else m end).
Proof. unfold stf, stat_member. destruct e; vm_compute; auto. Qed.
Lemma handle_rmdir_good s h n dec : good NfsRmdir dec (snd (handle_rmdir s h n)).
Proof.
  unfold handle_rmdir. cbv zeta.
  destruct (ro (conf s)); [fin|]. destruct (negb (validate_name n =? st_ok)); [fin|].
  destruct (lookup_node s h) as [[d da]|]; [|fin]. destruct (negb (kind_eqb (na_kind da) KDir)); [fin|].
  destruct (getattr_h s h d) as [s1 pre]. destruct pre as [dpre|e]; [|fin].
  destruct (do_stat s1 (d ++ [n])) as [s2 ti]. destruct ti as [fi|e]; [|fin].
  destruct (negb (kind_eqb (fi_kind fi) KDir)); [fin|].
  match goal with |- context [lift_unit ?a ?b ?c] => destruct (snd (lift_unit a b c)) as [u|e] end.
  - des; fin.
  - apply failed_reply_good; [reflexivity|reflexivity|apply rmdir_code_stf].
Qed.

Lemma handle_rename_good s h1 n1 h2 n2 dec : good NfsRename dec (snd (handle_rename s h1 n1 h2 n2)).
Proof. unfold handle_rename. cbv zeta. des; fin. Qed.

Lemma readdir_entries_plain (pg : list (N * (path * nattrs))) :
  forallb dent_plain (map (fun ie => {| de_fileid := na_fileid (snd (snd ie)); de_name := name_of (fst (snd ie));
                                        de_cookie := fst ie; de_attr := None; de_fh := None |}) pg) = true.
Proof. induction pg; cbn; auto. Qed.
Lemma handle_readdir_good s h ck cnt dec : good NfsReaddir dec (snd (handle_readdir s h ck cnt)).
Proof.
  unfold handle_readdir. des; cbn [snd]; try fin_fail.
  apply good_ok; try reflexivity. unfold obs_check. ocb. rewrite sf_ok, readdir_entries_plain. reflexivity.
Qed.
Lemma alloc_all_plus pg : forall s, forallb dent_plus (snd (alloc_all s pg)) = true.
Proof.
  induction pg as [|[ck [p a]] r IH]; intros s; cbn [alloc_all]; [reflexivity|].
  destruct (alloc s p a) as [s1 fh]. specialize (IH s1). destruct (alloc_all s1 r) as [s2 rest]. cbn [snd] in *.
  cbn [forallb]. rewrite IH. unfold dent_plus. cbn [de_attr]. rewrite sf_ok. reflexivity.
Qed.
Lemma handle_readdirplus_good s h ck mc dec : good NfsReaddirplus dec (snd (handle_readdirplus s h ck mc)).
Proof.
  unfold handle_readdirplus. des; cbn [snd]; try fin_fail.
  apply good_ok; try reflexivity. unfold obs_check. ocb. rewrite sf_ok.
  match goal with E : alloc_all ?s ?pg = (_, ?l) |- _ => pose proof (alloc_all_plus pg s) as HP; rewrite E in HP; cbn [snd] in HP; rewrite HP end.
  reflexivity.
Qed.
Lemma handle_fsx_good p dec s h nums :
  (p = NfsFsstat \/ p = NfsFsinfo \/ p = NfsPathconf) -> (forall s', length (nums s') = obs_nums p) ->
  good p dec (snd (handle_fsx s h nums)).
Proof.
  intros Hp Hn. unfold handle_fsx. des; cbn [snd]; destruct Hp as [->|[->| ->]];
  first [ fin_fail
        | apply good_ok; [reflexivity|reflexivity|reflexivity| |reflexivity]; unfold obs_check, ob_mk; ocb; rewrite sf_ok, Hn; reflexivity ].
Qed.
Lemma handle_mnt_good s pth dec : good MntMnt dec (snd (handle_mnt s pth)).
Proof. unfold handle_mnt. des; fin. Qed.

(* ---------------- every request ---------------- *)
Lemma stf_garbage p : has_status p = true -> stf p false GARBAGE.
Proof. intros H. unfold stf. repeat split; try (vm_compute; reflexivity). rewrite orb_true_r. reflexivity. Qed.
Ltac fin_garb := cbn [snd]; unfold fail_post, fail_wcc, fail_wcc2; apply good_fail;
  [reflexivity | first [apply stf_garbage; reflexivity | stfs] | reflexivity | oks | reflexivity].

Theorem model_shape s c r p : proc_of r = Some p -> good p (req_decodes r) (snd (step s c r)).
Proof.
  intros Hp. unfold step. set (s0 := clear_log s).
  destruct r; inversion Hp; subst p; clear Hp; cbn [garbage_reply req_decodes].
  - (* NULL *) cbn [snd]. split; vm_compute; reflexivity.
  - apply handle_getattr_good.
  - apply handle_setattr_good.
  - destruct (str_ok n); [apply handle_lookup_good|fin_garb].
  - apply handle_access_good.
  - apply handle_readlink_good.
  - apply handle_read_good.
  - apply handle_write_good.
  - destruct (str_ok n); [apply handle_create_good|destruct (ro (conf s0)); fin_garb].
  - destruct (str_ok n); [apply handle_mkdir_good|destruct (ro (conf s0)); fin_garb].
  - destruct (str_ok n && str_ok target) eqn:E; [apply handle_symlink_good|].
    destruct (ro (conf s0)); [fin_garb|]. destruct (negb (str_ok n)); [fin_garb|].
    destruct (negb (validate_name n =? st_ok)) eqn:V; fin_garb.
  - (* MKNOD *) fin.
  - destruct (str_ok n); [apply handle_remove_good|destruct (ro (conf s0)); fin_garb].
  - destruct (str_ok n); [apply handle_rmdir_good|destruct (ro (conf s0)); fin_garb].
  - destruct (str_ok n1 && str_ok n2) eqn:E; [apply handle_rename_good|].
    destruct (ro (conf s0)); [fin_garb|]. destruct (negb (str_ok n1)); [fin_garb|].
    destruct (negb (validate_name n1 =? st_ok)) eqn:V; fin_garb.
  - (* LINK *) fin.
  - apply handle_readdir_good.
  - apply handle_readdirplus_good.
  - apply handle_fsx_good; [auto|reflexivity].
  - apply handle_fsx_good; [auto|intros; reflexivity].
  - apply handle_fsx_good; [auto|reflexivity].
  - apply handle_commit_good.
  - destruct (str_ok p0); [apply handle_mnt_good|]. cbn [snd]. split; vm_compute; reflexivity.
Qed.

(* ================= the model's replies are well-formed ================= *)
Theorem model_reply_shape s c r p : proc_of r = Some p ->
  reply_ok p (req_decodes r) (snd (step s c r)) = true /\ status_ok p r (snd (step s c r)) = true.
Proof. intros H. exact (model_shape s c r p H). Qed.

Theorem model_wellformed s c r p prog vers proc ex xid :
  proc_of r = Some p -> rproc_of prog vers proc = Some p -> req_decodes r = true ->
  let o := snd (step s c r) in
  sizes_ok o ex = true ->
  parse_results prog vers proc (encode_results p o ex) = Some (norm_tree p (tree_of_obs p o ex)) /\
  parse_reply prog vers proc (enc_accepted xid AS_SUCCESS (encode_results p o ex)) =
    Some (n32 xid, KSuccess (norm_tree p (tree_of_obs p o ex))).
Proof.
  intros Hp Hr Hd o Hz. destruct (model_shape s c r p Hp) as [Hs Hm]. fold o in Hs, Hm.
  rewrite Hd in Hs, Hm. unfold reply_ok in Hs. cbn [negb andb] in Hs, Hm. rewrite orb_false_r in Hs, Hm.
  assert (Hm' : (stat_member p (ob_status o) || no_extra (ob_status o)) = true) by (rewrite Hm; reflexivity).
  split.
  - apply encode_parse; assumption.
  - unfold encode_results. apply parse_reply_success; [exact Hr|apply shape_form; assumption|apply shape_sizes; assumption].
Qed.

(* requests that do not decode: the MOUNT program answers accept_stat GARBAGE_ARGS (well-formed); the NFS procedures
   put 4 into the status word of an otherwise well-formed failure result (known finding k=1) *)
Theorem model_wellformed_k1 s c r p prog vers proc ex xid :
  proc_of r = Some p -> rproc_of prog vers proc = Some p -> req_decodes r = false ->
  let o := snd (step s c r) in
  sizes_ok o ex = true ->
  (ob_rpc o = 1000 + AS_GARBAGE_ARGS /\ is_mount p = true /\
   parse_reply prog vers proc (enc_accepted xid AS_GARBAGE_ARGS []) = Some (n32 xid, KGarbageArgs)) \/
  (ob_rpc o = 0 /\
   parse_reply_x k1 prog vers proc (enc_accepted xid AS_SUCCESS (encode_results p o ex)) =
     Some (n32 xid, KSuccess (norm_tree p (tree_of_obs p o ex)))).
Proof.
  intros Hp Hr Hd o Hz. destruct (model_shape s c r p Hp) as [Hs Hm]. fold o in Hs, Hm.
  rewrite Hd in Hs, Hm. unfold reply_ok in Hs. cbn [negb andb] in Hs, Hm.
  apply orb_prop in Hs as [Hs|Hs].
  - right. split.
    + unfold shape_ok in Hs. apply andb_prop in Hs as [Hs _]. apply N.eqb_eq in Hs. exact Hs.
    + unfold encode_results. apply parse_reply_success; [exact Hr|apply shape_form; assumption|apply shape_sizes; assumption].
  - left. apply andb_prop in Hs as [Hmo Hg]. unfold rpc_garbage in Hg. apply N.eqb_eq in Hg.
    repeat split; [exact Hg|exact Hmo|]. apply parse_reply_accept_stat. reflexivity.
Qed.

(* the faithful model does violate the strict statement: LOOKUP with a name holding a NUL byte *)
Definition cfg0 : cfg := {| tsize := 65536; ro := false; maxfile := 0; attr_ttl := 5000000000; attr_cap := 10000; neg_on := false;
  neg_ttl := 0; dir_on := false; dir_ttl := 0; dir_cap := 0; dir_maxsize := 0 |}.
Definition srv0 : srv := srv_init cfg0 0%Z 1000000000000000.
Definition cred0 : cred := {| c_uid := 0; c_gid := 0; c_aux := [] |}.
Theorem model_status_refuted :
  exists s c r p prog vers proc ex,
    proc_of r = Some p /\ rproc_of prog vers proc = Some p /\
    ob_status (snd (step s c r)) = 4 /\ in_nfsstat3 4 = false /\
    parse_results prog vers proc (encode_results p (snd (step s c r)) ex) = None.
Proof.
  exists srv0, cred0, (RLookup 1 [97; 0; 98]), NfsLookup, PROG_NFS, 3, 3, (go_extras 0 0).
  repeat split; vm_compute; reflexivity.
Qed.

(* ================= HandleCall without a handler: drain, dispatch errors, MOUNT's own procedures ================= *)
(* the error helpers of nfs_handlers.go write exactly the RFC failure body with every optional attribute absent *)
Definition fail_tree (p : rproc) (st : N) : result_tree :=
  rt_st st (repeat None (pf_attrs (pf_fail (fail_shape p)))) (repeat None (pf_wcc (pf_fail (fail_shape p)))).
Lemma nfs_error_enc p st : has_status p = true -> (st =? 0) = false -> nfs_error (fail_shape p) st = enc_tree p (fail_tree p st).
Proof.
  intros Hs H0. rewrite (enc_tree_status p _ Hs). unfold fail_tree, rt_st, st_of. cbn [rt_status]. rewrite H0.
  unfold nfs_error. f_equal. destruct p; try discriminate Hs; reflexivity.
Qed.
Lemma fail_tree_form extra p st : has_status p = true -> (st =? 0) = false -> (st <? two32) = true ->
  (stat_member p st || extra st) = true -> tree_form_x extra p (fail_tree p st) = true /\ tree_sizes (fail_tree p st) = true.
Proof.
  intros Hs H0 H32 Hm. unfold tree_form_x, fail_tree, rt_st. cbn [rt_status]. rewrite Hs, H0, H32, Hm. cbn [andb].
  split; [destruct (fail_shape p); reflexivity|reflexivity].
Qed.
Lemma void_form extra p : has_status p = false -> p <> MntDump -> p <> MntExport ->
  enc_tree p rt_void = [] /\ tree_form_x extra p rt_void = true /\ tree_sizes rt_void = true.
Proof. intros Hs H1 H2. destruct p; try discriminate Hs; try contradiction; repeat split; reflexivity. Qed.

Lemma nfs_proc_rproc proc p : nfs_proc proc = Some p -> rproc_of PROG_NFS 3 proc = Some p.
Proof.
  unfold nfs_proc, rproc_of. destruct (proc <=? 21) eqn:E; [|discriminate]. apply N.leb_le in E.
  cbn [N.eqb andb]. change (PROG_NFS =? PROG_NFS) with true. cbn [andb]. replace (N.min proc 22) with proc by lia. auto.
Qed.
Lemma nfs_proc_status proc p : nfs_proc proc = Some p -> p = NfsNull \/ (has_status p = true /\ is_mount p = false).
Proof.
  unfold nfs_proc. destruct (proc <=? 21); [|discriminate]. intros H. apply nth_error_In in H. cbn in H.
  repeat (destruct H as [<-|H]; [auto|]). destruct H.
Qed.
Lemma jukebox_member p : has_status p = true -> is_mount p = false -> stat_member p JUKEBOX = true.
Proof. intros Hs Hm. destruct p; try discriminate Hs; try discriminate Hm; vm_compute; reflexivity. Qed.

Definition parses (extra : N -> bool) (prog vers proc xid : N) (wire : bytes) : Prop :=
  exists k, parse_reply_x extra prog vers proc wire = Some (n32 xid, k).
Lemma parses_accept_stat extra prog vers proc xid acc :
  (acc =? AS_PROG_MISMATCH) = false -> (acc =? AS_SUCCESS) = false -> kind_of_accept acc <> None ->
  parses extra prog vers proc xid (wire_of xid (AAccepted acc [])).
Proof.
  intros H1 H2 H3. unfold wire_of. rewrite H1, H2. destruct (kind_of_accept acc) as [k|] eqn:E; [|contradiction].
  exists k. apply parse_reply_accept_stat. exact E.
Qed.
Lemma parses_mismatch extra prog vers proc xid : parses extra prog vers proc xid (wire_of xid (AAccepted a_prog_mismatch [])).
Proof. exists (KProgMismatch 3 3). apply parse_reply_prog_mismatch; [lia|unfold two32; lia]. Qed.
Lemma parses_success extra prog vers proc xid p t :
  rproc_of prog vers proc = Some p -> tree_form_x extra p t = true -> tree_sizes t = true ->
  parses extra prog vers proc xid (wire_of xid (AAccepted a_success (enc_tree p t))).
Proof. intros. eexists. apply parse_reply_success; eassumption. Qed.
Lemma parses_void extra prog vers proc xid p :
  rproc_of prog vers proc = Some p -> has_status p = false -> p <> MntDump -> p <> MntExport ->
  parses extra prog vers proc xid (wire_of xid (AAccepted a_success [])).
Proof.
  intros Hr Hs H1 H2. destruct (void_form extra p Hs H1 H2) as (E & F & Z). rewrite <- E. eapply parses_success; eassumption.
Qed.

Lemma rproc_mount vers proc : (vers =? 1) || (vers =? 3) = true -> proc <= 5 ->
  exists p, rproc_of PROG_MOUNT vers proc = Some p /\ is_mount p = true /\
            (proc = 0 -> p = MntNull) /\ (proc = 1 -> p = MntMnt \/ p = Mnt1Mnt) /\ (proc = 2 -> p = MntDump) /\
            (proc = 3 -> p = MntUmnt) /\ (proc = 4 -> p = MntUmntall) /\ (proc = 5 -> p = MntExport).
Proof.
  intros Hv Hp. unfold rproc_of. change (PROG_MOUNT =? PROG_NFS) with false. change (PROG_MOUNT =? PROG_MOUNT) with true. cbn [andb].
  assert (C : proc = 0 \/ proc = 1 \/ proc = 2 \/ proc = 3 \/ proc = 4 \/ proc = 5) by lia.
  apply orb_prop in Hv as [Hv|Hv]; apply N.eqb_eq in Hv; subst vers; cbn [N.eqb Pos.eqb];
  destruct C as [->|[->|[->|[->|[->| ->]]]]]; cbn; eexists; (split; [reflexivity|]);
  repeat split; auto; intros; try discriminate; try lia.
Qed.

(* drainReply: every call gets a well-formed answer *)
Theorem drain_reply_parses extra prog vers proc xid :
  parses extra prog vers proc xid (wire_of xid (drain_reply prog vers proc)).
Proof.
  unfold drain_reply.
  destruct (prog =? nfs_prog) eqn:Ep.
  - apply N.eqb_eq in Ep. subst prog. destruct (vers =? nfs_v3) eqn:Ev; cbn [negb]; [|apply parses_mismatch].
    apply N.eqb_eq in Ev. subst vers.
    destruct (nfs_proc proc) as [p|] eqn:En.
    + pose proof (nfs_proc_rproc proc p En) as Hr. destruct (nfs_proc_status proc p En) as [->|[Hs Hm]].
      * eapply parses_void; [exact Hr|reflexivity|discriminate|discriminate].
      * assert (E : AAccepted a_success (nfs_error (fail_shape p) JUKEBOX) =
                    AAccepted a_success (enc_tree p (fail_tree p JUKEBOX))) by (rewrite nfs_error_enc by auto; reflexivity).
        replace (match p with NfsNull => AAccepted a_success [] | _ => AAccepted a_success (nfs_error (fail_shape p) JUKEBOX) end)
          with (AAccepted a_success (enc_tree p (fail_tree p JUKEBOX))) by (rewrite <- E; destruct p; try discriminate Hs; reflexivity).
        destruct (fail_tree_form extra p JUKEBOX Hs eq_refl eq_refl) as [F Z]; [rewrite jukebox_member by assumption; reflexivity|].
        eapply parses_success; eassumption.
    + apply parses_accept_stat; [reflexivity|reflexivity|discriminate].
  - destruct (prog =? mount_prog) eqn:Em; [|apply parses_accept_stat; [reflexivity|reflexivity|discriminate]].
    apply N.eqb_eq in Em. subst prog.
    destruct (negb (vers =? 1) && negb (vers =? mount_v3)) eqn:Ev; [apply parses_mismatch|].
    assert (Hv : (vers =? 1) || (vers =? 3) = true).
    { destruct (vers =? 1); [reflexivity|]. change mount_v3 with 3 in Ev. destruct (vers =? 3); [reflexivity|discriminate]. }
    destruct (proc =? 1) eqn:E1.
    + apply N.eqb_eq in E1. subst proc. destruct (rproc_mount vers 1 Hv ltac:(lia)) as (p & Hr & Hm & _ & H1 & _).
      assert (Hs : has_status p = true) by (destruct (H1 eq_refl) as [->| ->]; reflexivity).
      assert (E : nfs_error FVoid MNT_SERVERFAULT = enc_tree p (fail_tree p MNT_SERVERFAULT)).
      { rewrite <- nfs_error_enc by auto. destruct (H1 eq_refl) as [->| ->]; reflexivity. }
      rewrite E. destruct (fail_tree_form extra p MNT_SERVERFAULT Hs eq_refl eq_refl) as [F Z].
      { destruct (H1 eq_refl) as [->| ->]; reflexivity. }
      eapply parses_success; eassumption.
    + destruct ((proc =? 0) || (proc =? 3) || (proc =? 4)) eqn:E034; [|apply parses_accept_stat; [reflexivity|reflexivity|discriminate]].
      assert (Hp : proc <= 5) by (repeat (apply orb_prop in E034 as [E034|E034]); apply N.eqb_eq in E034; lia).
      destruct (rproc_mount vers proc Hv Hp) as (p & Hr & Hm & H0 & _ & _ & H3 & H4 & _).
      assert (Hpv : p = MntNull \/ p = MntUmnt \/ p = MntUmntall).
      { apply orb_prop in E034 as [E034|E034]; [apply orb_prop in E034 as [E034|E034]|]; apply N.eqb_eq in E034; auto. }
      eapply parses_void; [exact Hr| | |]; destruct Hpv as [->|[->| ->]]; try reflexivity; discriminate.
Qed.

(* HandleCall: whatever the mode, whatever (program, version, procedure): when the procedure handlers leave an encoded
   well-formed result (which is what model_wellformed establishes for Model/Srv.v), the reply is a well-formed RFC 1831
   reply carrying a well-formed result of THAT procedure *)
Definition export_tree : result_tree := mkRT None [] [] None [] [] [] [] false [([47], [])].
Lemma export_reply_enc : mnt_export_reply = enc_tree MntExport export_tree.
Proof. unfold mnt_export_reply, enc_tree, export_tree. cbn [rt_list e_chain e_export_entry fst snd]. rewrite <- ?app_assoc. reflexivity. Qed.
Lemma dump_reply_enc : mnt_dump_reply = enc_tree MntDump rt_void.
Proof. reflexivity. Qed.

Lemma mnt_fault_parses extra vers xid : (vers =? 1) || (vers =? 3) = true ->
  parses extra PROG_MOUNT vers 1 xid (wire_of xid (AAccepted a_success (nfs_error FVoid MNT_SERVERFAULT))).
Proof.
  intros Hv. destruct (rproc_mount vers 1 Hv ltac:(lia)) as (p & Hr & Hm & _ & H1 & _).
  assert (Hs : has_status p = true) by (destruct (H1 eq_refl) as [->| ->]; reflexivity).
  assert (E : nfs_error FVoid MNT_SERVERFAULT = enc_tree p (fail_tree p MNT_SERVERFAULT)).
  { rewrite <- nfs_error_enc by auto. destruct (H1 eq_refl) as [->| ->]; reflexivity. }
  rewrite E. destruct (fail_tree_form extra p MNT_SERVERFAULT Hs eq_refl eq_refl) as [F Z].
  { destruct (H1 eq_refl) as [->| ->]; reflexivity. }
  eapply parses_success; eassumption.
Qed.

Theorem call_reply_parses extra m prog vers proc args_ok large t xid :
  (forall p, rproc_of prog vers proc = Some p -> tree_form_x extra p t = true /\ tree_sizes t = true) ->
  let handler := match rproc_of prog vers proc with Some p => enc_tree p t | None => [] end in
  parses extra prog vers proc xid (wire_of xid (call_reply m prog vers proc args_ok large handler)).
Proof.
  intros Ht handler. unfold call_reply.
  destruct (m_drain m); [apply drain_reply_parses|].
  destruct (m_auth_ok m); cbn [negb]; [|exists (KAuthError 1); apply parse_reply_denied_auth; reflexivity].
  destruct (prog =? mount_prog) eqn:Em.
  - apply N.eqb_eq in Em. subst prog.
    destruct (negb (vers =? 1) && negb (vers =? mount_v3)) eqn:Ev; [apply parses_mismatch|].
    assert (Hv : (vers =? 1) || (vers =? 3) = true).
    { destruct (vers =? 1); [reflexivity|]. change mount_v3 with 3 in Ev. destruct (vers =? 3); [reflexivity|discriminate]. }
    destruct (proc =? 0) eqn:E0.
    { apply N.eqb_eq in E0. subst proc. destruct (rproc_mount vers 0 Hv ltac:(lia)) as (p & Hr & _ & H0 & _).
      rewrite (H0 eq_refl) in Hr. eapply parses_void; [exact Hr|reflexivity|discriminate|discriminate]. }
    destruct (proc =? 1) eqn:E1.
    { apply N.eqb_eq in E1. subst proc. destruct (m_op_limited m); [apply mnt_fault_parses; exact Hv|].
      destruct args_ok; cbn [negb]; [|apply parses_accept_stat; [reflexivity|reflexivity|discriminate]].
      subst handler. change mount_prog with PROG_MOUNT.
      destruct (rproc_mount vers 1 Hv ltac:(lia)) as (p & Hr & _). rewrite Hr. destruct (Ht p Hr). eapply parses_success; eassumption. }
    destruct (proc =? 2) eqn:E2.
    { apply N.eqb_eq in E2. subst proc. destruct (rproc_mount vers 2 Hv ltac:(lia)) as (p & Hr & _ & _ & _ & H2 & _).
      rewrite (H2 eq_refl) in Hr. rewrite dump_reply_enc. eapply parses_success; [exact Hr|reflexivity|reflexivity]. }
    destruct (proc =? 3) eqn:E3.
    { apply N.eqb_eq in E3. subst proc. destruct args_ok; cbn [negb]; [|apply parses_accept_stat; [reflexivity|reflexivity|discriminate]].
      destruct (rproc_mount vers 3 Hv ltac:(lia)) as (p & Hr & _ & _ & _ & _ & H3 & _).
      rewrite (H3 eq_refl) in Hr. eapply parses_void; [exact Hr|reflexivity|discriminate|discriminate]. }
    destruct (proc =? 4) eqn:E4.
    { apply N.eqb_eq in E4. subst proc. destruct (rproc_mount vers 4 Hv ltac:(lia)) as (p & Hr & _ & _ & _ & _ & _ & H4 & _).
      rewrite (H4 eq_refl) in Hr. eapply parses_void; [exact Hr|reflexivity|discriminate|discriminate]. }
    destruct (proc =? 5) eqn:E5; [|apply parses_accept_stat; [reflexivity|reflexivity|discriminate]].
    apply N.eqb_eq in E5. subst proc. destruct (rproc_mount vers 5 Hv ltac:(lia)) as (p & Hr & _ & _ & _ & _ & _ & _ & H5).
    rewrite (H5 eq_refl) in Hr. rewrite export_reply_enc. eapply parses_success; [exact Hr|reflexivity|reflexivity].
  - destruct (prog =? nfs_prog) eqn:Ep; [|apply parses_accept_stat; [reflexivity|reflexivity|discriminate]].
    apply N.eqb_eq in Ep. subst prog. destruct (vers =? nfs_v3) eqn:Ev; cbn [negb]; [|apply parses_mismatch].
    apply N.eqb_eq in Ev. subst vers.
    destruct (nfs_proc proc) as [p|] eqn:En; [|apply parses_accept_stat; [reflexivity|reflexivity|discriminate]].
    pose proof (nfs_proc_rproc proc p En) as Hr. subst handler. change nfs_prog with PROG_NFS. change nfs_v3 with 3.
    rewrite Hr. destruct (Ht p Hr). eapply parses_success; eassumption.
Qed.

(* the per-operation rate-limit answers of READ / WRITE / READDIR / READDIRPLUS carry 10013, which is not an nfsstat3
   member (known finding k=2): the strict grammar refuses them, the grammar admitting 10013 as a failure status accepts *)
Definition k2 (s : N) : bool := s =? 10013.
Theorem limited_reply_refuted :
  forallb (fun pp => match parse_results PROG_NFS 3 (fst pp) (limited_reply (snd pp)) with None => true | Some _ => false end)
          [(6, NfsRead); (7, NfsWrite); (16, NfsReaddir); (17, NfsReaddirplus)] = true.
Proof. vm_compute. reflexivity. Qed.
Theorem limited_reply_k2 :
  forallb (fun pp => match parse_results_x k2 PROG_NFS 3 (fst pp) (limited_reply (snd pp)) with
                     | Some t => match rt_status t with Some st => st =? 10013 | None => false end
                     | None => false end)
          [(6, NfsRead); (7, NfsWrite); (16, NfsReaddir); (17, NfsReaddirplus)] = true.
Proof. vm_compute. reflexivity. Qed.

(* ================= the boolean [wellformed] ================= *)
Lemma wellformed_of_parse extra prog vers proc xid wire k :
  bytesb wire = true -> parse_reply_x extra prog vers proc wire = Some (n32 xid, k) ->
  wellformed_x extra prog vers proc (n32 xid) wire = true.
Proof. intros Hb Hp. unfold wellformed_x. rewrite Hb, Hp. apply N.eqb_refl. Qed.
Lemma bytesb_e_u32 v : bytesb (e_u32 v) = true. Proof. apply bytesb_be_enc. Qed.
Lemma bytesb_enc_accepted xid acc body : bytesb body = true -> bytesb (enc_accepted xid acc body) = true.
Proof.
  intros H. unfold enc_accepted, enc_reply_hdr. rewrite !bytesb_app, !bytesb_e_u32, H. reflexivity.
Qed.
Corollary model_wellformed_bool s c r p prog vers proc ex xid :
  proc_of r = Some p -> rproc_of prog vers proc = Some p -> req_decodes r = true ->
  let o := snd (step s c r) in
  sizes_ok o ex = true -> bytesb (encode_results p o ex) = true ->
  wellformed prog vers proc (n32 xid) (enc_accepted xid AS_SUCCESS (encode_results p o ex)) = true.
Proof.
  intros Hp Hr Hd o Hz Hb. destruct (model_wellformed s c r p prog vers proc ex xid Hp Hr Hd Hz) as [_ H].
  eapply wellformed_of_parse; [apply bytesb_enc_accepted; exact Hb|exact H].
Qed.
