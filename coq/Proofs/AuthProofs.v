(* Proofs/AuthProofs.v — C10: the parser accepts exactly the AUTH_SYS layout, the squash table,
   the flavour switch. *)
From Coq Require Import String Ascii List NArith ZArith Bool Lia ZifyBool ZifyNat ZifyN PeanoNat.
From Verif Require Import Gen.Facts Model.Auth.
Import ListNotations.
Open Scope N_scope.

Ltac Zify.zify_post_hook ::= Z.div_mod_to_equations.

(* ---------- byteReader ---------- *)

Lemma take_spec : forall n bs a r,
  take n bs = Some (a, r) <-> bs = a ++ r /\ length a = n.
Proof.
  intros n bs a r. unfold take. split.
  - destruct (Nat.leb n (length bs)) eqn:E; [|discriminate]. intro H. inversion H; subst.
    apply Nat.leb_le in E. split; [symmetry; apply firstn_skipn|]. apply firstn_length_le; assumption.
  - intros [-> <-]. rewrite app_length.
    replace (Nat.leb (length a) (length a + length r)) with true by (symmetry; apply Nat.leb_le; lia).
    rewrite firstn_app, Nat.sub_diag, firstn_all, firstn_O, app_nil_r.
    rewrite skipn_app, Nat.sub_diag, skipn_all, skipn_O. reflexivity.
Qed.

Lemma read_u32_spec : forall bs v r,
  read_u32 bs = Some (v, r) <-> exists w, bs = w ++ r /\ word w v.
Proof.
  intros bs v r. split.
  - destruct bs as [|a [|b [|c [|d r']]]]; cbn; try discriminate.
    intro H. inversion H; subst. exists [a; b; c; d]. split; [reflexivity|].
    exists a, b, c, d. split; reflexivity.
  - intros (w & -> & a & b & c & d & -> & ->). reflexivity.
Qed.

Lemma read_u32_word : forall w v r, word w v -> read_u32 (w ++ r) = Some (v, r).
Proof. intros w v r H. apply read_u32_spec. exists w. split; [reflexivity|assumption]. Qed.

Lemma read_u32s_spec : forall n bs vs r,
  read_u32s n bs = Some (vs, r) <->
  exists ws, bs = concat ws ++ r /\ length ws = n /\ Forall2 word ws vs.
Proof.
  induction n as [|n IH]; intros bs vs r; cbn [read_u32s].
  - split.
    + intro H. inversion H; subst. exists []. repeat split. constructor.
    + intros (ws & -> & Hl & F). destruct ws; [|discriminate]. inversion F; subst. reflexivity.
  - split.
    + destruct (read_u32 bs) as [[v r1]|] eqn:E1; [|discriminate].
      destruct (read_u32s n r1) as [[vs' r2]|] eqn:E2; [|discriminate].
      intro H. inversion H; subst.
      apply read_u32_spec in E1. destruct E1 as (w & -> & Hw).
      apply IH in E2. destruct E2 as (ws & -> & Hl & F).
      exists (w :: ws). cbn [concat]. rewrite <- app_assoc. repeat split.
      * cbn. rewrite Hl. reflexivity.
      * constructor; assumption.
    + intros (ws & -> & Hl & F). destruct ws as [|w ws]; [discriminate|].
      inversion F as [|w' v' ws' vs' Hw F']; subst. cbn [concat]. rewrite <- app_assoc.
      rewrite (read_u32_word w v' _ Hw).
      assert (E : read_u32s n (concat ws ++ r) = Some (vs', r)).
      { apply IH. exists ws. repeat split; [|assumption]. cbn in Hl. lia. }
      rewrite E. reflexivity.
Qed.

Lemma padded_len_div : forall len, padded_len len = (len + 3) / 4 * 4.
Proof.
  intro len. unfold padded_len. change 3 with (N.ones 2) at 2.
  rewrite N.ldiff_ones_r, N.shiftr_div_pow2, N.shiftl_mul_pow2. reflexivity.
Qed.

Lemma padded_len_nat : forall n p : nat,
  (p < 4)%nat -> ((n + p) mod 4 = 0)%nat -> N.to_nat (padded_len (N.of_nat n)) = (n + p)%nat.
Proof. intros n p Hp Hm. rewrite padded_len_div. lia. Qed.

Lemma padded_len_ge : forall len, len <= padded_len len < len + 4 /\ padded_len len mod 4 = 0.
Proof. intro len. rewrite padded_len_div. lia. Qed.

Lemma read_string_spec : forall bs name r,
  read_string bs = Some (name, r) <->
  exists w_len padding,
    bs = w_len ++ name ++ padding ++ r /\
    word w_len (N.of_nat (length name)) /\ N.of_nat (length name) <= max_str /\
    (length padding < 4)%nat /\ ((length name + length padding) mod 4 = 0)%nat.
Proof.
  intros bs name r. unfold read_string. split.
  - destruct (read_u32 bs) as [[len r1]|] eqn:E1; [|discriminate].
    destruct (max_str <? len) eqn:El; [discriminate|]. apply N.ltb_ge in El.
    destruct (take (N.to_nat (padded_len len)) r1) as [[p r2]|] eqn:E2; [|discriminate].
    intro H. inversion H; subst. clear H.
    apply read_u32_spec in E1. destruct E1 as (w & -> & Hw).
    apply take_spec in E2. destruct E2 as [-> Hp].
    pose proof (padded_len_ge len) as [[G1 G2] G3].
    assert (Hn : length (firstn (N.to_nat len) p) = N.to_nat len) by (apply firstn_length_le; lia).
    exists w, (skipn (N.to_nat len) p). repeat split.
    + rewrite (app_assoc (firstn _ p)), firstn_skipn. reflexivity.
    + rewrite Hn, N2Nat.id. assumption.
    + rewrite Hn, N2Nat.id. assumption.
    + rewrite skipn_length. lia.
    + rewrite Hn, skipn_length. lia.
  - intros (w & padding & -> & Hw & Hmax & Hp & Hm).
    rewrite (read_u32_word w _ _ Hw).
    replace (max_str <? N.of_nat (length name)) with false by (symmetry; apply N.ltb_ge; assumption).
    rewrite (padded_len_nat _ _ Hp Hm).
    assert (E : take (length name + length padding) (name ++ padding ++ r) = Some (name ++ padding, r)).
    { apply take_spec. split; [apply app_assoc|apply app_length]. }
    rewrite E. rewrite Nat2N.id, firstn_app, Nat.sub_diag, firstn_all, firstn_O, app_nil_r. reflexivity.
Qed.

(* ---------- ParseAuthSysCredential accepts exactly the AUTH_SYS layout ---------- *)

Lemma parse_authsys_sound : forall bs c, parse_authsys bs = Some c -> wf_authsys bs c.
Proof.
  intros bs c. unfold parse_authsys.
  destruct bs as [|b0 bs0]; [discriminate|]. set (bs := b0 :: bs0).
  destruct (read_u32 bs) as [[stamp r1]|] eqn:E1; [|discriminate].
  destruct (read_string r1) as [[name r2]|] eqn:E2; [|discriminate].
  destruct (read_u32 r2) as [[uid r3]|] eqn:E3; [|discriminate].
  destruct (read_u32 r3) as [[gid r4]|] eqn:E4; [|discriminate].
  destruct (read_u32 r4) as [[cnt r5]|] eqn:E5; [|discriminate].
  destruct (max_aux <? cnt) eqn:Ec; [discriminate|]. apply N.ltb_ge in Ec.
  destruct (read_u32s (N.to_nat cnt) r5) as [[aux r6]|] eqn:E6; [|discriminate].
  intro H. inversion H; subst c. clear H.
  apply read_u32_spec in E1. destruct E1 as (w1 & Hb & Hw1).
  apply read_string_spec in E2. destruct E2 as (wl & pad & -> & Hwl & Hmax & Hp & Hm).
  apply read_u32_spec in E3. destruct E3 as (w3 & -> & Hw3).
  apply read_u32_spec in E4. destruct E4 as (w4 & -> & Hw4).
  apply read_u32_spec in E5. destruct E5 as (w5 & -> & Hw5).
  apply read_u32s_spec in E6. destruct E6 as (ws & -> & Hl & F).
  exists w1, wl, pad, w3, w4, w5, ws, r6. cbn [c_stamp c_machine c_uid c_gid c_aux].
  rewrite Hl, N2Nat.id. repeat split; try assumption.
Qed.

Lemma parse_authsys_complete : forall bs c, wf_authsys bs c -> parse_authsys bs = Some c.
Proof.
  intros bs c (w1 & wl & pad & w3 & w4 & w5 & ws & rest & -> & Hw1 & Hwl & Hmax & Hp & Hm & Hw3 & Hw4 & Hw5 & Hc & F).
  unfold parse_authsys.
  destruct Hw1 as (a & b & c0 & d & -> & Hv1).
  cbn [app read_u32]. rewrite <- Hv1.
  assert (E2 : read_string (wl ++ c_machine c ++ pad ++ w3 ++ w4 ++ w5 ++ concat ws ++ rest)
               = Some (c_machine c, w3 ++ w4 ++ w5 ++ concat ws ++ rest)).
  { apply read_string_spec. exists wl, pad. repeat split; assumption. }
  rewrite E2, (read_u32_word w3 _ _ Hw3), (read_u32_word w4 _ _ Hw4), (read_u32_word w5 _ _ Hw5).
  replace (max_aux <? N.of_nat (length ws)) with false by (symmetry; apply N.ltb_ge; assumption).
  assert (E6 : read_u32s (N.to_nat (N.of_nat (length ws))) (concat ws ++ rest) = Some (c_aux c, rest)).
  { apply read_u32s_spec. exists ws. repeat split; [symmetry; apply Nat2N.id|assumption]. }
  rewrite E6. destruct c; reflexivity.
Qed.

Lemma parse_authsys_spec : forall bs c, parse_authsys bs = Some c <-> wf_authsys bs c.
Proof. intros; split; [apply parse_authsys_sound|apply parse_authsys_complete]. Qed.

Lemma parse_authsys_none : forall bs, (forall c, ~ wf_authsys bs c) -> parse_authsys bs = None.
Proof.
  intros bs H. destruct (parse_authsys bs) as [c|] eqn:E; [|reflexivity].
  exfalso. apply (H c). apply parse_authsys_sound. assumption.
Qed.

Lemma Forall2_len : forall (A B : Type) (R : A -> B -> Prop) l l', Forall2 R l l' -> length l = length l'.
Proof. induction 1; cbn; congruence. Qed.

(* the parser never yields more than max_aux gids *)
Lemma parse_authsys_aux_bound : forall bs c, parse_authsys bs = Some c -> N.of_nat (length (c_aux c)) <= max_aux.
Proof.
  intros bs c H. apply parse_authsys_sound in H.
  destruct H as (w1 & wl & pad & w3 & w4 & w5 & ws & rest & _ & _ & _ & _ & _ & _ & _ & _ & _ & Hc & F).
  rewrite <- (Forall2_len _ _ _ _ _ F). assumption.
Qed.

(* ---------- squash mode strings ---------- *)

Lemma bytes_eqb_spec : forall a b, bytes_eqb a b = true <-> a = b.
Proof.
  unfold bytes_eqb. induction a as [|x a IH]; intros [|y b]; cbn; split; try discriminate; try reflexivity.
  - intro H. apply andb_prop in H. destruct H as [Hl H]. apply andb_prop in H. destruct H as [Hx H].
    apply N.eqb_eq in Hx. subst y. f_equal. apply IH. rewrite Hl, H. reflexivity.
  - intro H. inversion H; subst. rewrite N.eqb_refl. cbn.
    specialize (proj2 (IH b) eq_refl) as H2. apply andb_prop in H2. destruct H2 as [H2 H3].
    rewrite H2, H3. reflexivity.
Qed.

(* "the ASCII lower-casing of squash is the word w" *)
Definition lower_is (squash : list N) (w : string) : Prop :=
  is_ascii squash = true /\ map ascii_lower squash = bytes_of_string w.

Lemma squash_kind_root : forall s, squash_kind s = SRoot <-> lower_is s "root".
Proof.
  intro s. unfold squash_kind, lower_is. destruct (is_ascii s); [|split; [discriminate|intros [H _]; discriminate]].
  destruct (bytes_eqb (map ascii_lower s) (bytes_of_string "root")) eqn:E.
  - apply bytes_eqb_spec in E. tauto.
  - split.
    + destruct (bytes_eqb _ (bytes_of_string "all")); [discriminate|].
      destruct (_ || _); discriminate.
    + intros [_ H]. apply bytes_eqb_spec in H. congruence.
Qed.

Lemma squash_kind_all : forall s, squash_kind s = SAll <-> lower_is s "all".
Proof.
  intro s. unfold squash_kind, lower_is. destruct (is_ascii s); [|split; [discriminate|intros [H _]; discriminate]].
  destruct (bytes_eqb (map ascii_lower s) (bytes_of_string "root")) eqn:E0.
  { apply bytes_eqb_spec in E0. split; [discriminate|]. intros [_ H]. rewrite H in E0. vm_compute in E0. discriminate. }
  destruct (bytes_eqb (map ascii_lower s) (bytes_of_string "all")) eqn:E.
  - apply bytes_eqb_spec in E. tauto.
  - split.
    + destruct (_ || _); discriminate.
    + intros [_ H]. apply bytes_eqb_spec in H. congruence.
Qed.

Lemma squash_kind_none : forall s, squash_kind s = SNone <-> (lower_is s "none" \/ s = []).
Proof.
  intro s. unfold squash_kind, lower_is. destruct (is_ascii s) eqn:Ea.
  2:{ split; [discriminate|]. intros [[H _]| ->]; [discriminate|]. cbn in Ea. discriminate. }
  destruct (bytes_eqb (map ascii_lower s) (bytes_of_string "root")) eqn:E0.
  { apply bytes_eqb_spec in E0. split; [discriminate|].
    intros [[_ H]| ->]; [rewrite H in E0|]; vm_compute in E0; discriminate. }
  destruct (bytes_eqb (map ascii_lower s) (bytes_of_string "all")) eqn:E1.
  { apply bytes_eqb_spec in E1. split; [discriminate|].
    intros [[_ H]| ->]; [rewrite H in E1|]; vm_compute in E1; discriminate. }
  destruct (bytes_eqb (map ascii_lower s) (bytes_of_string "none")) eqn:E2; cbn [orb].
  { apply bytes_eqb_spec in E2. split; [|reflexivity]. intros _. left. split; [reflexivity|assumption]. }
  destruct (bytes_eqb (map ascii_lower s) (bytes_of_string "")) eqn:E3.
  { apply bytes_eqb_spec in E3. split; [|reflexivity]. intros _. right.
    destruct s; [reflexivity|discriminate]. }
  split; [discriminate|].
  intros [[_ H]| ->].
  - apply bytes_eqb_spec in H. congruence.
  - vm_compute in E3. discriminate.
Qed.

Definition unrecognised (s : list N) : Prop :=
  ~ lower_is s "root" /\ ~ lower_is s "all" /\ ~ lower_is s "none" /\ s <> [].

Lemma squash_kind_unknown : forall s, squash_kind s = SUnknown <-> unrecognised s.
Proof.
  intro s. unfold unrecognised. split.
  - intro K. repeat split.
    + intro L. apply squash_kind_root in L. congruence.
    + intro L. apply squash_kind_all in L. congruence.
    + intro L. assert (K' : squash_kind s = SNone) by (apply squash_kind_none; left; exact L). congruence.
    + intro L. assert (K' : squash_kind s = SNone) by (apply squash_kind_none; right; exact L). congruence.
  - intros (A & B & C & D). destruct (squash_kind s) eqn:K; [exfalso|exfalso|exfalso|reflexivity].
    + apply A, squash_kind_root, K.
    + apply B, squash_kind_all, K.
    + apply squash_kind_none in K. destruct K as [K|K]; [apply C|apply D]; exact K.
Qed.

Lemma rows_cover_lemma : forall squash,
  lower_is squash "root" \/ lower_is squash "all" \/ (lower_is squash "none" \/ squash = []) \/ unrecognised squash.
Proof.
  intro s. destruct (squash_kind s) eqn:K.
  - left. apply squash_kind_root. exact K.
  - right; left. apply squash_kind_all. exact K.
  - right; right; left. apply squash_kind_none. exact K.
  - right; right; right. apply squash_kind_unknown. exact K.
Qed.

(* ---------- the squash table ---------- *)

Lemma map_const_repeat : forall (A B : Type) (x : B) (l : list A), map (fun _ => x) l = repeat x (length l).
Proof. induction l as [|a l IH]; cbn; [reflexivity|]. rewrite IH. reflexivity. Qed.

Lemma apply_squashing_table : forall c squash,
  apply_squashing (c_uid c) (c_gid c) c squash =
  squash_table (squash_kind squash) (c_uid c) (c_gid c) (c_aux c).
Proof.
  intros c squash. unfold apply_squashing, squash_table, squash_id.
  destruct (squash_kind squash); try reflexivity.
  - destruct (c_uid c =? 0); [reflexivity|]. destruct (c_gid c =? 0); reflexivity.
  - rewrite map_const_repeat. reflexivity.
Qed.

(* ---------- ValidateAuthentication ---------- *)

Definition passes_gate (filter_on ip_ok secure : bool) (port : Z) : bool :=
  (negb filter_on || ip_ok) && (negb secure || (port <? privileged_port_limit)%Z).

Lemma gate_split : forall filter_on ip_ok secure port,
  passes_gate filter_on ip_ok secure port = true ->
  (filter_on && negb ip_ok) = false /\ (secure && (privileged_port_limit <=? port)%Z) = false.
Proof.
  intros f i s p H. unfold passes_gate in H. apply andb_prop in H. destruct H as [H1 H2].
  split.
  - destruct f, i; cbn in *; congruence.
  - destruct s; cbn in *; [|reflexivity]. lia.
Qed.

Lemma validate_auth_none : forall filter_on ip_ok secure port body pre squash,
  passes_gate filter_on ip_ok secure port = true ->
  let r := validate filter_on ip_ok secure port AUTH_NONE body pre squash in
  v_allowed r = true /\ v_uid r = nobody /\ v_gid r = nobody /\ v_authsys r = pre.
Proof.
  intros f i s p body pre squash G. destruct (gate_split _ _ _ _ G) as [G1 G2].
  unfold validate. rewrite G1, G2. cbn. repeat split; reflexivity.
Qed.

Lemma validate_other_flavor : forall filter_on ip_ok secure port flavor body pre squash,
  flavor <> AUTH_NONE -> flavor <> AUTH_SYS ->
  let r := validate filter_on ip_ok secure port flavor body pre squash in
  v_allowed r = false /\ v_uid r = nobody /\ v_gid r = nobody.
Proof.
  intros f i s p flavor body pre squash H0 H1. unfold validate.
  destruct (f && negb i); [repeat split; reflexivity|].
  destruct (s && _); [repeat split; reflexivity|].
  apply N.eqb_neq in H0. apply N.eqb_neq in H1. rewrite H0, H1. repeat split; reflexivity.
Qed.

Lemma validate_bad_body : forall filter_on ip_ok secure port body squash,
  (forall c, ~ wf_authsys body c) ->
  let r := validate filter_on ip_ok secure port AUTH_SYS body None squash in
  v_allowed r = false /\ v_uid r = nobody /\ v_gid r = nobody /\ v_authsys r = None.
Proof.
  intros f i s p body squash H. unfold validate.
  destruct (f && negb i); [repeat split; reflexivity|].
  destruct (s && _); [repeat split; reflexivity|].
  change (AUTH_SYS =? AUTH_NONE) with false. change (AUTH_SYS =? AUTH_SYS) with true. cbn iota.
  rewrite (parse_authsys_none body H). repeat split; reflexivity.
Qed.

Lemma validate_authsys : forall filter_on ip_ok secure port body c squash,
  passes_gate filter_on ip_ok secure port = true ->
  wf_authsys body c ->
  let r := validate filter_on ip_ok secure port AUTH_SYS body None squash in
  let t := squash_table (squash_kind squash) (c_uid c) (c_gid c) (c_aux c) in
  v_allowed r = true /\ v_uid r = fst (fst t) /\ v_gid r = snd (fst t) /\
  option_map c_aux (v_authsys r) = Some (snd t) /\
  option_map c_uid (v_authsys r) = Some (c_uid c) /\ option_map c_gid (v_authsys r) = Some (c_gid c).
Proof.
  intros f i s p body c squash G W. destruct (gate_split _ _ _ _ G) as [G1 G2].
  unfold validate. rewrite G1, G2.
  change (AUTH_SYS =? AUTH_NONE) with false. change (AUTH_SYS =? AUTH_SYS) with true. cbn iota.
  rewrite (parse_authsys_complete body c W), apply_squashing_table.
  destruct (squash_table (squash_kind squash) (c_uid c) (c_gid c) (c_aux c)) as [[u g] aux].
  cbn. repeat split; reflexivity.
Qed.

(* a request that does not pass the gate is denied whatever its credential *)
Lemma validate_gate : forall filter_on ip_ok secure port flavor body pre squash,
  passes_gate filter_on ip_ok secure port = false ->
  v_allowed (validate filter_on ip_ok secure port flavor body pre squash) = false.
Proof.
  intros f i s p flavor body pre squash G. unfold validate, passes_gate in *.
  destruct f, i, s; cbn in *; try reflexivity; try discriminate;
    destruct (privileged_port_limit <=? p)%Z eqn:E; try reflexivity; lia.
Qed.

Lemma validate_allowed_gate : forall filter_on ip_ok secure port flavor body pre squash,
  v_allowed (validate filter_on ip_ok secure port flavor body pre squash) = true ->
  passes_gate filter_on ip_ok secure port = true.
Proof.
  intros f i s p flavor body pre squash H.
  destruct (passes_gate f i s p) eqn:G; [reflexivity|].
  rewrite (validate_gate _ _ _ _ flavor body pre squash G) in H. discriminate.
Qed.

(* ---------- the table, on mode strings ---------- *)

Lemma C10_table_lemma : forall c squash,
  let r := apply_squashing (c_uid c) (c_gid c) c squash in
  let u := fst (fst r) in let g := snd (fst r) in let aux' := snd r in
  (lower_is squash "all" -> u = nobody /\ g = nobody /\ aux' = repeat nobody (length (c_aux c))) /\
  (lower_is squash "root" ->
      u = (if c_uid c =? 0 then nobody else c_uid c) /\
      g = (if c_uid c =? 0 then nobody else squash_id (c_gid c)) /\
      aux' = map squash_id (c_aux c)) /\
  (lower_is squash "none" \/ squash = [] -> u = c_uid c /\ g = c_gid c /\ aux' = c_aux c) /\
  (unrecognised squash -> u = nobody /\ g = nobody /\ aux' = c_aux c).
Proof.
  intros c squash r u g aux'. subst u g aux' r. rewrite apply_squashing_table.
  split; [|split; [|split]]; intro H.
  - apply squash_kind_all in H. rewrite H. repeat split; reflexivity.
  - apply squash_kind_root in H. rewrite H. repeat split; reflexivity.
  - apply squash_kind_none in H. rewrite H. repeat split; reflexivity.
  - apply squash_kind_unknown in H. rewrite H. repeat split; reflexivity.
Qed.

(* ---------- aliasing ---------- *)

Lemma squash_heap_old_cells : forall k st i,
  (i < length (cells st))%nat -> nth i (cells (squash_heap k st)) [] = nth i (cells st) [].
Proof.
  intros k st i Hi. unfold squash_heap.
  destruct k; try reflexivity; destruct (0 <? length (aux_of st))%nat; try reflexivity;
    cbn [cells]; apply app_nth1; assumption.
Qed.

Lemma squash_heap_view : forall c squash st,
  aux_of st = c_aux c ->
  aux_of (squash_heap (squash_kind squash) st) = snd (apply_squashing (c_uid c) (c_gid c) c squash).
Proof.
  intros c squash st Ha. rewrite apply_squashing_table. unfold squash_heap, squash_table. rewrite Ha.
  destruct (squash_kind squash); cbn [snd]; try assumption.
  - destruct (c_aux c) as [|x l] eqn:E; cbn [length Nat.ltb Nat.leb]; [rewrite Ha; reflexivity|].
    unfold aux_of. cbn [cells aux_ptr]. rewrite app_nth2, Nat.sub_diag by lia. reflexivity.
  - destruct (c_aux c) as [|x l] eqn:E; cbn [length Nat.ltb Nat.leb]; [rewrite Ha; reflexivity|].
    unfold aux_of. cbn [cells aux_ptr]. rewrite app_nth2, Nat.sub_diag by lia.
    cbn [nth]. rewrite map_const_repeat. reflexivity.
Qed.
