(* Proofs/TokenBucketProofs.v — lemmas about the token bucket over Q (Model/TokenBucket.v). *)
From Coq Require Import List QArith Qminmax Lqa Bool Lia ZArith.
From Verif Require Import Model.TokenBucket.
Import ListNotations.
Open Scope Q_scope.

(* ---- booleans vs. order ---- *)
Lemma Qle_bool_true x y : Qle_bool x y = true -> x <= y.
Proof. apply Qle_bool_iff. Qed.
Lemma Qle_bool_false x y : Qle_bool x y = false -> y < x.
Proof.
  intros E. apply Qnot_le_lt. intros H. apply Qle_bool_iff in H. congruence.
Qed.
Lemma Qle_bool_compat x x' y y' : x == x' -> y == y' -> Qle_bool x y = Qle_bool x' y'.
Proof.
  intros Hx Hy. destruct (Qle_bool x y) eqn:E1, (Qle_bool x' y') eqn:E2; try reflexivity.
  - apply Qle_bool_true in E1. apply Qle_bool_false in E2. lra.
  - apply Qle_bool_false in E1. apply Qle_bool_true in E2. lra.
Qed.

(* ---- cap mx x = min mx x, written as the Go `if` ---- *)
Definition cap (mx x : Q) : Q := if Qle_bool x mx then x else mx.

Lemma refilled_cap b now : refilled b now = cap (maxT b) (tokens b + (now - last b) * rate b).
Proof. reflexivity. Qed.

Lemma cap_cases mx x : (x <= mx /\ cap mx x = x) \/ (mx < x /\ cap mx x = mx).
Proof.
  unfold cap. destruct (Qle_bool x mx) eqn:E.
  - left. split; [apply Qle_bool_true; exact E|reflexivity].
  - right. split; [apply Qle_bool_false; exact E|reflexivity].
Qed.
Lemma cap_le_max mx x : cap mx x <= mx.
Proof. destruct (cap_cases mx x) as [[H E]|[H E]]; rewrite E; lra. Qed.
Lemma cap_le_arg mx x : cap mx x <= x.
Proof. destruct (cap_cases mx x) as [[H E]|[H E]]; rewrite E; lra. Qed.
Lemma cap_glb mx x z : z <= mx -> z <= x -> z <= cap mx x.
Proof. intros. destruct (cap_cases mx x) as [[H1 E]|[H1 E]]; rewrite E; lra. Qed.
Lemma cap_compat mx x y : x == y -> cap mx x == cap mx y.
Proof.
  intros Hxy. destruct (cap_cases mx x) as [[H1 E1]|[H1 E1]], (cap_cases mx y) as [[H2 E2]|[H2 E2]];
    rewrite E1, E2; lra.
Qed.
Lemma cap_mono mx x y : x <= y -> cap mx x <= cap mx y.
Proof.
  intros Hxy. destruct (cap_cases mx x) as [[H1 E1]|[H1 E1]], (cap_cases mx y) as [[H2 E2]|[H2 E2]];
    rewrite E1, E2; lra.
Qed.
Lemma cap_full mx x : mx <= x -> cap mx x == mx.
Proof. intros. destruct (cap_cases mx x) as [[H1 E]|[H1 E]]; rewrite E; lra. Qed.
Lemma cap_id mx x : x <= mx -> cap mx x == x.
Proof. intros. destruct (cap_cases mx x) as [[H1 E]|[H1 E]]; rewrite E; lra. Qed.
(* refilling in two steps is refilling in one *)
Lemma cap_cap mx x d : 0 <= d -> cap mx (cap mx x + d) == cap mx (x + d).
Proof.
  intros Hd.
  destruct (cap_cases mx x) as [[H1 E1]|[H1 E1]]; rewrite E1.
  - reflexivity.
  - rewrite (cap_full mx (mx + d)) by lra. rewrite (cap_full mx (x + d)) by lra. reflexivity.
Qed.

(* ---- well-formed buckets ---- *)
Definition wf (b : tb) : Prop := 0 <= rate b /\ 0 <= maxT b /\ 0 <= tokens b.

Lemma wf_mk r burst now : 0 <= r -> 0 <= burst -> wf (mk r burst now).
Proof. unfold wf, mk; cbn. intros. repeat split; lra. Qed.

Lemma elapsed_nonneg b now : 0 <= rate b -> last b <= now -> 0 <= (now - last b) * rate b.
Proof. intros. apply Qmult_le_0_compat; lra. Qed.

Lemma refilled_nonneg b now : wf b -> last b <= now -> 0 <= refilled b now.
Proof.
  intros (Hr & Hm & Ht) Hl. rewrite refilled_cap. pose proof (elapsed_nonneg b now Hr Hl).
  apply cap_glb; lra.
Qed.
Lemma refilled_le_max b now : refilled b now <= maxT b.
Proof. rewrite refilled_cap. apply cap_le_max. Qed.

(* refill to t1, then to t2 = refill to t2 *)
Lemma refilled_later b t1 t2 : 0 <= rate b -> t1 <= t2 ->
  refilled b t2 == cap (maxT b) (refilled b t1 + (t2 - t1) * rate b).
Proof.
  intros Hr H12. rewrite !refilled_cap.
  assert (Hd : 0 <= (t2 - t1) * rate b) by (apply Qmult_le_0_compat; lra).
  rewrite cap_cap by exact Hd. apply cap_compat. ring.
Qed.
Lemma refilled_mono_time b t1 t2 : 0 <= rate b -> t1 <= t2 -> refilled b t1 <= refilled b t2.
Proof.
  intros Hr H12. rewrite (refilled_later b t1 t2 Hr H12).
  assert (Hd : 0 <= (t2 - t1) * rate b) by (apply Qmult_le_0_compat; lra).
  apply cap_glb; [apply refilled_le_max|lra].
Qed.

(* a fresh bucket is full *)
Lemma refilled_mk r burst now : refilled (mk r burst now) now == burst.
Proof.
  rewrite refilled_cap. cbn [mk tokens maxT rate last].
  assert (Hz : burst + (now - now) * r == burst) by ring.
  rewrite (cap_compat _ _ _ Hz). apply cap_id. lra.
Qed.

(* ---- Allow ---- *)
(* the decision is "level >= 1"; an admitted request costs exactly one token; nothing else changes *)
Lemma allow_spec b now a b' :
  allow b now = (a, b') ->
  maxT b' = maxT b /\ rate b' = rate b /\ last b' = now /\
  ((a = true /\ 1 <= refilled b now /\ tokens b' == refilled b now - 1) \/
   (a = false /\ refilled b now < 1 /\ tokens b' == refilled b now)).
Proof.
  unfold allow. set (t := Qred (refilled b now)).
  assert (Hq : t == refilled b now) by apply Qred_correct. clearbody t.
  set (u := Qred (t - 1)). assert (Hq2 : u == t - 1) by apply Qred_correct. clearbody u.
  destruct (Qle_bool 1 t) eqn:E; intros H; injection H as <- <-; cbn [tokens maxT rate last].
  - repeat split. left. apply Qle_bool_true in E. repeat split; lra.
  - repeat split. right. apply Qle_bool_false in E. repeat split; lra.
Qed.

Lemma allow_bit b now : fst (allow b now) = Qle_bool 1 (refilled b now).
Proof.
  unfold allow. rewrite (Qle_bool_compat 1 1 (Qred (refilled b now)) (refilled b now));
    [|reflexivity|apply Qred_correct].
  destruct (Qle_bool 1 (refilled b now)); reflexivity.
Qed.

Lemma allow_wf b now a b' : allow b now = (a, b') -> wf b -> last b <= now -> wf b'.
Proof.
  intros H Hwf Hl. pose proof (refilled_nonneg b now Hwf Hl) as Hn.
  destruct (allow_spec _ _ _ _ H) as (Hm & Hr & _ & Hc). destruct Hwf as (Hr0 & Hm0 & _).
  unfold wf. rewrite Hm, Hr. repeat split; try assumption.
  destruct Hc as [(_ & H1 & Ht)|(_ & H1 & Ht)]; lra.
Qed.

(* level of the new bucket at the same instant *)
Lemma allow_level b now a b' : allow b now = (a, b') -> wf b -> last b <= now ->
  refilled b' now == refilled b now - (if a then 1 else 0).
Proof.
  intros H Hwf Hl. destruct (allow_spec _ _ _ _ H) as (Hm & Hr & Hla & Hc).
  pose proof (refilled_le_max b now) as Hle.
  rewrite refilled_cap, Hm, Hr, Hla.
  assert (Hz : tokens b' + (now - now) * rate b == tokens b') by ring.
  rewrite (cap_compat _ _ _ Hz).
  destruct Hc as [(-> & H1 & Ht)|(-> & H1 & Ht)]; rewrite cap_id; lra.
Qed.

(* the one-step accounting inequality *)
Lemma allow_step b now a b' : allow b now = (a, b') -> wf b -> last b <= now ->
  (if a then 1 else 0) + tokens b' <= tokens b + (now - last b) * rate b.
Proof.
  intros H Hwf Hl. destruct (allow_spec _ _ _ _ H) as (_ & _ & _ & Hc).
  pose proof (cap_le_arg (maxT b) (tokens b + (now - last b) * rate b)) as Hle.
  rewrite <- refilled_cap in Hle.
  destruct Hc as [(-> & H1 & Ht)|(-> & H1 & Ht)]; lra.
Qed.

(* ---- runs ---- *)
Lemma nadm_app a b : nadm (a ++ b) = (nadm a + nadm b)%Z.
Proof. induction a as [|x a IH]; cbn [nadm app]; [reflexivity|]. rewrite IH. lia. Qed.
Lemma nadm_nonneg ds : (0 <= nadm ds)%Z.
Proof. induction ds as [|a r IH]; cbn [nadm]; [lia|]. destruct a; lia. Qed.

Lemma last_cons {A} : forall (r : list A) (x d : A), List.last (x :: r) d = List.last r x.
Proof.
  induction r as [|y r' IH]; intros x d; [reflexivity|].
  change (List.last (x :: y :: r') d) with (List.last (y :: r') d).
  rewrite (IH y d), (IH y x). reflexivity.
Qed.

Lemma sorted_from_le t0 ts : sorted_from t0 ts -> t0 <= List.last ts t0.
Proof.
  revert t0. induction ts as [|t r IH]; intros t0 H; [cbn; lra|].
  destruct H as [H1 H2]. rewrite last_cons. specialize (IH _ H2). lra.
Qed.
Lemma sorted_from_firstn n : forall t0 ts, sorted_from t0 ts -> sorted_from t0 (firstn n ts).
Proof.
  induction n as [|n IH]; intros t0 ts H; [exact I|].
  destruct ts as [|t r]; [exact I|]. destruct H as [H1 H2]. split; [exact H1|apply IH; exact H2].
Qed.
Lemma sorted_from_weaken t0 t1 ts : t0 <= t1 -> sorted_from t1 ts -> sorted_from t0 ts.
Proof. destruct ts as [|t r]; [trivial|]. intros H [H1 H2]. split; [lra|exact H2]. Qed.

Lemma run_firstn n : forall b ts, fst (run b (firstn n ts)) = firstn n (fst (run b ts)).
Proof.
  induction n as [|n IH]; intros b ts; [reflexivity|].
  destruct ts as [|t r]; [reflexivity|]. cbn [firstn run].
  destruct (allow b t) as [a b1]. specialize (IH b1 r).
  destruct (run b1 (firstn n r)) as [ds1 b2], (run b1 r) as [ds b3]. cbn [fst] in *. rewrite IH. reflexivity.
Qed.

Lemma run_app : forall ts1 ts2 b,
  run b (ts1 ++ ts2) = let '(d1, b1) := run b ts1 in let '(d2, b2) := run b1 ts2 in (d1 ++ d2, b2).
Proof.
  induction ts1 as [|t r IH]; intros ts2 b.
  - cbn. destruct (run b ts2); reflexivity.
  - cbn [app run]. destruct (allow b t) as [a b1]. rewrite IH.
    destruct (run b1 r) as [d1 b2]. destruct (run b2 ts2) as [d2 b3]. reflexivity.
Qed.

(* the invariant behind C18:  admitted + tokens <= tokens_0 + rate * elapsed,  tokens >= 0 *)
Lemma run_bound : forall ts b ds b',
  run b ts = (ds, b') -> wf b -> sorted_from (last b) ts ->
  inject_Z (nadm ds) + tokens b' <= tokens b + (List.last ts (last b) - last b) * rate b /\
  rate b' = rate b /\ maxT b' = maxT b /\ last b' = List.last ts (last b) /\ wf b'.
Proof.
  induction ts as [|t r IH]; intros b ds b' H Hwf Hs.
  - cbn in H. inversion H; subst. cbn [nadm List.last]. repeat split; try reflexivity; try apply Hwf.
    change (inject_Z 0) with 0. ring_simplify. lra.
  - cbn [run] in H. destruct (allow b t) as [a b1] eqn:Ea. destruct (run b1 r) as [ds1 b2] eqn:Er.
    inversion H; subst. destruct Hs as [Hle Hs].
    pose proof (allow_step _ _ _ _ Ea Hwf Hle) as Hstep.
    pose proof (allow_wf _ _ _ _ Ea Hwf Hle) as Hwf1.
    destruct (allow_spec _ _ _ _ Ea) as (Hm1 & Hr1 & Hl1 & _).
    rewrite <- Hl1 in Hs.
    destruct (IH _ _ _ Er Hwf1 Hs) as (Hb & Hr2 & Hm2 & Hl2 & Hwf2).
    rewrite last_cons. rewrite Hl1 in Hb, Hl2. rewrite Hr1 in Hb.
    split; [|split; [congruence|split; [congruence|split; [exact Hl2|exact Hwf2]]]].
    cbn [nadm]. rewrite inject_Z_plus.
    assert (Hcoef : inject_Z (if a then 1 else 0) == (if a then 1 else 0)) by (destruct a; reflexivity).
    rewrite Hcoef.
    assert (Hrr : 0 <= rate b) by apply Hwf.
    pose proof (sorted_from_le _ _ Hs) as Hlast. rewrite Hl1 in Hlast.
    assert (Hp : (List.last r t - last b) * rate b == (List.last r t - t) * rate b + (t - last b) * rate b) by ring.
    rewrite Hp. lra.
Qed.

Lemma bound_lemma r burst t0 ts : 0 <= r -> 0 <= burst -> sorted_from t0 ts ->
  inject_Z (nadm (fst (run (mk r burst t0) ts))) <= burst + r * (List.last ts t0 - t0).
Proof.
  intros Hr Hb Hs. destruct (run (mk r burst t0) ts) as [ds b'] eqn:E. cbn [fst].
  destruct (run_bound ts (mk r burst t0) ds b' E (wf_mk _ _ _ Hr Hb) Hs) as (H & _ & _ & _ & (_ & _ & Ht)).
  cbn [mk tokens maxT rate last] in H. lra.
Qed.

(* at every prefix of the request sequence *)
Lemma C18_bound_lemma r burst t0 ts n : 0 <= r -> 0 <= burst -> sorted_from t0 ts ->
  inject_Z (nadm (firstn n (fst (run (mk r burst t0) ts)))) <= burst + r * (List.last (firstn n ts) t0 - t0).
Proof.
  intros Hr Hb Hs. rewrite <- run_firstn. apply bound_lemma; try assumption. apply sorted_from_firstn. exact Hs.
Qed.

(* a request that finds a whole token is admitted, and only such a request *)
Lemma C18_bucket_decision_lemma b now : fst (allow b now) = true <-> 1 <= tokens_at b now.
Proof. rewrite allow_bit. unfold tokens_at. apply Qle_bool_iff. Qed.
